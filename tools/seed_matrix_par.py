#!/usr/bin/env python3
"""seed_matrix_par.py [seed ...] — (MATRIX_CHECKS=C14,C16 restricts the columns) the full seed x check matrix on scratch copies of /repo (which stays untouched).
One scratch copy per seed (mktemp, removed afterwards), every claimed check run on it with --no-write, 14 jobs at a time.
Writes seeded/MATRIX.json: {seed: {check: {"exit": rc, "first": [first report lines]}}} for the checks that do not exit 0."""
import json, os, subprocess, sys, tempfile, shutil, concurrent.futures as cf
ROOT = "/verif"
checks = [c["property_id"] for c in json.load(open(os.path.join(ROOT, "MANIFEST.json")))["checks"]]
ONLY = [c for c in os.environ.get("MATRIX_CHECKS", "").split(",") if c]       # e.g. MATRIX_CHECKS=C14,C16: re-run these columns only
if ONLY:
    checks = [c for c in checks if c in ONLY]
seeds = sys.argv[1:] or sorted(d for d in os.listdir(os.path.join(ROOT, "seeded")) if os.path.isdir(os.path.join(ROOT, "seeded", d)))
copies = {}
try:
    for sd in seeds:
        tmp = tempfile.mkdtemp(prefix="pnc_mx.")
        subprocess.run(["rsync", "-a", "--exclude", ".git", "--exclude", "*.o", "--exclude", "*.lo", "--exclude", "*.a",
                        "--exclude", ".libs", "--exclude", "*.nc", "/repo/", tmp + "/"], check=True)
        r = subprocess.run(["patch", "-p1", "-s", "-d", tmp, "-i", os.path.join(ROOT, "seeded", sd, "patch.diff")], capture_output=True, text=True)
        if r.returncode != 0:
            print(sd, "PATCH FAILS", r.stdout[-200:])
            shutil.rmtree(tmp, ignore_errors=True)
            continue
        copies[sd] = tmp

    def run(job):
        sd, c = job
        p = subprocess.run(["python3", "sa/check.py", c, "--no-write", "--repo", copies[sd]], cwd=ROOT, capture_output=True, text=True)
        return sd, c, p.returncode, [l.strip()[:300] for l in p.stdout.splitlines() if l.startswith("  ") and "rule " in l][:2]
    # long checks first
    order = {"C08": 0, "C17": 1, "C19": 2, "C11": 3}
    jobs = sorted(((sd, c) for sd in copies for c in checks), key=lambda j: order.get(j[1], 9))
    out = {sd: {} for sd in copies}
    with cf.ThreadPoolExecutor(14) as ex:
        for sd, c, rc, first in ex.map(run, jobs):
            if rc != 0:
                out[sd][c] = {"exit": rc, "first": first}
finally:
    for t in copies.values():
        shutil.rmtree(t, ignore_errors=True)
mp = os.path.join(ROOT, "seeded", "MATRIX.json")
old = json.load(open(mp)) if os.path.exists(mp) and (sys.argv[1:] or ONLY) else {}
if ONLY:
    for sd, row in out.items():                 # replace only the re-run columns of each row
        merged = {c: v for c, v in old.get(sd, {}).items() if c not in ONLY}
        merged.update(row)
        out[sd] = merged
old.update(out)
json.dump(old, open(mp, "w"), indent=1, sort_keys=True)
missed = [s for s in sorted(out) if not any(v["exit"] == 1 for v in out[s].values())]
broken = [(s, c) for s in sorted(out) for c, v in out[s].items() if v["exit"] not in (0, 1)]
print("seeds", len(out), "missed", missed, "exit-2", broken)
