#!/bin/bash
# confirm_seed.sh <seed_dir> [worktree]  — confirm a seeded regression in a scratch worktree:
#   demo passes without the patch, fails with it, and the test suite passes with it.
# The worktree (default /tmp/confirm_wt) is created from /repo HEAD (+ build artefacts) if missing.
set -u
SD=$(cd "$1" && pwd); WT=${2:-/tmp/confirm_wt}
if [ ! -d "$WT" ]; then
  git -C /repo worktree add --detach "$WT" HEAD >/dev/null 2>&1 || exit 3
  rsync -a --exclude .git /repo/ "$WT"/
fi
cd "$WT" && git checkout -q -- . && make -j16 >/dev/null 2>&1
R0=x; R1=x; T=x
( cd "$SD" && timeout 600 bash run.sh "$WT" >"$SD/confirm_without.log" 2>&1 ); R0=$?
if ! git -C "$WT" apply "$SD/patch.diff" 2>"$SD/confirm_apply.log"; then echo "$SD: PATCH-DOES-NOT-APPLY"; exit 4; fi
make -j16 >"$SD/confirm_build.log" 2>&1 || { echo "$SD: BUILD-FAILS"; git checkout -q -- .; exit 5; }
( cd "$SD" && timeout 600 bash run.sh "$WT" >"$SD/confirm_with.log" 2>&1 ); R1=$?
if [ "${SKIP_SUITE:-0}" = 1 ]; then T="skipped"; else
T=$(make -s check -j8 2>&1 | grep -E '^(PASS|FAIL|ERROR)' | awk '{print $1}' | sort | uniq -c | tr '\n' ' ')
fi
git checkout -q -- . && make -j16 >/dev/null 2>&1
echo "$SD: demo_without=$R0 demo_with=$R1 suite_with_patch=[$T]"
