#!/usr/bin/env python3
"""xref.py — one-off cross reference: cppcheck 2.10 and clang-tidy 14 (bugprone-*, clang-analyzer-*) over the same
units and flags the extractor uses.  Not a check; output summarised under /verif/xref/."""
import json, os, subprocess, sys, collections, shutil
sys.path.insert(0, "/verif/sa")
from frontend import FrontEnd
fe = FrontEnd("/repo")
try:
    us = fe.extract(groups=["lib", "bb", "util"])
    db = []
    for n, u in sorted(us.items()):
        flags = ["-I" + os.path.dirname(fe.ncx_h[1])] + list(u.flags) + fe.mpi + ["-std=gnu11", "-UNDEBUG", "-w"]
        db.append({"directory": "/repo", "file": u.src, "arguments": ["clang"] + flags + ["-c", u.src]})
    dbdir = os.path.join(fe.scratch, "db")
    os.makedirs(dbdir)
    json.dump(db, open(os.path.join(dbdir, "compile_commands.json"), "w"))
    os.makedirs("/verif/xref", exist_ok=True)
    r = subprocess.run(["cppcheck", "--project=" + os.path.join(dbdir, "compile_commands.json"), "-j", "16", "--quiet",
                        "--enable=warning,portability", "--inconclusive", "--template={file}:{line}:{severity}:{id}:{message}"],
                       capture_output=True, text=True)
    lines = sorted(set(l.replace(fe.scratch, "<scratch>") for l in r.stderr.splitlines() if ":" in l))
    open("/verif/xref/cppcheck.txt", "w").write("\n".join(lines) + "\n")
    print("cppcheck:", len(lines), "messages;", collections.Counter(l.split(":")[3] for l in lines if l.count(":") >= 4).most_common(12))
    files = [d["file"] for d in db]
    out = []
    def tidy(f):
        p = subprocess.run(["clang-tidy-14", "-p", dbdir, "--quiet", "-checks=-*,bugprone-*,clang-analyzer-*,-clang-analyzer-security.insecureAPI.*,-bugprone-easily-swappable-parameters,-bugprone-reserved-identifier,-bugprone-narrowing-conversions,-bugprone-macro-parentheses,-bugprone-implicit-widening-of-multiplication-result,-bugprone-branch-clone,-bugprone-suspicious-include",
                            f], capture_output=True, text=True)
        return [l for l in p.stdout.splitlines() if "warning:" in l or "error:" in l]
    from concurrent.futures import ThreadPoolExecutor
    with ThreadPoolExecutor(16) as ex:
        for res in ex.map(tidy, files):
            out.extend(res)
    out = sorted(set(l.replace(fe.scratch, "<scratch>") for l in out))
    open("/verif/xref/clang-tidy.txt", "w").write("\n".join(out) + "\n")
    import re
    print("clang-tidy:", len(out), "messages;", collections.Counter(re.findall(r"\[([^\]]+)\]$", l)[0] for l in out if re.findall(r"\[([^\]]+)\]$", l)).most_common(15))
finally:
    fe.cleanup()
