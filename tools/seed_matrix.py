#!/usr/bin/env python3
"""seed_matrix.py [seed ...] — apply each kept seeded change to /repo in turn, run every claimed check on it
(in parallel), undo it, and record which checks fire in /verif/seeded/MATRIX.json.  Development aid only:
no registered check depends on it."""
import json, os, subprocess, sys, concurrent.futures as cf
ROOT = "/verif"
man = json.load(open(os.path.join(ROOT, "MANIFEST.json")))
checks = [c["property_id"] for c in man["checks"]]
seeds = sys.argv[1:] or sorted(d for d in os.listdir(os.path.join(ROOT, "seeded")) if os.path.isdir(os.path.join(ROOT, "seeded", d)))
mpath = os.path.join(ROOT, "seeded", "MATRIX.json")
matrix = json.load(open(mpath)) if os.path.exists(mpath) else {}


def run(c, out):
    p = subprocess.run(["python3", "sa/check.py", c, "--tier", "quick", "--no-write"], cwd=ROOT,
                       capture_output=True, text=True)
    fired = [l for l in p.stdout.splitlines() if l.startswith("  ") and "rule " in l]
    return c, p.returncode, fired[:3]


if subprocess.run(["git", "-C", "/repo", "diff", "--quiet"]).returncode != 0:
    sys.exit("/repo has uncommitted changes")
for s in seeds:
    patch = os.path.join(ROOT, "seeded", s, "patch.diff")
    if subprocess.run(["git", "-C", "/repo", "apply", patch]).returncode != 0:
        matrix[s] = {"error": "patch does not apply"}
        continue
    try:
        out = None
        with cf.ThreadPoolExecutor(8) as ex:
            res = list(ex.map(lambda c: run(c, out), checks))
    finally:
        subprocess.run(["git", "-C", "/repo", "checkout", "--", "."])
    matrix[s] = {c: {"exit": rc, "first": [f.strip()[:260] for f in fired]} for c, rc, fired in res if rc != 0}
    print(s, {c: v["exit"] for c, v in matrix[s].items()} or "MISSED", flush=True)
    json.dump(matrix, open(mpath, "w"), indent=1, sort_keys=True)
