#!/bin/bash
# try_seed.sh <patch.diff> <Cxx> [Cyy ...] — apply a seeded change to /repo, run the checks, undo it.
P=$1; shift
cd /repo || exit 3
git diff --quiet || { echo "/repo has uncommitted changes"; exit 3; }
git apply "$P" || { echo "patch does not apply"; exit 4; }
for c in "$@"; do
  (cd /verif && python3 sa/check.py $c > /tmp/try_seed.$c.out 2>&1; rc=$?; echo "== $c exit=$rc"; grep -A1 '^VIOLATION\|^ANALYSIS' /tmp/try_seed.$c.out | cut -c1-330 | head -${TRY_LINES:-8})
done
git -C /repo checkout -- .
