#!/bin/bash
# run_all.sh [quick|thorough] — run every claimed check against /repo, 6 at a time; prints one line per check
T=${1:-quick}
cd /verif || exit 3
ids=$(python3 -c "import json;print(' '.join(c['property_id'] for c in json.load(open('MANIFEST.json'))['checks']))")
mkdir -p out/runall
printf '%s\n' $ids | xargs -P 6 -I{} sh -c "python3 sa/check.py {} --tier $T > out/runall/{}.$T.out 2>&1; echo \"{} exit=\$? \$(tail -1 out/runall/{}.$T.out | cut -c1-150)\""
