#!/usr/bin/env python3
"""keep_seed.py <seed_dir> <confirm-line...>: copy a confirmed seeded regression into /verif/seeded/<id>/"""
import json, os, shutil, sys, glob
sd = sys.argv[1].rstrip('/'); sid = os.path.basename(sd)
dst = os.path.join('/verif/seeded', sid); os.makedirs(dst, exist_ok=True)
for f in glob.glob(sd + '/*'):
    b = os.path.basename(f)
    if b in ('patch.diff', 'run.sh', 'meta.json') or b.endswith(('.c', '.h')):
        shutil.copy(f, dst)
m = json.load(open(os.path.join(dst, 'meta.json')))
m['confirmed_by_me'] = {'ran': 'tools/confirm_seed.sh in a scratch worktree of /repo (demo without patch, demo with patch, make -s check with patch)',
                        'result': ' '.join(sys.argv[2:])}
json.dump(m, open(os.path.join(dst, 'meta.json'), 'w'), indent=1)
print('kept', dst)
