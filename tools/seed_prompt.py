#!/usr/bin/env python3
"""seed_prompt.py <round-tag> <id> ... — write /tmp/seed<tag>_out/<id>.property.json and /tmp/p<tag>_<id>.txt, the
task description handed to a fresh sub-agent that seeds one regression for property <id>.  The description contains
the property text, the agent's own scratch worktree, the rules, and a list of places already used by kept seeds (from
their patches: file and function names only) so that the new change lands somewhere else.  Nothing else from /verif."""
import json, os, re, sys, glob
tag = sys.argv[1]
ids = sys.argv[2:]
props = {json.loads(l)["id"]: json.loads(l) for l in open("/verif/properties.jsonl")}
os.makedirs("/tmp/seed%s_out" % tag, exist_ok=True)
for pid in ids:
    json.dump(props[pid], open("/tmp/seed%s_out/%s.property.json" % (tag, pid), "w"), indent=1)
    used = []
    for sd in sorted(glob.glob("/verif/seeded/%s_*" % pid)):
        try:
            diff = open(os.path.join(sd, "patch.diff")).read()
        except OSError:
            continue
        files = re.findall(r"^\+\+\+ b/(\S+)", diff, re.M)
        funcs = re.findall(r"^@@ .*@@ ?(.*)$", diff, re.M)
        used.append("%s (%s)" % (", ".join(files), "; ".join(f.strip()[:60] for f in funcs if f.strip())[:160]))
    wt = "/tmp/seed%s_%s" % (tag, pid)
    out = "/tmp/seed%s_out/%s" % (tag, pid)
    txt = f"""You are given a built copy of the Parallel-NetCDF (PnetCDF) library in the git worktree {wt}
(in-tree autotools build already configured and compiled; `make -j8` in {wt} rebuilds it; the test suite is
`make -s check -j4 2>&1 | grep -E '^(PASS|FAIL|ERROR)'` and must show 73 PASS and no FAIL/ERROR).  Several source files
(*.c next to a *.m4 of the same name) are generated: edit the .m4.  Programs are run with
`mpiexec --allow-run-as-root --oversubscribe -n N prog`.  Work only inside {wt} and {out}; do not read or write /repo or
/verif or any other /tmp/seed* directory.

The file /tmp/seed{tag}_out/{pid}.property.json describes a behavioural property of the library (statement, what it
quantifies over, why the existing tests cannot settle it, code anchors).  Read it first.

Your task: introduce ONE small, realistic regression into the library in {wt} - the kind of slip a maintainer could make
while refactoring or "simplifying" (wrong variable, off-by-one, dropped statement, condition on the wrong field, changed
order, wrong constant) - such that
  1. the property is broken (some program / input / schedule the property quantifies over now misbehaves),
  2. the library still compiles without new warnings that would give it away,
  3. the test suite still passes (73 PASS) - run it,
  4. the breakage needs something specific to show up (a particular shape, size, process count, hint, order of calls),
     which is why the suite does not see it.
Do not add code that tests for a magic input; do not touch tests, build files or comments only.  One logical change, a
few lines at most.

Places already used by earlier changes for this property - choose a different function and a different mechanism:
{chr(10).join('  - ' + u for u in used) or '  (none)'}

Deliver in {out}/ (create it):
  patch.diff   `git -C {wt} diff` of your change (sources only)
  demo.c       an MPI program using the public PnetCDF API that checks the property on a scenario where your change
               matters; it prints what it finds and exits 0 when the property holds, non-zero when it is violated
  run.sh       `run.sh <tree>` compiles demo.c against <tree>/src/libs/.libs/libpnetcdf.a (-I<tree>/src/include, mpicc,
               -lm) into a `mktemp -d` directory that it removes on exit, runs it with the process count(s) it needs under
               `timeout`, and exits 0 when the property holds and non-zero otherwise (also on a hang / crash)
  meta.json    {{"property": "{pid}", "file": ..., "function": ..., "summary": what you changed and why it breaks the
               property, "needs": what it takes to manifest, "demo": what the demo does, "preexisting": [ ... ]}}
Verify yourself before reporting (do NOT use `git stash`: the stash is shared between worktrees; save your change with
`git diff > /somewhere/my.diff`, `git checkout -- <files>`, rebuild, test, then `git apply /somewhere/my.diff`): run.sh exits 0 on the unmodified tree and non-zero with
your change applied and built; the suite passes with the change.  Leave {wt} with the change applied and built.

While reading the code you may notice behaviour of the UNMODIFIED library that already contradicts the property (or is
otherwise clearly wrong).  List each such observation under "preexisting" in meta.json with file, function, what happens
and, if you can, a small reproducer file next to demo.c - say whether you ran it.

Report back: the function and change, why it breaks the property, what it needs to manifest, what the demo shows on both
trees, the suite result, and the pre-existing observations.
"""
    open("/tmp/p%s_%s.txt" % (tag, pid), "w").write(txt)
    print("wrote /tmp/p%s_%s.txt (%d used places)" % (tag, pid, len(used)))
