#!/usr/bin/env python3
"""seed_try.py <seed_dir> ... — like seed_matrix.py but on a scratch copy of /repo (which stays untouched):
copy, apply <seed_dir>/patch.diff, run every claimed check with --repo <copy> --no-write, remove the copy."""
import json, os, subprocess, sys, tempfile, shutil, concurrent.futures as cf
ROOT = "/verif"
checks = [c["property_id"] for c in json.load(open(os.path.join(ROOT, "MANIFEST.json")))["checks"]]
out = {}
for sd in sys.argv[1:]:
    tmp = tempfile.mkdtemp(prefix="pnc_try.")
    try:
        subprocess.run(["rsync", "-a", "--exclude", ".git", "--exclude", "*.o", "--exclude", "*.lo", "--exclude", "*.a",
                        "--exclude", ".libs", "--exclude", "*.nc", "/repo/", tmp + "/"], check=True)
        r = subprocess.run(["patch", "-p1", "-s", "-d", tmp, "-i", os.path.join(os.path.abspath(sd), "patch.diff")], capture_output=True, text=True)
        if r.returncode != 0:
            print(sd, "PATCH FAILS", r.stdout[-200:]); continue
        def run(c):
            p = subprocess.run(["python3", "sa/check.py", c, "--no-write", "--repo", tmp], cwd=ROOT, capture_output=True, text=True)
            return c, p.returncode, [l.strip()[:300] for l in p.stdout.splitlines() if l.startswith("  ") and "rule " in l][:2]
        with cf.ThreadPoolExecutor(8) as ex:
            res = [x for x in ex.map(run, checks) if x[1] != 0]
        out[os.path.basename(sd.rstrip("/"))] = {c: {"exit": rc, "first": f} for c, rc, f in res}
        print(os.path.basename(sd.rstrip("/")), {c: rc for c, rc, f in res} or "MISSED", flush=True)
        for c, rc, f in res:
            for l in f[:1]:
                print("     ", l[:260])
    finally:
        shutil.rmtree(tmp, ignore_errors=True)
json.dump(out, open("/tmp/seed_try_last.json", "w"), indent=1)
