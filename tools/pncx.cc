// pncx — fact extractor for the PnetCDF static checks.
//
// One clang-14 libTooling front-end action.  For the translation unit given on
// the command line it writes one JSON document with
//   * a type table,
//   * every function definition outside system headers: parameters, locals,
//     clang's source-level CFG (blocks, ordered successors, terminator kind,
//     case labels) and, per CFG element, the expression tree with resolved
//     callees, member/field identities, cast kinds, integer constant values
//     (clang's constant evaluator) and the macros whose expansion the
//     expression is,
//   * file-scope variables with their initialisers (driver tables, byte tables),
//   * record (struct) layouts and object-like macro bodies of non-system files.
//
// usage: pncx -o out.json file.c -- <compiler flags>
//
// The tool only *describes* the program; every verdict is computed by the
// Python rules in /verif/sa.

#include "clang/AST/ASTConsumer.h"
#include "clang/AST/ASTContext.h"
#include "clang/AST/Decl.h"
#include "clang/AST/Expr.h"
#include "clang/AST/RecursiveASTVisitor.h"
#include "clang/AST/Stmt.h"
#include "clang/Analysis/CFG.h"
#include "clang/Basic/SourceManager.h"
#include "clang/Frontend/CompilerInstance.h"
#include "clang/Frontend/FrontendAction.h"
#include "clang/Lex/Lexer.h"
#include "clang/Lex/MacroInfo.h"
#include "clang/Lex/Preprocessor.h"
#include "clang/Tooling/CompilationDatabase.h"
#include "clang/Tooling/Tooling.h"
#include "llvm/ADT/DenseMap.h"
#include "llvm/ADT/DenseSet.h"
#include "llvm/Support/JSON.h"
#include "llvm/Support/raw_ostream.h"

#include <algorithm>
#include <map>
#include <memory>
#include <string>
#include <vector>

using namespace clang;
namespace json = llvm::json;

static std::string OutPath;

namespace {

class Extractor {
public:
  Extractor(ASTContext &Ctx, Preprocessor &PP, json::OStream &J)
      : Ctx(Ctx), SM(Ctx.getSourceManager()), PP(PP), J(J) {
    Policy = PrintingPolicy(Ctx.getLangOpts());
    Policy.SuppressTagKeyword = false;
  }

  void run() {
    TranslationUnitDecl *TU = Ctx.getTranslationUnitDecl();
    J.objectBegin();
    J.attribute("main", mainFileName());
    // functions -----------------------------------------------------------
    J.attributeBegin("functions");
    J.arrayBegin();
    for (Decl *D : TU->decls()) {
      if (auto *FD = dyn_cast<FunctionDecl>(D)) {
        if (!FD->doesThisDeclarationHaveABody())
          continue;
        if (inSystem(FD->getLocation()))
          continue;
        emitFunction(FD);
      }
    }
    J.arrayEnd();
    J.attributeEnd();
    // globals -------------------------------------------------------------
    J.attributeBegin("globals");
    J.arrayBegin();
    for (Decl *D : TU->decls()) {
      if (auto *VD = dyn_cast<VarDecl>(D)) {
        if (inSystem(VD->getLocation()))
          continue;
        J.objectBegin();
        J.attribute("n", VD->getNameAsString());
        J.attribute("t", typeIdx(VD->getType()));
        J.attribute("static", VD->getStorageClass() == SC_Static);
        J.attribute("extern", VD->hasExternalStorage());
        emitLoc(VD->getLocation());
        if (VD->hasInit()) {
          J.attributeBegin("init");
          CurElems = nullptr;
          emitStmt(VD->getInit());
          J.attributeEnd();
        }
        J.objectEnd();
      }
    }
    J.arrayEnd();
    J.attributeEnd();
    // function declarations (prototypes) ------------------------------------
    J.attributeBegin("protos");
    J.arrayBegin();
    {
      llvm::DenseSet<const FunctionDecl *> Seen;
      for (Decl *D : TU->decls()) {
        if (auto *FD = dyn_cast<FunctionDecl>(D)) {
          if (inSystem(FD->getLocation()))
            continue;
          const FunctionDecl *C = FD->getCanonicalDecl();
          if (!Seen.insert(C).second)
            continue;
          J.objectBegin();
          J.attribute("n", FD->getNameAsString());
          J.attribute("ret", typeIdx(FD->getReturnType()));
          J.attributeBegin("params");
          J.arrayBegin();
          for (const ParmVarDecl *P : FD->parameters()) {
            J.objectBegin();
            J.attribute("n", P->getNameAsString());
            J.attribute("t", typeIdx(P->getType()));
            J.objectEnd();
          }
          J.arrayEnd();
          J.attributeEnd();
          J.objectEnd();
        }
      }
    }
    J.arrayEnd();
    J.attributeEnd();
    // records -------------------------------------------------------------
    J.attributeBegin("records");
    J.arrayBegin();
    emitRecords(TU);
    J.arrayEnd();
    J.attributeEnd();
    // macros --------------------------------------------------------------
    J.attributeBegin("macros");
    J.objectBegin();
    emitMacros();
    J.objectEnd();
    J.attributeEnd();
    // types (last: table is complete now) -----------------------------------
    J.attributeBegin("types");
    J.arrayBegin();
    for (size_t i = 0; i < Types.size(); i++)
      emitTypeEntry(Types[i]);
    J.arrayEnd();
    J.attributeEnd();
    J.objectEnd();
  }

private:
  ASTContext &Ctx;
  SourceManager &SM;
  Preprocessor &PP;
  json::OStream &J;
  PrintingPolicy Policy{LangOptions()};

  std::vector<QualType> Types;
  std::map<std::string, int> TypeIndex;

  llvm::DenseMap<const VarDecl *, int> VarIds;
  // CFG elements of the current function: stmt -> "block.index"
  const llvm::DenseMap<const Stmt *, std::pair<unsigned, unsigned>> *CurElems =
      nullptr;
  const Stmt *CurTop = nullptr;

  std::string mainFileName() {
    const FileEntry *FE = SM.getFileEntryForID(SM.getMainFileID());
    return FE ? FE->getName().str() : std::string();
  }

  bool inSystem(SourceLocation L) {
    if (L.isInvalid())
      return true;
    SourceLocation E = SM.getExpansionLoc(L);
    return SM.isInSystemHeader(E) || SM.isInSystemMacro(L);
  }

  void emitLoc(SourceLocation L) {
    PresumedLoc P = SM.getPresumedLoc(SM.getExpansionLoc(L));
    if (P.isValid()) {
      J.attribute("file", P.getFilename());
      J.attribute("line", (int64_t)P.getLine());
    }
  }

  unsigned lineOf(SourceLocation L) {
    if (L.isInvalid())
      return 0;
    return SM.getExpansionLineNumber(L);
  }

  // ---- types --------------------------------------------------------------
  int typeIdx(QualType T) {
    if (T.isNull())
      return -1;
    std::string Key = T.getAsString(Policy) + "|" +
                      T.getCanonicalType().getAsString(Policy);
    auto It = TypeIndex.find(Key);
    if (It != TypeIndex.end())
      return It->second;
    int Idx = (int)Types.size();
    TypeIndex[Key] = Idx;
    Types.push_back(T);
    // make sure pointee / element types are in the table as well
    QualType C = T.getCanonicalType();
    if (C->isPointerType())
      typeIdx(T->getPointeeType());
    else if (C->isArrayType())
      typeIdx(Ctx.getAsArrayType(T)->getElementType());
    return Idx;
  }

  void emitTypeEntry(QualType T) {
    QualType C = T.getCanonicalType();
    J.objectBegin();
    J.attribute("s", T.getAsString(Policy));
    J.attribute("c", C.getAsString(Policy));
    const char *K = "other";
    if (C->isVoidType())
      K = "void";
    else if (C->isBooleanType())
      K = "uint";
    else if (C->isEnumeralType())
      K = "enum";
    else if (C->isIntegerType())
      K = C->isSignedIntegerType() ? "int" : "uint";
    else if (C->isFloatingType())
      K = "float";
    else if (C->isPointerType())
      K = "ptr";
    else if (C->isRecordType())
      K = "rec";
    else if (C->isArrayType())
      K = "arr";
    else if (C->isFunctionType())
      K = "fn";
    J.attribute("k", K);
    if (!C->isIncompleteType() && !C->isFunctionType() && !C->isVoidType() &&
        !C->isDependentType())
      J.attribute("bits", (int64_t)Ctx.getTypeSize(C));
    if (C->isPointerType())
      J.attribute("to", typeIdx(T->getPointeeType()));
    else if (C->isArrayType()) {
      const ArrayType *AT = Ctx.getAsArrayType(T);
      J.attribute("to", typeIdx(AT->getElementType()));
      if (auto *CAT = dyn_cast<ConstantArrayType>(AT))
        J.attribute("n", (int64_t)CAT->getSize().getZExtValue());
    } else if (C->isRecordType()) {
      const RecordDecl *RD = C->getAs<RecordType>()->getDecl();
      J.attribute("rec", RD->getNameAsString());
    }
    if (C.isConstQualified())
      J.attribute("const", true);
    J.objectEnd();
  }

  // ---- records, macros ------------------------------------------------------
  struct RecVisitor : RecursiveASTVisitor<RecVisitor> {
    std::vector<const RecordDecl *> Recs;
    bool VisitRecordDecl(RecordDecl *RD) {
      if (RD->isCompleteDefinition())
        Recs.push_back(RD);
      return true;
    }
  };

  void emitRecords(TranslationUnitDecl *TU) {
    RecVisitor V;
    for (Decl *D : TU->decls()) {
      if (inSystem(D->getLocation()))
        continue;
      if (isa<FunctionDecl>(D))
        continue;
      V.TraverseDecl(D);
    }
    for (const RecordDecl *RD : V.Recs) {
      J.objectBegin();
      std::string N = RD->getNameAsString();
      if (N.empty())
        if (const TypedefNameDecl *TD = RD->getTypedefNameForAnonDecl())
          N = TD->getNameAsString();
      J.attribute("n", N);
      J.attribute("union", RD->isUnion());
      emitLoc(RD->getLocation());
      J.attributeBegin("fields");
      J.arrayBegin();
      for (const FieldDecl *F : RD->fields()) {
        J.objectBegin();
        J.attribute("n", F->getNameAsString());
        J.attribute("t", typeIdx(F->getType()));
        J.objectEnd();
      }
      J.arrayEnd();
      J.attributeEnd();
      J.objectEnd();
    }
  }

  void emitMacros() {
    for (auto It = PP.macro_begin(false), E = PP.macro_end(false); It != E;
         ++It) {
      const IdentifierInfo *II = It->first;
      const MacroDirective *MD = It->second.getLatest();
      if (!MD)
        continue;
      const MacroInfo *MI = MD->getMacroInfo();
      if (!MI || MI->isBuiltinMacro())
        continue;
      SourceLocation L = MI->getDefinitionLoc();
      if (L.isInvalid() || SM.isInSystemHeader(L) ||
          SM.isWrittenInBuiltinFile(L) || SM.isWrittenInCommandLineFile(L))
        continue;
      if (MI->getNumTokens() > 24)
        continue;
      std::string Body;
      for (const Token &T : MI->tokens()) {
        if (!Body.empty() && T.hasLeadingSpace())
          Body += ' ';
        Body += PP.getSpelling(T);
      }
      if (MI->isFunctionLike()) {
        std::string Sig = "(";
        bool First = true;
        for (const IdentifierInfo *P : MI->params()) {
          if (!First)
            Sig += ",";
          First = false;
          Sig += P->getName().str();
        }
        Sig += ")";
        J.attribute((II->getName() + Sig).str(), json::fixUTF8(Body));
      } else {
        J.attribute(II->getName(), json::fixUTF8(Body));
      }
    }
  }

  // ---- functions --------------------------------------------------------------
  struct VarCollector : RecursiveASTVisitor<VarCollector> {
    std::vector<const VarDecl *> Vars;
    bool VisitVarDecl(VarDecl *VD) {
      Vars.push_back(VD);
      return true;
    }
  };

  void emitFunction(FunctionDecl *FD) {
    Stmt *Body = FD->getBody();
    CFG::BuildOptions BO;
    BO.PruneTriviallyFalseEdges = true;
    BO.AddImplicitDtors = false;
    BO.AddEHEdges = false;
    std::unique_ptr<CFG> G = CFG::buildCFG(FD, Body, &Ctx, BO);
    J.objectBegin();
    J.attribute("n", FD->getNameAsString());
    emitLoc(FD->getLocation());
    J.attribute("endline", (int64_t)lineOf(Body->getEndLoc()));
    J.attribute("static", FD->getStorageClass() == SC_Static);
    J.attribute("ret", typeIdx(FD->getReturnType()));
    VarIds.clear();
    int NextId = 0;
    J.attributeBegin("params");
    J.arrayBegin();
    for (const ParmVarDecl *P : FD->parameters()) {
      VarIds[P] = NextId;
      J.objectBegin();
      J.attribute("n", P->getNameAsString());
      J.attribute("id", NextId++);
      J.attribute("t", typeIdx(P->getType()));
      J.objectEnd();
    }
    J.arrayEnd();
    J.attributeEnd();
    VarCollector VC;
    VC.TraverseStmt(Body);
    J.attributeBegin("locals");
    J.arrayBegin();
    for (const VarDecl *V : VC.Vars) {
      if (VarIds.count(V))
        continue;
      VarIds[V] = NextId;
      J.objectBegin();
      J.attribute("n", V->getNameAsString());
      J.attribute("id", NextId++);
      J.attribute("t", typeIdx(V->getType()));
      if (V->isStaticLocal())
        J.attribute("static", true);
      J.objectEnd();
    }
    J.arrayEnd();
    J.attributeEnd();
    if (!G) {
      J.attribute("nocfg", true);
      J.objectEnd();
      return;
    }
    llvm::DenseMap<const Stmt *, std::pair<unsigned, unsigned>> Elems;
    for (const CFGBlock *B : *G) {
      unsigned I = 0;
      for (const CFGElement &E : *B) {
        if (auto S = E.getAs<CFGStmt>())
          Elems[S->getStmt()] = {B->getBlockID(), I};
        I++;
      }
    }
    CurElems = &Elems;
    J.attribute("entry", (int64_t)G->getEntry().getBlockID());
    J.attribute("exit", (int64_t)G->getExit().getBlockID());
    J.attributeBegin("blocks");
    J.arrayBegin();
    for (const CFGBlock *B : *G) {
      J.objectBegin();
      J.attribute("id", (int64_t)B->getBlockID());
      if (B->hasNoReturnElement())
        J.attribute("noreturn", true);
      // label
      if (const Stmt *L = B->getLabel()) {
        J.attributeBegin("label");
        J.objectBegin();
        if (auto *CS = dyn_cast<CaseStmt>(L)) {
          Expr::EvalResult R;
          if (CS->getLHS()->EvaluateAsInt(R, Ctx))
            J.attribute("lo", R.Val.getInt().getExtValue());
          if (CS->getRHS() && CS->getRHS()->EvaluateAsInt(R, Ctx))
            J.attribute("hi", R.Val.getInt().getExtValue());
          J.attribute("k", "case");
          auto Ms = coveringMacros(CS->getLHS());
          if (!Ms.empty())
            J.attribute("m", Ms.front());
        } else if (isa<DefaultStmt>(L)) {
          J.attribute("k", "default");
        } else if (auto *LS = dyn_cast<LabelStmt>(L)) {
          J.attribute("k", "label");
          J.attribute("n", LS->getName());
        }
        J.attribute("l", (int64_t)lineOf(L->getBeginLoc()));
        J.objectEnd();
        J.attributeEnd();
      }
      J.attributeBegin("elems");
      J.arrayBegin();
      for (const CFGElement &E : *B) {
        if (auto S = E.getAs<CFGStmt>()) {
          CurTop = S->getStmt();
          emitStmt(S->getStmt());
        } else {
          J.objectBegin();
          J.attribute("k", "nonstmt");
          J.objectEnd();
        }
      }
      CurTop = nullptr;
      J.arrayEnd();
      J.attributeEnd();
      if (const Stmt *T = B->getTerminatorStmt()) {
        const char *K = "other";
        if (isa<IfStmt>(T))
          K = "if";
        else if (isa<SwitchStmt>(T))
          K = "switch";
        else if (isa<ForStmt>(T))
          K = "for";
        else if (isa<WhileStmt>(T))
          K = "while";
        else if (isa<DoStmt>(T))
          K = "do";
        else if (isa<GotoStmt>(T))
          K = "goto";
        else if (isa<BreakStmt>(T))
          K = "break";
        else if (isa<ContinueStmt>(T))
          K = "continue";
        else if (isa<ConditionalOperator>(T) ||
                 isa<BinaryConditionalOperator>(T))
          K = "cond";
        else if (auto *BOp = dyn_cast<BinaryOperator>(T)) {
          if (BOp->getOpcode() == BO_LAnd)
            K = "land";
          else if (BOp->getOpcode() == BO_LOr)
            K = "lor";
        } else if (isa<IndirectGotoStmt>(T))
          K = "igoto";
        J.attribute("term", K);
        J.attribute("tl", (int64_t)lineOf(T->getBeginLoc()));
        if (auto *GS = dyn_cast<GotoStmt>(T))
          J.attribute("goto", GS->getLabel()->getName());
      }
      J.attributeBegin("succs");
      J.arrayBegin();
      for (auto It = B->succ_begin(); It != B->succ_end(); ++It) {
        const CFGBlock *S = It->getReachableBlock();
        if (S)
          J.value((int64_t)S->getBlockID());
        else
          J.value(nullptr);
      }
      J.arrayEnd();
      J.attributeEnd();
      J.objectEnd();
    }
    J.arrayEnd();
    J.attributeEnd();
    CurElems = nullptr;
    J.objectEnd();
  }

  // ---- macro coverage -----------------------------------------------------------
  // Names of the macros (innermost first) whose expansion is exactly this
  // expression.
  std::vector<std::string> coveringMacros(const Stmt *S) {
    std::vector<std::string> Out;
    SourceLocation B = S->getBeginLoc(), E = S->getEndLoc();
    int Guard = 0;
    while (B.isMacroID() && E.isMacroID() && Guard++ < 32) {
      if (SM.isMacroArgExpansion(B) && SM.isMacroArgExpansion(E)) {
        // written as (part of) a macro argument: continue where it was spelled
        B = SM.getImmediateSpellingLoc(B);
        E = SM.getImmediateSpellingLoc(E);
        continue;
      }
      if (SM.isMacroArgExpansion(B) || SM.isMacroArgExpansion(E))
        break;
      SourceLocation NB, NE;
      if (!SM.isAtStartOfImmediateMacroExpansion(B, &NB))
        break;
      unsigned Len = Lexer::MeasureTokenLength(SM.getSpellingLoc(E), SM,
                                               Ctx.getLangOpts());
      if (!SM.isAtEndOfImmediateMacroExpansion(E.getLocWithOffset(Len), &NE))
        break;
      StringRef Name = Lexer::getImmediateMacroName(B, SM, Ctx.getLangOpts());
      if (Name.empty())
        break;
      Out.push_back(Name.str());
      B = NB;
      E = NE;
    }
    return Out;
  }

  // Names of all macros in whose expansion the statement starts (innermost
  // first); used for statement-level idioms such as TRACE_IO.
  std::vector<std::string> enclosingMacros(const Stmt *S) {
    std::vector<std::string> Out;
    SourceLocation L = S->getBeginLoc();
    int Guard = 0;
    while (L.isMacroID() && Guard++ < 16) {
      if (SM.isMacroArgExpansion(L)) {
        L = SM.getImmediateSpellingLoc(L);
        continue;
      }
      StringRef Name = Lexer::getImmediateMacroName(L, SM, Ctx.getLangOpts());
      if (!Name.empty())
        Out.push_back(Name.str());
      L = SM.getImmediateExpansionRange(L).getBegin();
    }
    return Out;
  }

  // ---- statements / expressions -------------------------------------------------
  static bool transparentCast(const CastExpr *CE) {
    switch (CE->getCastKind()) {
    case CK_LValueToRValue:
    case CK_NoOp:
    case CK_FunctionToPointerDecay:
    case CK_ArrayToPointerDecay:
    case CK_BuiltinFnToFnPtr:
      return isa<ImplicitCastExpr>(CE);
    default:
      return false;
    }
  }

  void emitNull() { J.value(nullptr); }

  void emitStmt(const Stmt *S, std::vector<std::string> Inherited = {}) {
    if (!S) {
      emitNull();
      return;
    }
    if (CurElems && S != CurTop) {
      auto It = CurElems->find(S);
      if (It != CurElems->end()) {
        J.objectBegin();
        J.attribute("k", "pre");
        J.attribute("b", (int64_t)It->second.first);
        J.attribute("i", (int64_t)It->second.second);
        auto Ms = coveringMacros(S);
        for (auto &I : Inherited)
          if (std::find(Ms.begin(), Ms.end(), I) == Ms.end())
            Ms.push_back(I);
        if (!Ms.empty()) {
          J.attributeBegin("m");
          J.arrayBegin();
          for (auto &M : Ms)
            J.value(M);
          J.arrayEnd();
          J.attributeEnd();
        }
        J.objectEnd();
        return;
      }
    }
    // transparent wrappers: keep macro coverage of the wrapper
    {
      const Stmt *Sub = nullptr;
      if (auto *PE = dyn_cast<ParenExpr>(S))
        Sub = PE->getSubExpr();
      else if (auto *CE = dyn_cast<CastExpr>(S)) {
        if (transparentCast(CE))
          Sub = CE->getSubExpr();
      } else if (auto *FE = dyn_cast<FullExpr>(S))
        Sub = FE->getSubExpr();
      if (Sub) {
        auto Ms = coveringMacros(S);
        Ms.insert(Ms.end(), Inherited.begin(), Inherited.end());
        if (S == CurTop && !(CurElems && CurElems->count(Sub)))
          CurTop = Sub;
        emitStmt(Sub, Ms);
        return;
      }
    }
    J.objectBegin();
    J.attribute("l", (int64_t)lineOf(S->getBeginLoc()));
    {
      auto Ms = coveringMacros(S);
      for (auto &I : Inherited)
        if (std::find(Ms.begin(), Ms.end(), I) == Ms.end())
          Ms.push_back(I);
      if (!Ms.empty()) {
        J.attributeBegin("m");
        J.arrayBegin();
        for (auto &M : Ms)
          J.value(M);
        J.arrayEnd();
        J.attributeEnd();
      }
    }
    if (S == CurTop) {
      auto Ms = enclosingMacros(S);
      if (!Ms.empty()) {
        J.attributeBegin("in");
        J.arrayBegin();
        for (auto &M : Ms)
          J.value(M);
        J.arrayEnd();
        J.attributeEnd();
      }
    }
    const Expr *E = dyn_cast<Expr>(S);
    bool HaveCV = false;
    if (E) {
      J.attribute("t", typeIdx(E->getType()));
      if (!E->isValueDependent() && E->getType()->isIntegralOrEnumerationType() &&
          !isa<InitListExpr>(E)) {
        Expr::EvalResult R;
        if (E->EvaluateAsInt(R, Ctx, Expr::SE_NoSideEffects)) {
          llvm::APSInt V = R.Val.getInt();
          if (V.isSigned() || V.getActiveBits() <= 63)
            J.attribute("cv", V.getExtValue());
          else
            J.attribute("cv", (uint64_t)V.getZExtValue());
          HaveCV = true;
        }
      } else if (!E->isValueDependent() && E->getType()->isRealFloatingType() &&
                 !isa<InitListExpr>(E)) {
        llvm::APFloat F(0.0);
        if (E->EvaluateAsFloat(F, Ctx, Expr::SE_NoSideEffects)) {
          llvm::SmallString<32> Str;
          F.toString(Str, 0, 0);
          J.attribute("fv", Str.str());
          HaveCV = true;
        }
      }
    }

    if (auto *CE = dyn_cast<CallExpr>(S)) {
      J.attribute("k", "call");
      if (const FunctionDecl *FD = CE->getDirectCallee()) {
        J.attribute("fn", FD->getNameAsString());
      } else {
        J.attributeBegin("fnx");
        emitStmt(CE->getCallee());
        J.attributeEnd();
      }
      J.attributeBegin("args");
      J.arrayBegin();
      for (const Expr *A : CE->arguments())
        emitStmt(A);
      J.arrayEnd();
      J.attributeEnd();
    } else if (auto *DRE = dyn_cast<DeclRefExpr>(S)) {
      J.attribute("k", "ref");
      const ValueDecl *D = DRE->getDecl();
      J.attribute("n", D->getNameAsString());
      if (auto *VD = dyn_cast<VarDecl>(D)) {
        auto It = VarIds.find(VD);
        if (isa<ParmVarDecl>(VD)) {
          J.attribute("dk", "param");
        } else if (VD->isLocalVarDecl()) {
          J.attribute("dk", "local");
        } else {
          J.attribute("dk", "global");
        }
        if (It != VarIds.end())
          J.attribute("id", It->second);
      } else if (isa<FunctionDecl>(D)) {
        J.attribute("dk", "func");
      } else if (isa<EnumConstantDecl>(D)) {
        J.attribute("dk", "enum");
      }
    } else if (auto *ME = dyn_cast<MemberExpr>(S)) {
      J.attribute("k", "mem");
      J.attribute("f", ME->getMemberDecl()->getNameAsString());
      J.attribute("arrow", ME->isArrow());
      if (auto *FD = dyn_cast<FieldDecl>(ME->getMemberDecl())) {
        const RecordDecl *RD = FD->getParent();
        std::string N = RD->getNameAsString();
        if (N.empty())
          if (const TypedefNameDecl *TD = RD->getTypedefNameForAnonDecl())
            N = TD->getNameAsString();
        J.attribute("rec", N);
      }
      J.attributeBegin("b");
      emitStmt(ME->getBase());
      J.attributeEnd();
    } else if (auto *AS = dyn_cast<ArraySubscriptExpr>(S)) {
      J.attribute("k", "idx");
      J.attributeBegin("b");
      emitStmt(AS->getBase());
      J.attributeEnd();
      J.attributeBegin("i");
      emitStmt(AS->getIdx());
      J.attributeEnd();
    } else if (auto *UO = dyn_cast<UnaryOperator>(S)) {
      J.attribute("k", "un");
      std::string Op = UnaryOperator::getOpcodeStr(UO->getOpcode()).str();
      if (UO->isPostfix())
        Op = "post" + Op;
      else if (UO->isIncrementDecrementOp())
        Op = "pre" + Op;
      J.attribute("op", Op);
      J.attributeBegin("e");
      emitStmt(UO->getSubExpr());
      J.attributeEnd();
    } else if (auto *BOp = dyn_cast<BinaryOperator>(S)) {
      if (BOp->isAssignmentOp())
        J.attribute("k", "asg");
      else
        J.attribute("k", "bin");
      J.attribute("op", BOp->getOpcodeStr());
      if (auto *CAO = dyn_cast<CompoundAssignOperator>(BOp))
        J.attribute("ct", typeIdx(CAO->getComputationResultType()));
      J.attributeBegin("a");
      emitStmt(BOp->getLHS());
      J.attributeEnd();
      J.attributeBegin("b");
      emitStmt(BOp->getRHS());
      J.attributeEnd();
    } else if (auto *CO = dyn_cast<ConditionalOperator>(S)) {
      J.attribute("k", "cond");
      J.attributeBegin("c");
      emitStmt(CO->getCond());
      J.attributeEnd();
      J.attributeBegin("a");
      emitStmt(CO->getTrueExpr());
      J.attributeEnd();
      J.attributeBegin("b");
      emitStmt(CO->getFalseExpr());
      J.attributeEnd();
    } else if (auto *CE2 = dyn_cast<CastExpr>(S)) {
      J.attribute("k", "cast");
      J.attribute("ck", CE2->getCastKindName());
      J.attribute("impl", isa<ImplicitCastExpr>(CE2));
      J.attribute("ft", typeIdx(CE2->getSubExpr()->getType()));
      J.attributeBegin("e");
      emitStmt(CE2->getSubExpr());
      J.attributeEnd();
    } else if (auto *IL = dyn_cast<IntegerLiteral>(S)) {
      J.attribute("k", "int");
      (void)IL;
    } else if (auto *FL = dyn_cast<FloatingLiteral>(S)) {
      J.attribute("k", "float");
      (void)FL;
    } else if (auto *CL = dyn_cast<CharacterLiteral>(S)) {
      J.attribute("k", "char");
      (void)CL;
    } else if (auto *SL = dyn_cast<StringLiteral>(S)) {
      J.attribute("k", "str");
      if (SL->getCharByteWidth() == 1)
        J.attribute("s", json::fixUTF8(SL->getBytes()));
    } else if (auto *UE = dyn_cast<UnaryExprOrTypeTraitExpr>(S)) {
      J.attribute("k", "sizeof");
      if (UE->isArgumentType())
        J.attribute("at", typeIdx(UE->getArgumentType()));
      else {
        J.attribute("at", typeIdx(UE->getArgumentExpr()->getType()));
      }
    } else if (auto *ILE = dyn_cast<InitListExpr>(S)) {
      J.attribute("k", "init");
      const InitListExpr *Sem = ILE->isSemanticForm() ? ILE : ILE->getSemanticForm();
      if (!Sem)
        Sem = ILE;
      J.attributeBegin("elems");
      J.arrayBegin();
      for (const Expr *I : Sem->inits())
        emitStmt(I);
      J.arrayEnd();
      J.attributeEnd();
    } else if (isa<ImplicitValueInitExpr>(S)) {
      J.attribute("k", "zero");
    } else if (auto *RS = dyn_cast<ReturnStmt>(S)) {
      J.attribute("k", "ret");
      J.attributeBegin("e");
      emitStmt(RS->getRetValue());
      J.attributeEnd();
    } else if (auto *DS = dyn_cast<DeclStmt>(S)) {
      J.attribute("k", "decl");
      J.attributeBegin("vars");
      J.arrayBegin();
      for (const Decl *D : DS->decls()) {
        if (auto *VD = dyn_cast<VarDecl>(D)) {
          J.objectBegin();
          J.attribute("n", VD->getNameAsString());
          auto It = VarIds.find(VD);
          if (It != VarIds.end())
            J.attribute("id", It->second);
          J.attribute("t", typeIdx(VD->getType()));
          if (VD->isStaticLocal())
            J.attribute("static", true);
          if (VD->hasInit()) {
            J.attributeBegin("init");
            emitStmt(VD->getInit());
            J.attributeEnd();
          }
          J.objectEnd();
        }
      }
      J.arrayEnd();
      J.attributeEnd();
    } else if (auto *SE = dyn_cast<StmtExpr>(S)) {
      J.attribute("k", "stmtexpr");
      (void)SE;
    } else if (auto *CLE = dyn_cast<CompoundLiteralExpr>(S)) {
      J.attribute("k", "complit");
      J.attributeBegin("e");
      emitStmt(CLE->getInitializer());
      J.attributeEnd();
    } else {
      J.attribute("k", "other");
      J.attribute("cls", S->getStmtClassName());
      J.attributeBegin("ch");
      J.arrayBegin();
      for (const Stmt *C : S->children())
        emitStmt(C);
      J.arrayEnd();
      J.attributeEnd();
    }
    (void)HaveCV;
    J.objectEnd();
  }
};

class Consumer : public ASTConsumer {
  CompilerInstance &CI;

public:
  explicit Consumer(CompilerInstance &CI) : CI(CI) {}
  void HandleTranslationUnit(ASTContext &Ctx) override {
    if (CI.getDiagnostics().hasErrorOccurred()) {
      llvm::errs() << "pncx: front end reported errors; no facts written\n";
      return;
    }
    std::error_code EC;
    llvm::raw_fd_ostream OS(OutPath, EC);
    if (EC) {
      llvm::errs() << "pncx: cannot open " << OutPath << ": " << EC.message()
                   << "\n";
      return;
    }
    json::OStream J(OS);
    Extractor X(Ctx, CI.getPreprocessor(), J);
    X.run();
    OS << "\n";
  }
};

class Action : public ASTFrontendAction {
public:
  std::unique_ptr<ASTConsumer> CreateASTConsumer(CompilerInstance &CI,
                                                 StringRef) override {
    return std::make_unique<Consumer>(CI);
  }
};

class Factory : public tooling::FrontendActionFactory {
public:
  std::unique_ptr<FrontendAction> create() override {
    return std::make_unique<Action>();
  }
};

} // namespace

int main(int argc, const char **argv) {
  // pncx -o out.json file.c -- flags...
  std::string File;
  std::vector<std::string> Flags;
  int i = 1;
  for (; i < argc; i++) {
    std::string A = argv[i];
    if (A == "--") {
      i++;
      break;
    }
    if (A == "-o" && i + 1 < argc) {
      OutPath = argv[++i];
      continue;
    }
    File = A;
  }
  for (; i < argc; i++)
    Flags.push_back(argv[i]);
  if (File.empty() || OutPath.empty()) {
    llvm::errs() << "usage: pncx -o out.json file.c -- <flags>\n";
    return 2;
  }
  tooling::FixedCompilationDatabase DB(".", Flags);
  tooling::ClangTool Tool(DB, {File});
  Factory F;
  int RC = Tool.run(&F);
  return RC;
}
