#!/bin/bash
# usage: run.sh [built pnetcdf tree]
# C20: the validator, the serial diff tool (which embeds the validator's decoder) and the offset tool on specification-valid
# files with 1500-byte names.  ncvalidator / cdfdiff composed their location strings with sprintf in char xloc[1024] and
# ncoffsets staged each dimension name in char str[1024]: all three died with SIGSEGV.  exit 0: all three tools answer
W="$(cd "${1:-/repo}" && pwd)"; HERE="$(cd "$(dirname "$0")" && pwd)"
TMP="$(mktemp -d /tmp/c20ln.XXXXXX)" || exit 2
trap 'rm -rf "$TMP"' EXIT
python3 "$HERE/make_files.py" "$TMP" || exit 2
cd "$TMP"; rc=0
t() { "$@" >out.txt 2>&1; r=$?; [ $r -eq 0 ] && echo "ok: ${1##*/} ${*:2}" || { echo "exit $r: ${1##*/} ${*:2}"; rc=1; }; }
t $W/src/utils/ncvalidator/ncvalidator longname.nc
t $W/src/utils/ncmpidiff/cdfdiff longname.nc longname.nc
t $W/src/utils/ncoffsets/ncoffsets longdim.nc
t $W/src/utils/ncvalidator/ncvalidator longdim.nc
exit $rc
