#!/usr/bin/env python3
"""two specification-valid CDF-1 files (hand-encoded, names longer than any the library writes):
longname.nc: a global attribute whose name has 1500 bytes;  longdim.nc: int v(d) with a 1500-byte dimension name"""
import struct, sys, os
out = sys.argv[1]
def name(s):
    b = s.encode(); pad = (-len(b)) % 4
    return struct.pack(">I", len(b)) + b + b"\0" * pad
hdr = b"CDF\x01" + struct.pack(">I", 0) + struct.pack(">II", 0, 0)
hdr += struct.pack(">II", 12, 1) + name("a" * 1500) + struct.pack(">II", 4, 1) + struct.pack(">i", 7)
hdr += struct.pack(">II", 0, 0)
open(os.path.join(out, "longname.nc"), "wb").write(hdr)
hdr = b"CDF\x01" + struct.pack(">I", 0) + struct.pack(">II", 10, 1) + name("d" * 1500) + struct.pack(">I", 3) + struct.pack(">II", 0, 0)
def var(begin):
    return name("v") + struct.pack(">I", 1) + struct.pack(">I", 0) + struct.pack(">II", 0, 0) + struct.pack(">III", 4, 12, begin)
begin = len(hdr + struct.pack(">II", 11, 1) + var(0))
open(os.path.join(out, "longdim.nc"), "wb").write(hdr + struct.pack(">II", 11, 1) + var(begin) + struct.pack(">iii", 1, 2, 3))
