/* two files that differ in one element of an NC_BYTE variable and in one NC_BYTE attribute value */
#include <stdio.h>
#include <stdlib.h>
#include <mpi.h>
#include <pnetcdf.h>
#define CK(e) do { int _e = (e); if (_e != NC_NOERR) { printf("line %d: %s\n", __LINE__, ncmpi_strerror(_e)); exit(2); } } while (0)
static void mk(const char *path, signed char v3, signed char a1)
{
    int ncid, dimid, varid;
    signed char buf[8] = {1, 2, 3, 4, 5, 6, 7, 8}, att[2] = {9, 0};
    buf[3] = v3; att[1] = a1;
    CK(ncmpi_create(MPI_COMM_WORLD, path, NC_CLOBBER, MPI_INFO_NULL, &ncid));
    CK(ncmpi_def_dim(ncid, "x", 8, &dimid));
    CK(ncmpi_def_var(ncid, "b", NC_BYTE, 1, &dimid, &varid));
    CK(ncmpi_put_att_schar(ncid, varid, "a", NC_BYTE, 2, att));
    CK(ncmpi_enddef(ncid));
    CK(ncmpi_put_var_schar_all(ncid, varid, buf));
    CK(ncmpi_close(ncid));
}
int main(int argc, char **argv)
{
    MPI_Init(&argc, &argv);
    mk(argv[1], 4, 10);
    mk(argv[2], 44, 11);
    MPI_Finalize();
    return 0;
}
