#!/bin/sh
# ncmpidiff on two files differing in one NC_BYTE element and one NC_BYTE attribute value must report a difference
R=${1:-/repo}; H=$(cd "$(dirname "$0")" && pwd); T=/tmp/c20.$$
mpicc -I$R/src/include $H/byte_diff.c $R/src/libs/.libs/libpnetcdf.a -lm -o $T || exit 2
mpiexec --allow-run-as-root -n 1 $T $T.a.nc $T.b.nc || exit 2
mpiexec --allow-run-as-root -n 1 $R/src/utils/ncmpidiff/ncmpidiff $T.a.nc $T.b.nc; d1=$?
$R/src/utils/ncmpidiff/cdfdiff $T.a.nc $T.b.nc; d2=$?
rm -f $T $T.a.nc $T.b.nc
echo "ncmpidiff exit=$d1 cdfdiff exit=$d2 (both must be non-zero: the files differ)"
[ $d1 -ne 0 ] && [ $d2 -ne 0 ]
