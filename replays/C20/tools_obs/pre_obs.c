/*
 * Reproducers for pre-existing observations (unmodified library) on property C20.
 * usage: pre_obs <workdir>        (run with 1 process)
 * Creates in <workdir>:
 *   nan_a.nc  nan_b.nc    identical files; float variable holds a NaN
 *   att_a.nc  att_b.nc    global text attribute of ATTLEN (1200) chars, differing in the last char
 *   rec_a.nc  rec_b.nc    record variable r(time,2): 2 records vs 3 records (first 2 equal)
 *   rich.nc               CDF-5 file for a dump -> gen round trip
 * pre_obs.sh then runs the tools on them.
 */
#include <stdio.h>
#include <stdlib.h>
#include <string.h>
#include <math.h>
#include <mpi.h>
#include <pnetcdf.h>

#ifndef ATTLEN
#define ATTLEN 1200
#endif

#define CHK(e) do { if ((e) != NC_NOERR) { \
    fprintf(stderr, "line %d: %s\n", __LINE__, ncmpi_strerror(e)); \
    MPI_Abort(MPI_COMM_WORLD, 2); } } while (0)

static void mk_nan(const char *path)
{
    int err, ncid, dimid, varid;
    float v[4] = { 1.0f, 0.0f, 3.0f, 4.0f };
    v[1] = nanf("");
    err = ncmpi_create(MPI_COMM_WORLD, path, NC_CLOBBER, MPI_INFO_NULL, &ncid); CHK(err);
    err = ncmpi_def_dim(ncid, "x", 4, &dimid); CHK(err);
    err = ncmpi_def_var(ncid, "v", NC_FLOAT, 1, &dimid, &varid); CHK(err);
    err = ncmpi_enddef(ncid); CHK(err);
    err = ncmpi_put_var_float_all(ncid, varid, v); CHK(err);
    err = ncmpi_close(ncid); CHK(err);
}

static void mk_att(const char *path, char last)
{
    int err, ncid;
    char txt[ATTLEN+1];
    memset(txt, 'a', ATTLEN); txt[ATTLEN-1] = last; txt[ATTLEN] = 0;
    err = ncmpi_create(MPI_COMM_WORLD, path, NC_CLOBBER, MPI_INFO_NULL, &ncid); CHK(err);
    err = ncmpi_put_att_text(ncid, NC_GLOBAL, "history", ATTLEN, txt); CHK(err);
    err = ncmpi_close(ncid); CHK(err);
}

static void mk_rec(const char *path, int nrec)
{
    int err, ncid, dimids[2], varid, r, buf[2];
    MPI_Offset start[2], count[2];
    err = ncmpi_create(MPI_COMM_WORLD, path, NC_CLOBBER, MPI_INFO_NULL, &ncid); CHK(err);
    err = ncmpi_def_dim(ncid, "time", NC_UNLIMITED, &dimids[0]); CHK(err);
    err = ncmpi_def_dim(ncid, "x", 2, &dimids[1]); CHK(err);
    err = ncmpi_def_var(ncid, "r", NC_INT, 2, dimids, &varid); CHK(err);
    err = ncmpi_enddef(ncid); CHK(err);
    for (r = 0; r < nrec; r++) {
        buf[0] = 10 * r; buf[1] = 10 * r + 1;
        start[0] = r; start[1] = 0; count[0] = 1; count[1] = 2;
        err = ncmpi_put_vara_int_all(ncid, varid, start, count, buf); CHK(err);
    }
    err = ncmpi_close(ncid); CHK(err);
}

static void mk_rich(const char *path)
{
    int err, ncid, dimids[2], v_ub, v_ll, v_ull, v_c, v_d, v_f;
    unsigned char ub[3] = { 0, 200, 255 };
    long long ll[3] = { -9223372036854775807LL - 1, 0, 9223372036854775807LL };
    unsigned long long ull[3] = { 0, 1, 18446744073709551615ULL };
    double d[3] = { 1.0 / 3.0, -1e-300, 1.7976931348623157e308 };
    float f[3] = { 0.1f, 16777217.0f, 3.4028235e38f };
    const char txt[6] = { 'a', '"', '\\', '\n', 'z', '\t' };
    unsigned long long au = 18446744073709551615ULL;
    long long al = -9223372036854775807LL - 1;
    err = ncmpi_create(MPI_COMM_WORLD, path, NC_CLOBBER | NC_64BIT_DATA, MPI_INFO_NULL, &ncid); CHK(err);
    err = ncmpi_def_dim(ncid, "n", 3, &dimids[0]); CHK(err);
    err = ncmpi_def_dim(ncid, "m", 6, &dimids[1]); CHK(err);
    err = ncmpi_def_var(ncid, "ub", NC_UBYTE, 1, dimids, &v_ub); CHK(err);
    err = ncmpi_def_var(ncid, "ll", NC_INT64, 1, dimids, &v_ll); CHK(err);
    err = ncmpi_def_var(ncid, "ull", NC_UINT64, 1, dimids, &v_ull); CHK(err);
    err = ncmpi_def_var(ncid, "c", NC_CHAR, 1, &dimids[1], &v_c); CHK(err);
    err = ncmpi_def_var(ncid, "d", NC_DOUBLE, 1, dimids, &v_d); CHK(err);
    err = ncmpi_def_var(ncid, "f", NC_FLOAT, 1, dimids, &v_f); CHK(err);
    err = ncmpi_put_att_text(ncid, NC_GLOBAL, "t", 6, txt); CHK(err);
    err = ncmpi_put_att_ulonglong(ncid, v_ull, "amax", NC_UINT64, 1, &au); CHK(err);
    err = ncmpi_put_att_longlong(ncid, v_ll, "amin", NC_INT64, 1, &al); CHK(err);
    err = ncmpi_put_att_double(ncid, v_d, "third", NC_DOUBLE, 1, d); CHK(err);
    err = ncmpi_put_att_float(ncid, v_f, "big", NC_FLOAT, 1, &f[1]); CHK(err);
    err = ncmpi_enddef(ncid); CHK(err);
    err = ncmpi_put_var_uchar_all(ncid, v_ub, ub); CHK(err);
    err = ncmpi_put_var_longlong_all(ncid, v_ll, ll); CHK(err);
    err = ncmpi_put_var_ulonglong_all(ncid, v_ull, ull); CHK(err);
    err = ncmpi_put_var_text_all(ncid, v_c, txt); CHK(err);
    err = ncmpi_put_var_double_all(ncid, v_d, d); CHK(err);
    err = ncmpi_put_var_float_all(ncid, v_f, f); CHK(err);
    err = ncmpi_close(ncid); CHK(err);
}

int main(int argc, char **argv)
{
    char p[1024];
    MPI_Init(&argc, &argv);
    if (argc != 2) { fprintf(stderr, "usage: %s <workdir>\n", argv[0]); MPI_Finalize(); return 2; }
    snprintf(p, sizeof(p), "%s/nan_a.nc", argv[1]); mk_nan(p);
    snprintf(p, sizeof(p), "%s/nan_b.nc", argv[1]); mk_nan(p);
    snprintf(p, sizeof(p), "%s/att_a.nc", argv[1]); mk_att(p, 'x');
    snprintf(p, sizeof(p), "%s/att_b.nc", argv[1]); mk_att(p, 'y');
    snprintf(p, sizeof(p), "%s/rec_a.nc", argv[1]); mk_rec(p, 2);
    snprintf(p, sizeof(p), "%s/rec_b.nc", argv[1]); mk_rec(p, 3);
    snprintf(p, sizeof(p), "%s/rich.nc",  argv[1]); mk_rich(p);
    MPI_Finalize();
    return 0;
}
