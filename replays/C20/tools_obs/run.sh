#!/bin/bash
# usage: run.sh [built pnetcdf tree]
# C20 "the diff tools report no difference exactly when two files have the same logical content".  pre_obs.c (written by the
# sub-agent that produced seeded change C20_i) writes the file pairs:
#   nan_a/nan_b   byte-identical files holding a NaN          -> both tools must say "same"          (ncmpidiff said DIFF)
#   att_a/att_b   1200-character global text attribute, last character differs -> both must report it (ncmpidiff: SIGSEGV)
#   rec_a/rec_b   2 records vs 3 records, first two equal     -> cdfdiff -v r must report it in both argument orders
# exit 0: all as required; 1: otherwise
W="$(cd "${1:-/repo}" && pwd)"; HERE="$(cd "$(dirname "$0")" && pwd)"
TMP="$(mktemp -d /tmp/c20obs.XXXXXX)" || exit 2
trap 'rm -rf "$TMP"' EXIT
U=$W/src/utils/ncmpidiff; MPI="mpiexec --allow-run-as-root --oversubscribe -n 1"
mpicc -O0 -g -I"$W/src/include" -o "$TMP/pre_obs" "$HERE/pre_obs.c" "$W/src/libs/.libs/libpnetcdf.a" -lm || exit 2
$MPI "$TMP/pre_obs" "$TMP" >/dev/null 2>&1 || exit 2
cd "$TMP"; rc=0
t() { want=$1; shift; "$@" >out.txt 2>&1; got=$?; [ $got -eq $want ] && r=ok || { r="WRONG (exit $got, want $want)"; rc=1; }; echo "$r: ${*##*/}" | sed "s#$MPI ##"; }
t 0 timeout 60 $MPI $U/ncmpidiff nan_a.nc nan_b.nc
t 0 timeout 60 $U/cdfdiff nan_a.nc nan_b.nc
t 1 timeout 60 $MPI $U/ncmpidiff att_a.nc att_b.nc
t 1 timeout 60 $U/cdfdiff att_a.nc att_b.nc
t 1 timeout 60 $U/cdfdiff -v r rec_a.nc rec_b.nc
t 1 timeout 60 $U/cdfdiff -v r rec_b.nc rec_a.nc
t 1 timeout 60 $MPI $U/ncmpidiff -v r rec_a.nc rec_b.nc
exit $rc
