#!/bin/bash
# usage: run.sh [built pnetcdf tree]
# C20: "the serial and parallel diff tools report no difference exactly when two files have the same ... logical content".
# make_pairs.c (written by the sub-agent that produced seeded change C20_f) writes pairs of files that differ in one
# logical respect; here: the number of records (a: 2, b: 4, common records equal) and an attribute present in one file
# only.  cdfdiff must report a difference (exit 1) for each pair, in both argument orders; before the fixes it said
# "same" (exit 0) for (recs_a, recs_b) and died with SIGFPE (exit 136) on the attribute pairs.
TREE=$(cd "${1:-/repo}" && pwd) || exit 2
HERE=$(cd "$(dirname "$0")" && pwd)
WORK=$(mktemp -d /tmp/c20cdf.XXXXXX) || exit 2
trap 'rm -rf "$WORK"' EXIT
mpicc -O0 -g -I"$TREE/src/include" -o "$WORK/mk" "$HERE/make_pairs.c" "$TREE/src/libs/.libs/libpnetcdf.a" -lm || exit 2
timeout 120 mpiexec --allow-run-as-root --oversubscribe -n 1 "$WORK/mk" "$WORK" >/dev/null || exit 2
bad=0
for pair in "recs_a recs_b" "recs_b recs_a" "gatt_a gatt_b" "gatt_b gatt_a" "vatt_a vatt_b" "vatt_b vatt_a"; do
  set -- $pair
  ( cd "$WORK" && timeout 60 "$TREE/src/utils/ncmpidiff/cdfdiff" -q $1.nc $2.nc >/dev/null 2>&1 ); rc=$?
  echo "cdfdiff $1.nc $2.nc -> exit $rc"
  [ $rc -eq 1 ] || bad=$((bad+1))
done
if [ $bad -gt 0 ]; then echo "C20 VIOLATED: $bad of 6 differing pairs not reported as different"; exit 1; fi
echo "C20 holds (all 6 differing pairs reported)"; exit 0
