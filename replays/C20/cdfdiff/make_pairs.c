/*
 * Pre-existing observations on the UNMODIFIED cdfdiff / ncmpidiff (property C20).
 * Writes small file pairs into <workdir>; pre_cdfdiff.sh runs the tools on them.
 *
 *  recs_a.nc / recs_b.nc   same header, b has 4 records, a only the first 2
 *  gatt_a.nc / gatt_b.nc   a has one global attribute, b has none
 *  vatt_a.nc / vatt_b.nc   variable v has one attribute in a, none in b
 *  dim_a.nc  / dim_b.nc    a has an extra (unused) dimension "only_in_a"
 *  uint_a.nc / uint_b.nc   NC_UINT variable (CDF-5), values 5 vs 6
 *  big_a.nc  / big_b.nc    1-D int variable of 1.5M elements, element 1200000 differs
 */
#include <stdio.h>
#include <stdlib.h>
#include <string.h>
#include <mpi.h>
#include <pnetcdf.h>

#define CHK(e) do { int _e = (e); if (_e != NC_NOERR) { \
    fprintf(stderr, "line %d: %s\n", __LINE__, ncmpi_strerror(_e)); \
    MPI_Abort(MPI_COMM_WORLD, 2); } } while (0)

static char path[2048];
static const char *P(const char *dir, const char *name)
{
    snprintf(path, sizeof(path), "%s/%s", dir, name);
    return path;
}

static void recs(const char *p, int nrecs)
{
    int ncid, dt, dx, v, dimids[2], r, i, buf[3];
    MPI_Offset start[2], count[2];
    CHK(ncmpi_create(MPI_COMM_SELF, p, NC_CLOBBER, MPI_INFO_NULL, &ncid));
    CHK(ncmpi_def_dim(ncid, "time", NC_UNLIMITED, &dt));
    CHK(ncmpi_def_dim(ncid, "x", 3, &dx));
    dimids[0] = dt; dimids[1] = dx;
    CHK(ncmpi_def_var(ncid, "v", NC_INT, 2, dimids, &v));
    CHK(ncmpi_enddef(ncid));
    for (r = 0; r < nrecs; r++) {
        for (i = 0; i < 3; i++) buf[i] = 10 * r + i;
        start[0] = r; start[1] = 0; count[0] = 1; count[1] = 3;
        CHK(ncmpi_put_vara_int_all(ncid, v, start, count, buf));
    }
    CHK(ncmpi_close(ncid));
}

static void atts(const char *p, int gatt, int vatt, int extradim)
{
    int ncid, dx, d2, v, buf[3] = {1, 2, 3};
    CHK(ncmpi_create(MPI_COMM_SELF, p, NC_CLOBBER, MPI_INFO_NULL, &ncid));
    CHK(ncmpi_def_dim(ncid, "x", 3, &dx));
    if (extradim) CHK(ncmpi_def_dim(ncid, "only_in_a", 2, &d2));
    CHK(ncmpi_def_var(ncid, "v", NC_INT, 1, &dx, &v));
    if (gatt) CHK(ncmpi_put_att_text(ncid, NC_GLOBAL, "title", 3, "abc"));
    if (vatt) CHK(ncmpi_put_att_text(ncid, v, "units", 1, "m"));
    CHK(ncmpi_enddef(ncid));
    CHK(ncmpi_put_var_int_all(ncid, v, buf));
    CHK(ncmpi_close(ncid));
}

static void uintf(const char *p, unsigned int val)
{
    int ncid, dx, v;
    unsigned int buf[2];
    buf[0] = buf[1] = val;
    CHK(ncmpi_create(MPI_COMM_SELF, p, NC_CLOBBER | NC_64BIT_DATA, MPI_INFO_NULL, &ncid));
    CHK(ncmpi_def_dim(ncid, "x", 2, &dx));
    CHK(ncmpi_def_var(ncid, "v", NC_UINT, 1, &dx, &v));
    CHK(ncmpi_enddef(ncid));
    CHK(ncmpi_put_var_uint_all(ncid, v, buf));
    CHK(ncmpi_close(ncid));
}

static void big(const char *p, int edit)
{
    int ncid, dx, v, i, n = 1500000, *buf;
    buf = (int*) malloc(n * sizeof(int));
    for (i = 0; i < n; i++) buf[i] = i;
    if (edit) buf[1200000] = -1;
    CHK(ncmpi_create(MPI_COMM_SELF, p, NC_CLOBBER, MPI_INFO_NULL, &ncid));
    CHK(ncmpi_def_dim(ncid, "x", n, &dx));
    CHK(ncmpi_def_var(ncid, "v", NC_INT, 1, &dx, &v));
    CHK(ncmpi_enddef(ncid));
    CHK(ncmpi_put_var_int_all(ncid, v, buf));
    CHK(ncmpi_close(ncid));
    free(buf);
}

int main(int argc, char **argv)
{
    const char *d;
    MPI_Init(&argc, &argv);
    if (argc != 2) { fprintf(stderr, "usage: %s <workdir>\n", argv[0]); MPI_Finalize(); return 2; }
    d = argv[1];
    recs(P(d, "recs_a.nc"), 2);      recs(P(d, "recs_b.nc"), 4);
    atts(P(d, "gatt_a.nc"), 1, 1, 0); atts(P(d, "gatt_b.nc"), 0, 1, 0);
    atts(P(d, "vatt_a.nc"), 1, 1, 0); atts(P(d, "vatt_b.nc"), 1, 0, 0);
    atts(P(d, "dim_a.nc"),  1, 1, 1); atts(P(d, "dim_b.nc"),  1, 1, 0);
    uintf(P(d, "uint_a.nc"), 5);     uintf(P(d, "uint_b.nc"), 6);
    big(P(d, "big_a.nc"), 0);        big(P(d, "big_b.nc"), 1);
    MPI_Finalize();
    return 0;
}
