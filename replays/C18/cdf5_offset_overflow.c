/* Pre-existing observation (unmodified library): CDF-5 variable begin offsets are
 * not checked against the 63-bit limit.  Three fixed-size variables of 2^62 bytes
 * each are individually legal (< 2^63-4), but the third begins at 2^63+..., which
 * does not fit a signed 64-bit file offset.  ncmpi_enddef() is expected to refuse
 * (NC_EVARSIZE); exit 0 if it refuses, 1 if it accepts. */
#include <stdio.h>
#include <mpi.h>
#include <pnetcdf.h>
int main(int argc, char **argv) {
    int ncid, dimid, v[3], err, i, old; char name[8]; MPI_Offset off;
    MPI_Init(&argc, &argv);
    err = ncmpi_create(MPI_COMM_WORLD, argc > 1 ? argv[1] : "pre1.nc", NC_CLOBBER|NC_64BIT_DATA, MPI_INFO_NULL, &ncid);
    if (err) { printf("create: %s\n", ncmpi_strerror(err)); MPI_Finalize(); return 2; }
    ncmpi_set_fill(ncid, NC_NOFILL, &old);
    err = ncmpi_def_dim(ncid, "x", (MPI_Offset)1 << 60, &dimid); printf("def_dim 2^60: %s\n", ncmpi_strerror(err));
    for (i = 0; i < 3; i++) {
        sprintf(name, "v%d", i);
        err = ncmpi_def_var(ncid, name, NC_INT, 1, &dimid, &v[i]);
        printf("def_var %s (2^62 bytes): %s\n", name, ncmpi_strerror(err));
    }
    err = ncmpi_enddef(ncid);
    printf("enddef: %d (%s)\n", err, ncmpi_strerror(err));
    if (err == NC_NOERR) {
        for (i = 0; i < 3; i++) { ncmpi_inq_varoffset(ncid, v[i], &off); printf("  v%d begins at %lld\n", i, (long long)off); }
        err = ncmpi_close(ncid); printf("close: %s\n", ncmpi_strerror(err));
        err = ncmpi_open(MPI_COMM_WORLD, argc > 1 ? argv[1] : "pre1.nc", NC_NOWRITE, MPI_INFO_NULL, &ncid);
        printf("reopen: %d (%s)\n", err, ncmpi_strerror(err));
        if (err == NC_NOERR) ncmpi_close(ncid);
        MPI_Finalize(); return 1;
    }
    ncmpi_abort(ncid);
    MPI_Finalize(); return 0;
}
