#!/bin/bash
# usage: run_offset.sh [built pnetcdf tree]
# C18: "Leaving define mode succeeds exactly when the definitions satisfy the size rules of the chosen format (... CDF-5:
# 63-bit sizes) and otherwise fails with the variable-size ... error".  Three CDF-5 variables of 2^62 bytes each are legal
# one by one, but the third would begin beyond 2^63: before the fix NC_begins let the sum wrap, enddef returned NC_NOERR
# with a negative begin, and the file could not be opened again.  (written by the sub-agent that produced seed C18_f)
W="${1:-/repo}"; HERE="$(cd "$(dirname "$0")" && pwd)"
TMP="$(mktemp -d /tmp/c18off.XXXXXX)" || exit 2
trap 'rm -rf "$TMP"' EXIT
mpicc -g -O0 -I"$W/src/include" -o "$TMP/t" "$HERE/cdf5_offset_overflow.c" "$W/src/libs/.libs/libpnetcdf.a" -lm || exit 2
timeout 120 mpiexec --allow-run-as-root --oversubscribe -n 1 "$TMP/t" "$TMP/x.nc" | grep -v "^def_"
exit ${PIPESTATUS[0]}
