#!/bin/bash
# usage: run_stride.sh [built pnetcdf tree]   exit 0: every out-of-range strided request is rejected with NC_EEDGE
# C15: "a request whose start, count, stride ... does not fit the variable's current shape is rejected with the documented
# error".  check_EEDGE computed start + (count-1)*stride in signed 64-bit arithmetic: with a stride of 2^62 or 2^63-1 the
# product wraps, the bound test passes and the request reaches MPI, which refuses the datatype (NC_EFILE).
# (stride_overflow.c written by the sub-agent that produced seeded change C15_g)
W="${1:-/repo}"; HERE="$(cd "$(dirname "$0")" && pwd)"
TMP="$(mktemp -d /tmp/c15st.XXXXXX)" || exit 2
trap 'rm -rf "$TMP"' EXIT
mpicc -g -O0 -I"$W/src/include" -o "$TMP/t" "$HERE/stride_overflow.c" "$W/src/libs/.libs/libpnetcdf.a" -lm || exit 2
timeout 120 mpiexec --allow-run-as-root --oversubscribe -n 1 "$TMP/t" "$TMP/x.nc" 2>&1 | grep "expected\|variable now"
exit ${PIPESTATUS[0]}
