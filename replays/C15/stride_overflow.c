/* Pre-existing observation (unmodified library): check_EEDGE() in
 * src/dispatchers/var_getput.m4 computes start + (count-1)*stride in signed
 * 64-bit arithmetic; a huge stride overflows, the sum wraps negative and the
 * NC_EEDGE test passes.  Expected: NC_EEDGE.  Run with 1 process. */
#include <stdio.h>
#include <stdlib.h>
#include <limits.h>
#include <sys/stat.h>
#include <mpi.h>
#include <pnetcdf.h>
#define CHK(e) do { int e_=(e); if (e_!=NC_NOERR) { printf("line %d: %s\n", __LINE__, ncmpi_strerror(e_)); MPI_Abort(MPI_COMM_WORLD,3);} } while(0)
int main(int argc, char **argv) {
    const char *path = argc > 1 ? argv[1] : "pre1.nc";
    int ncid, dimid, varid, gid, err, buf[10], i, bad = 0;
    MPI_Offset start[1] = {1}, count[1] = {2}, stride[1];
    struct stat sb0, sb1;
    MPI_Init(&argc, &argv);
    CHK(ncmpi_create(MPI_COMM_WORLD, path, NC_CLOBBER|NC_64BIT_DATA, MPI_INFO_NULL, &ncid));
    CHK(ncmpi_def_dim(ncid, "x", 10, &dimid));
    CHK(ncmpi_def_var(ncid, "v", NC_INT, 1, &dimid, &varid));
    CHK(ncmpi_def_var(ncid, "g", NC_INT, 1, &dimid, &gid));
    CHK(ncmpi_enddef(ncid));
    for (i = 0; i < 10; i++) buf[i] = -1 - i;
    CHK(ncmpi_put_var_int_all(ncid, varid, buf));
    CHK(ncmpi_put_var_int_all(ncid, gid, buf));
    CHK(ncmpi_sync(ncid));
    stat(path, &sb0);
    for (i = 0; i < 10; i++) buf[i] = 7000 + i;

    stride[0] = LLONG_MAX;           /* 1 + 1*(2^63-1) overflows */
    err = ncmpi_put_vars_int_all(ncid, varid, start, count, stride, buf);
    printf("put_vars start=1 count=2 stride=2^63-1 on a dimension of 10: %s (expected NC_EEDGE)\n",
           err == NC_NOERR ? "NC_NOERR" : ncmpi_strerror(err));
    if (err != NC_EEDGE) bad = 1;

    stride[0] = LLONG_MAX / 2 + 1;   /* 2^62 ; count 3: 1 + 2*2^62 overflows */
    count[0] = 3;
    err = ncmpi_put_vars_int_all(ncid, varid, start, count, stride, buf);
    printf("put_vars start=1 count=3 stride=2^62 on a dimension of 10: %s (expected NC_EEDGE)\n",
           err == NC_NOERR ? "NC_NOERR" : ncmpi_strerror(err));
    if (err != NC_EEDGE) bad = 1;

    err = ncmpi_get_vars_int_all(ncid, varid, start, count, stride, buf);
    printf("get_vars same arguments: %s (expected NC_EEDGE)\n",
           err == NC_NOERR ? "NC_NOERR" : ncmpi_strerror(err));
    if (err != NC_EEDGE) bad = 1;

    count[0] = 5;                    /* 1 + 4*2^62 wraps to exactly 1 */
    err = ncmpi_put_vars_int_all(ncid, varid, start, count, stride, buf);
    printf("put_vars start=1 count=5 stride=2^62 on a dimension of 10: %s (expected NC_EEDGE)\n",
           err == NC_NOERR ? "NC_NOERR" : ncmpi_strerror(err));
    if (err != NC_EEDGE) bad = 1;
    {
        int rb[10];
        CHK(ncmpi_get_var_int_all(ncid, varid, rb));
        printf("variable now:");
        for (i = 0; i < 10; i++) printf(" %d", rb[i]);
        printf("\n");
    }

    CHK(ncmpi_sync(ncid));
    stat(path, &sb1);
    printf("file size before %lld after %lld\n", (long long)sb0.st_size, (long long)sb1.st_size);
    if (sb0.st_size != sb1.st_size) bad = 1;
    ncmpi_close(ncid);
    remove(path);
    MPI_Finalize();
    return bad;
}
