#!/bin/sh
R=${1:-/repo}; H=$(cd "$(dirname "$0")" && pwd)
mpicc -I$R/src/include $H/partial_wait.c $R/src/libs/.libs/libpnetcdf.a -lm -o /tmp/pw.$$ || exit 2
timeout 60 mpiexec --allow-run-as-root -n 1 /tmp/pw.$$ /tmp/pw.$$.nc; rc=$?; rm -f /tmp/pw.$$ /tmp/pw.$$.nc; echo "exit $rc (0 = record count grown)"; exit $rc
