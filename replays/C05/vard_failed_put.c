/* Pre-existing observation (unmodified library): ncmpi_put_vard_all() on a
 * record variable raises the record count even though the call wrote nothing.
 *
 *  case A: filetype element type (MPI_FLOAT) differs from the variable's
 *          external type (NC_INT): the call returns NC_ETYPE_MISMATCH and
 *          performs a zero-length write, yet numrecs becomes 6.
 *  case B: bufcount == 0 with a non-null buftype: a documented zero-length
 *          request, returns NC_NOERR, writes nothing, yet numrecs becomes 11.
 *
 * (ncmpi_put_vara_*_all guards the same computation with
 *  "nelems > 0 && (status == NC_NOERR || status == NC_ERANGE)".)
 *
 * All ranks do the same thing, so the outcome does not depend on nprocs.
 * exit 0 if the record count stays 0 in both cases, 1 otherwise.
 */
#include <stdio.h>
#include <stdlib.h>
#include <mpi.h>
#include <pnetcdf.h>

#define NX 4
#define CHK(e) do { if ((e) != NC_NOERR) { \
    fprintf(stderr, "line %d: %s\n", __LINE__, ncmpi_strerror(e)); \
    MPI_Abort(MPI_COMM_WORLD, 3); } } while (0)

int main(int argc, char **argv)
{
    int rank, err, bad = 0, ncid, dimid[2], varid, blocklen = NX;
    float fbuf[NX] = {1, 2, 3, 4};
    int ibuf[NX] = {1, 2, 3, 4};
    MPI_Aint disp;
    MPI_Offset recsize, len;
    MPI_Datatype ftype;
    const char *path = (argc > 1) ? argv[1] : "pre1.nc";

    MPI_Init(&argc, &argv);
    MPI_Comm_rank(MPI_COMM_WORLD, &rank);

    err = ncmpi_create(MPI_COMM_WORLD, path, NC_CLOBBER, MPI_INFO_NULL, &ncid); CHK(err);
    err = ncmpi_def_dim(ncid, "time", NC_UNLIMITED, &dimid[0]); CHK(err);
    err = ncmpi_def_dim(ncid, "x", NX, &dimid[1]); CHK(err);
    err = ncmpi_def_var(ncid, "v", NC_INT, 2, dimid, &varid); CHK(err);
    err = ncmpi_enddef(ncid); CHK(err);
    err = ncmpi_inq_recsize(ncid, &recsize); CHK(err);

    /* case A: record 5, element type mismatch */
    disp = (MPI_Aint)(5 * recsize);
    MPI_Type_create_hindexed(1, &blocklen, &disp, MPI_FLOAT, &ftype);
    MPI_Type_commit(&ftype);
    err = ncmpi_put_vard_all(ncid, varid, ftype, fbuf, NX, MPI_FLOAT);
    MPI_Type_free(&ftype);
    ncmpi_inq_dimlen(ncid, dimid[0], &len);
    if (rank == 0)
        printf("case A: put_vard_all returned \"%s\", record count now %lld (expected 0)\n",
               ncmpi_strerror(err), (long long)len);
    if (len != 0) bad++;

    /* case B: record 10, bufcount == 0 */
    disp = (MPI_Aint)(10 * recsize);
    MPI_Type_create_hindexed(1, &blocklen, &disp, MPI_INT, &ftype);
    MPI_Type_commit(&ftype);
    err = ncmpi_put_vard_all(ncid, varid, ftype, ibuf, 0, MPI_INT);
    MPI_Type_free(&ftype);
    ncmpi_inq_dimlen(ncid, dimid[0], &len);
    if (rank == 0)
        printf("case B: put_vard_all(bufcount=0) returned \"%s\", record count now %lld (expected %s)\n",
               ncmpi_strerror(err), (long long)len, bad ? "unchanged" : "0");
    if (len > 6 || (!bad && len != 0)) bad++;

    err = ncmpi_close(ncid); CHK(err);
    if (rank == 0) printf("%s\n", bad ? "record count grew without any write" : "ok");
    MPI_Finalize();
    return bad ? 1 : 0;
}
