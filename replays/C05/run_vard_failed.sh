#!/bin/bash
# usage: run_vard_failed.sh [built pnetcdf tree]   exit 0: a put_vard_all that writes nothing leaves the record count alone
# C05: "the record count ... equals one plus the highest record index written so far by any process".  getput_vard
# derived the new record count from the filetype's upper bound also when the request had been turned into a zero-length
# one (NC_ETYPE_MISMATCH, bufcount == 0): the count grew although nothing was written.
# (vard_failed_put.c: reproducer of the sub-agent that produced seeded change C05_g)
W="${1:-/repo}"; HERE="$(cd "$(dirname "$0")" && pwd)"
TMP="$(mktemp -d /tmp/c05v.XXXXXX)" || exit 2
trap 'rm -rf "$TMP"' EXIT
mpicc -g -O0 -I"$W/src/include" -o "$TMP/t" "$HERE/vard_failed_put.c" "$W/src/libs/.libs/libpnetcdf.a" -lm || exit 2
timeout 120 mpiexec --allow-run-as-root --oversubscribe -n 2 "$TMP/t" "$TMP/x.nc" | grep "case\|record count\|^ok"
exit ${PIPESTATUS[0]}
