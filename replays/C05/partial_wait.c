/* F-C05-1: waiting only on a later-queued record put must grow the record count. */
#include <stdio.h>
#include <mpi.h>
#include <pnetcdf.h>
int main(int argc,char**argv){ int ncid,dt,dx,vf,vr,req[2],st,err,bad=0; MPI_Offset s[2],c[2],len; int buf[4]={1,2,3,4},rb[4];
 MPI_Init(&argc,&argv);
 ncmpi_create(MPI_COMM_WORLD,argv[1],NC_CLOBBER,MPI_INFO_NULL,&ncid);
 ncmpi_def_dim(ncid,"t",NC_UNLIMITED,&dt); ncmpi_def_dim(ncid,"x",4,&dx);
 ncmpi_def_var(ncid,"fix",NC_INT,1,&dx,&vf); int d2[2]={dt,dx}; ncmpi_def_var(ncid,"rec",NC_INT,2,d2,&vr); ncmpi_enddef(ncid);
 s[0]=0;c[0]=4; ncmpi_iput_vara_int(ncid,vf,s,c,buf,&req[0]);            /* queued first: fixed-size variable */
 s[0]=2;s[1]=0;c[0]=1;c[1]=4; ncmpi_iput_vara_int(ncid,vr,s,c,buf,&req[1]); /* queued second: record 2 */
 err=ncmpi_wait_all(ncid,1,&req[1],&st); printf("wait_all(second id only): %s status %s\n",ncmpi_strerrno(err),ncmpi_strerrno(st));
 ncmpi_inq_dimlen(ncid,dt,&len); printf("record count after the wait: %lld (expected 3)\n",(long long)len); if(len!=3) bad=1;
 err=ncmpi_get_vara_int_all(ncid,vr,s,c,rb); printf("read back record 2: %s\n",ncmpi_strerrno(err)); if(err!=NC_NOERR) bad=1;
 ncmpi_wait_all(ncid,1,&req[0],&st); ncmpi_close(ncid); MPI_Finalize(); return bad; }
