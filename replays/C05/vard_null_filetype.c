/* ncmpi_put_vard_all on a record variable with filetype MPI_DATATYPE_NULL (documented as a zero-length request):
 * the record count must stay what it was */
#include <stdio.h>
#include <stdlib.h>
#include <string.h>
#include <mpi.h>
#include <pnetcdf.h>
#define CK(e) do { int _e = (e); if (_e != NC_NOERR) { printf("line %d: %s\n", __LINE__, ncmpi_strerror(_e)); exit(2); } } while (0)
static void churn(void) { volatile char junk[4096]; memset((void*)junk, 0x5a, sizeof junk); }
int main(int argc, char **argv)
{
    int ncid, dimid[2], varid, err, v[4] = {1, 2, 3, 4};
    MPI_Offset start[2] = {0, 0}, count[2] = {1, 4}, nrecs;
    MPI_Init(&argc, &argv);
    CK(ncmpi_create(MPI_COMM_WORLD, argv[1], NC_CLOBBER, MPI_INFO_NULL, &ncid));
    CK(ncmpi_def_dim(ncid, "t", NC_UNLIMITED, &dimid[0]));
    CK(ncmpi_def_dim(ncid, "x", 4, &dimid[1]));
    CK(ncmpi_def_var(ncid, "v", NC_INT, 2, dimid, &varid));
    CK(ncmpi_enddef(ncid));
    CK(ncmpi_put_vara_int_all(ncid, varid, start, count, v));
    churn();
    err = ncmpi_put_vard_all(ncid, varid, MPI_DATATYPE_NULL, NULL, 0, MPI_INT);
    printf("put_vard_all(MPI_DATATYPE_NULL): %s\n", ncmpi_strerror(err));
    CK(ncmpi_inq_dimlen(ncid, dimid[0], &nrecs));
    printf("number of records: %lld (1 expected)\n", (long long)nrecs);
    ncmpi_close(ncid);
    MPI_Finalize();
    return nrecs == 1 ? 0 : 1;
}
