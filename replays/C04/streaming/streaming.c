/* Pre-existing observation (unmodified library): numrecs = STREAMING.
 * The classic format grammar has  numrecs = NON_NEG | STREAMING  with
 * STREAMING = \xFF\xFF\xFF\xFF (CDF-1/2) or 8 x \xFF (CDF-5): "indeterminate
 * record count"; the number of records then follows from the file size.
 * usage: pre_streaming [dir]   exit 0: handled, 1: not handled */
#include <stdio.h>
#include <string.h>
#include <mpi.h>
#include <pnetcdf.h>

static size_t n;
static unsigned char b[512];
static void u32(unsigned v){ b[n++]=v>>24; b[n++]=v>>16; b[n++]=v>>8; b[n++]=v; }
static void nn(int ver, unsigned v){ if (ver==5) u32(0); u32(v); }
static void off(int ver, unsigned v){ if (ver!=1) u32(0); u32(v); }
static void name(int ver, const char *s){ size_t l=strlen(s), i; nn(ver,(unsigned)l);
    for (i=0;i<l;i++) b[n++]=s[i]; while (n%4) b[n++]=0; }

static int one(const char *dir, int ver)
{
    char path[1024]; int ncid, err, bad=0, i; size_t pb; MPI_Offset len; FILE *fp;
    n=0; memcpy(b,"CDF",3); b[3]=(unsigned char)ver; n=4;
    if (ver==5) u32(0xFFFFFFFFu); u32(0xFFFFFFFFu);         /* STREAMING */
    u32(10); nn(ver,1); name(ver,"t"); nn(ver,0);           /* dim t unlimited */
    u32(0); nn(ver,0);                                      /* no global atts */
    u32(11); nn(ver,1); name(ver,"r"); nn(ver,1); nn(ver,0);
    u32(0); nn(ver,0); u32(NC_INT); nn(ver,4); pb=n; off(ver,0);
    { size_t e=n; n=pb; off(ver,(unsigned)e); n=e; }
    for (i=0;i<3;i++) u32(100+i);                           /* three records */
    snprintf(path,sizeof(path),"%s/pre_streaming_%d.nc",dir,ver);
    fp=fopen(path,"wb"); fwrite(b,1,n,fp); fclose(fp);
    err=ncmpi_open(MPI_COMM_WORLD,path,NC_NOWRITE,MPI_INFO_NULL,&ncid);
    if (err!=NC_NOERR) { printf("CDF-%d: open fails: %s\n",ver,ncmpi_strerror(err)); remove(path); return 1; }
    ncmpi_inq_dimlen(ncid,0,&len);
    printf("CDF-%d: open ok, record dimension length reported %lld (file holds 3 records)\n",ver,(long long)len);
    if (len!=3) bad=1;
    ncmpi_close(ncid); remove(path);
    return bad;
}
int main(int argc,char**argv){ int bad=0; const char *dir=argc>1?argv[1]:".";
    MPI_Init(&argc,&argv); bad+=one(dir,1); bad+=one(dir,2); bad+=one(dir,5); MPI_Finalize(); return bad?1:0; }
