#!/bin/bash
# usage: run.sh [built pnetcdf tree]
# C04: the specification's  numrecs = NON_NEG | STREAMING  (all-ones word: "indeterminate record count", the number of records
# follows from the file size).  The library takes the word as a count: CDF-1/2 files with 3 records report 4294967295, CDF-5
# is refused with NC_ENOTNC.  Known finding F-C04-1 (streaming.c was written by the sub-agent that produced seeded change C04_i).
# exit 0: handled, 1: not handled
W="${1:-/repo}"; HERE="$(cd "$(dirname "$0")" && pwd)"
TMP="$(mktemp -d /tmp/c04st.XXXXXX)" || exit 2
trap 'rm -rf "$TMP"' EXIT
mpicc -g -O0 -I"$W/src/include" -o "$TMP/t" "$HERE/streaming.c" "$W/src/libs/.libs/libpnetcdf.a" -lm || exit 2
timeout 60 mpiexec --allow-run-as-root --oversubscribe -n 1 "$TMP/t" "$TMP" 2>&1 | grep "^CDF"
exit ${PIPESTATUS[0]}
