/* Pre-existing observation 1 (unmodified library):
 * independent ncmpi_put_varn_int() into an NC_SHORT variable with one
 * out-of-range element.  ncmpio_put_varn() (src/drivers/ncmpio/ncmpio_varn.m4)
 * returns right after ncmpio_iput_varn() when that reports NC_ERANGE in
 * independent mode, without calling ncmpio_wait(): the request stays queued,
 * nothing of the call reaches the file and ncmpi_close() reports NC_EPENDING.
 * The collective ncmpi_put_varn_int_all() is shown for comparison.
 * exit 0: in-range elements written in both modes, 1: not.
 */
#include <stdio.h>
#include <stdlib.h>
#include <mpi.h>
#include <pnetcdf.h>
#define N 6
#define CHK(e) do { if ((e) != NC_NOERR) printf("line %d: %s\n", __LINE__, ncmpi_strerror(e)); } while (0)

static int one(const char *path, int coll)
{
    int i, err, ncid, dimid, v, bad = 0, buf[N] = {1, 2, 70000, 4, 5, 6};
    short sfill = -999, got[N];
    MPI_Offset s0[1] = {0}, s1[1] = {3}, c0[1] = {3}, c1[1] = {3};
    MPI_Offset *starts[2] = {s0, s1}, *counts[2] = {c0, c1}, st = 0, ct = N;

    err = ncmpi_create(MPI_COMM_WORLD, path, NC_CLOBBER, MPI_INFO_NULL, &ncid); CHK(err);
    err = ncmpi_set_fill(ncid, NC_FILL, NULL); CHK(err);
    err = ncmpi_def_dim(ncid, "x", N, &dimid); CHK(err);
    err = ncmpi_def_var(ncid, "s", NC_SHORT, 1, &dimid, &v); CHK(err);
    err = ncmpi_put_att_short(ncid, v, "_FillValue", NC_SHORT, 1, &sfill); CHK(err);
    err = ncmpi_enddef(ncid); CHK(err);
    if (!coll) { err = ncmpi_begin_indep_data(ncid); CHK(err); }

    if (coll) err = ncmpi_put_varn_int_all(ncid, v, 2, starts, counts, buf);
    else      err = ncmpi_put_varn_int    (ncid, v, 2, starts, counts, buf);
    printf("%s put_varn_int returned %d (%s)\n", coll ? "collective " : "independent", err, ncmpi_strerror(err));
    if (err != NC_ERANGE) bad++;

    if (coll) err = ncmpi_get_vara_short_all(ncid, v, &st, &ct, got);
    else      err = ncmpi_get_vara_short    (ncid, v, &st, &ct, got);
    CHK(err);
    for (i = 0; i < N; i++) {
        short exp = (i == 2) ? sfill : (short)buf[i];
        printf("   s[%d] = %d (expected %d)%s\n", i, got[i], exp, got[i] == exp ? "" : "  <-- WRONG");
        if (got[i] != exp) bad++;
    }
    if (!coll) { err = ncmpi_end_indep_data(ncid); CHK(err); }
    err = ncmpi_close(ncid);
    printf("   close returned %d (%s)\n", err, ncmpi_strerror(err));
    if (err != NC_NOERR) bad++;
    return bad;
}

int main(int argc, char **argv)
{
    char path[1024];
    int bad;
    MPI_Init(&argc, &argv);
    snprintf(path, sizeof(path), "%s/pre1.nc", argc > 1 ? argv[1] : ".");
    bad  = one(path, 1);
    bad += one(path, 0);
    printf(bad ? "RESULT: violated\n" : "RESULT: ok\n");
    MPI_Finalize();
    return bad ? 1 : 0;
}
