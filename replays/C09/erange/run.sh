#!/bin/bash
# usage: run.sh [built pnetcdf tree]
# C09: "a value not representable makes the call return the range error, the affected element receives the variable's fill
# value ..., and all other elements of the same call are still transferred correctly."
#  varn_indep.c  independent ncmpi_put_varn_int into an NC_SHORT variable with one out-of-range element: before the fix
#                ncmpio_put_varn returned right after the post reported NC_ERANGE, without the wait - nothing written,
#                the request left pending (close: NC_EPENDING)
#  mput.c        ncmpi_mput_var* with a bad value in the 2nd of 3 variables: the posting loop stopped at NC_ERANGE, the
#                2nd request was never waited for and the 3rd never posted
# (both written by the sub-agent that produced seeded change C09_f)
W="${1:-/repo}"; HERE="$(cd "$(dirname "$0")" && pwd)"
TMP="$(mktemp -d /tmp/c09er.XXXXXX)" || exit 2
trap 'rm -rf "$TMP"' EXIT
rc=0
for n in varn_indep mput; do
  mpicc -g -O0 -I"$W/src/include" -o "$TMP/$n" "$HERE/$n.c" "$W/src/libs/.libs/libpnetcdf.a" -lm || exit 2
  timeout 120 mpiexec --allow-run-as-root --oversubscribe -n 1 "$TMP/$n" "$TMP" | grep "RESULT\|WRONG\|returned" 
  [ ${PIPESTATUS[0]} -eq 0 ] || rc=1
done
exit $rc
