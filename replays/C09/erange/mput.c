/* Pre-existing observation 2 (unmodified library):
 * ncmpi_mput_var_int_all() over three NC_SHORT variables; the buffer of the
 * SECOND variable holds one out-of-range element.  MVAR in
 * src/dispatchers/var_getput.m4 leaves its posting loop at the first iput
 * that returns an error (NC_ERANGE included) and then waits for reqs[0..i-1]
 * only: the request of variable i (already queued) is never waited for and
 * the variables after it are never posted.
 * exit 0: all in-range elements of the call are in the file, 1: not.
 */
#include <stdio.h>
#include <stdlib.h>
#include <mpi.h>
#include <pnetcdf.h>
#define N 4
#define CHK(e) do { if ((e) != NC_NOERR) printf("line %d: %s\n", __LINE__, ncmpi_strerror(e)); } while (0)

int main(int argc, char **argv)
{
    char path[1024];
    int i, k, err, ncid, dimid, v[3], bad = 0;
    int b0[N] = {1, 2, 3, 4}, b1[N] = {11, 70000, 13, 14}, b2[N] = {21, 22, 23, 24};
    int *bufs[3] = {b0, b1, b2};
    short sfill = -999, got[N];

    MPI_Init(&argc, &argv);
    snprintf(path, sizeof(path), "%s/pre2.nc", argc > 1 ? argv[1] : ".");
    err = ncmpi_create(MPI_COMM_WORLD, path, NC_CLOBBER, MPI_INFO_NULL, &ncid); CHK(err);
    err = ncmpi_set_fill(ncid, NC_FILL, NULL); CHK(err);
    err = ncmpi_def_dim(ncid, "x", N, &dimid); CHK(err);
    for (k = 0; k < 3; k++) {
        char name[8]; snprintf(name, sizeof(name), "s%d", k);
        err = ncmpi_def_var(ncid, name, NC_SHORT, 1, &dimid, &v[k]); CHK(err);
        err = ncmpi_put_att_short(ncid, v[k], "_FillValue", NC_SHORT, 1, &sfill); CHK(err);
    }
    err = ncmpi_enddef(ncid); CHK(err);

    err = ncmpi_mput_var_int_all(ncid, 3, v, bufs);
    printf("mput_var_int_all returned %d (%s)\n", err, ncmpi_strerror(err));
    if (err != NC_ERANGE) bad++;

    for (k = 0; k < 3; k++) {
        err = ncmpi_get_var_short_all(ncid, v[k], got); CHK(err);
        for (i = 0; i < N; i++) {
            short exp = (bufs[k][i] > 32767) ? sfill : (short)bufs[k][i];
            printf("   s%d[%d] = %d (expected %d)%s\n", k, i, got[i], exp, got[i] == exp ? "" : "  <-- WRONG");
            if (got[i] != exp) bad++;
        }
    }
    err = ncmpi_close(ncid);
    printf("close returned %d (%s)\n", err, ncmpi_strerror(err));
    if (err != NC_NOERR) bad++;
    printf(bad ? "RESULT: violated\n" : "RESULT: ok\n");
    MPI_Finalize();
    return bad ? 1 : 0;
}
