/* C09 "text and numeric types never convert into each other": the flexible APIs (buffer described by an MPI datatype)
 * must answer NC_ECHAR when the buffer's element type is numeric and the variable is NC_CHAR, or the other way round.
 * The dispatcher leaves that check to the driver for flexible calls; the ncmpio driver made it for put/get_vard only, so
 * every other flexible call ran into `assert(itype == MPI_CHAR)` / `assert(itype != MPI_CHAR)` in convert_swap.c and
 * aborted the program.  Each case runs in a child process (fork before MPI is touched is not possible, so the cases are
 * selected by argv[2] and run.sh runs them one by one).
 * usage: echar_flexible <file> <case 0..11>; exit 0 = NC_ECHAR, 1 = another status, abort = assertion */
#include <stdio.h>
#include <stdlib.h>
#include <mpi.h>
#include <pnetcdf.h>
int main(int argc, char **argv) {
    int ncid, d, vc, vi, err, k, req, st, ibuf[4] = {1, 2, 3, 4}; char cbuf[4] = {'a', 'b', 'c', 'd'};
    MPI_Offset s[1] = {0}, c[1] = {4}, *ss[1], *cc[1];
    MPI_Init(&argc, &argv);
    k = argc > 2 ? atoi(argv[2]) : 0;
    err = ncmpi_create(MPI_COMM_WORLD, argv[1], NC_CLOBBER, MPI_INFO_NULL, &ncid); if (err) return 2;
    ncmpi_def_dim(ncid, "x", 4, &d); ncmpi_def_var(ncid, "c", NC_CHAR, 1, &d, &vc); ncmpi_def_var(ncid, "i", NC_INT, 1, &d, &vi);
    ncmpi_enddef(ncid);
    ss[0] = s; cc[0] = c;
    switch (k) {
    case 0:  err = ncmpi_put_vara_all(ncid, vc, s, c, ibuf, 4, MPI_INT); break;
    case 1:  err = ncmpi_put_vara_all(ncid, vi, s, c, cbuf, 4, MPI_CHAR); break;
    case 2:  err = ncmpi_get_vara_all(ncid, vc, s, c, ibuf, 4, MPI_INT); break;
    case 3:  err = ncmpi_get_vara_all(ncid, vi, s, c, cbuf, 4, MPI_CHAR); break;
    case 4:  err = ncmpi_iput_vara(ncid, vc, s, c, ibuf, 4, MPI_INT, &req); break;
    case 5:  err = ncmpi_iput_vara(ncid, vi, s, c, cbuf, 4, MPI_CHAR, &req); break;
    case 6:  err = ncmpi_iget_vara(ncid, vc, s, c, ibuf, 4, MPI_INT, &req); break;
    case 7:  err = ncmpi_iget_vara(ncid, vi, s, c, cbuf, 4, MPI_CHAR, &req); break;
    case 8:  err = ncmpi_put_varn_all(ncid, vc, 1, ss, cc, ibuf, 4, MPI_INT); break;
    case 9:  err = ncmpi_get_varn_all(ncid, vi, 1, ss, cc, cbuf, 4, MPI_CHAR); break;
    case 10: err = ncmpi_iput_varn(ncid, vc, 1, ss, cc, ibuf, 4, MPI_INT, &req); break;
    case 11: err = ncmpi_iget_varn(ncid, vi, 1, ss, cc, cbuf, 4, MPI_CHAR, &req); break;
    default: err = NC_ECHAR;
    }
    printf("case %2d: %s\n", k, ncmpi_strerrno(err));
    st = (err == NC_ECHAR) ? 0 : 1;
    ncmpi_close(ncid);
    MPI_Finalize(); return st;
}
