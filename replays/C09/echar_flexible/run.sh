#!/bin/bash
# usage: run.sh [built pnetcdf tree]   exit 0: all twelve flexible text/numeric mismatches answer NC_ECHAR
W="${1:-/repo}"; HERE="$(cd "$(dirname "$0")" && pwd)"
TMP="$(mktemp -d /tmp/c09echar.XXXXXX)" || exit 2
trap 'rm -rf "$TMP"' EXIT
mpicc -g -O0 -I"$W/src/include" -o "$TMP/t" "$HERE/echar_flexible.c" "$W/src/libs/.libs/libpnetcdf.a" -lm || exit 2
rc=0
for k in 0 1 2 3 4 5 6 7 8 9 10 11; do
  out=$(cd "$TMP" && timeout 60 mpiexec --allow-run-as-root --oversubscribe -n 1 ./t "$TMP/x.nc" $k 2>&1); r=$?
  echo "$out" | grep "^case\|Assertion" | head -2
  [ $r -eq 0 ] || rc=1
done
[ $rc -eq 0 ] && echo "C09 holds: every flexible text/numeric mismatch is NC_ECHAR" || echo "C09 VIOLATED"
exit $rc
