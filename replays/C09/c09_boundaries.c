#include <stdio.h>
#include <mpi.h>
#include <pnetcdf.h>
#include <math.h>
int main(int argc,char**argv){ MPI_Init(&argc,&argv); int ncid,v1,v2,v3,err; 
 ncmpi_create(MPI_COMM_WORLD,"/tmp/rp/c09c.nc",NC_CLOBBER|NC_64BIT_DATA,MPI_INFO_NULL,&ncid);
 ncmpi_def_var(ncid,"i64",NC_INT64,0,NULL,&v1); ncmpi_def_var(ncid,"u64",NC_UINT64,0,NULL,&v2); ncmpi_def_var(ncid,"f",NC_FLOAT,0,NULL,&v3);
 ncmpi_enddef(ncid);
 float f=9223372036854775808.0f; double d=18446744073709551616.0; long long ll=0; unsigned long long ull=0;
 err=ncmpi_put_var_float_all(ncid,v1,&f); printf("put float 2^63 -> NC_INT64: %s\n",ncmpi_strerrno(err));
 err=ncmpi_get_var_longlong_all(ncid,v1,&ll); printf("  stored %lld\n",ll);
 err=ncmpi_put_var_double_all(ncid,v2,&d); printf("put double 2^64 -> NC_UINT64: %s\n",ncmpi_strerrno(err));
 err=ncmpi_get_var_ulonglong_all(ncid,v2,&ull); printf("  stored %llu\n",ull);
 err=ncmpi_put_var_float_all(ncid,v3,&f); printf("put float 2^63 -> NC_FLOAT: %s\n",ncmpi_strerrno(err));
 err=ncmpi_get_var_longlong_all(ncid,v3,&ll); printf("get NC_FLOAT 2^63 as longlong: %s value %lld\n",ncmpi_strerrno(err),ll);
 long l; err=ncmpi_get_var_long_all(ncid,v3,&l); printf("get NC_FLOAT 2^63 as long: %s value %ld\n",ncmpi_strerrno(err),l);
 { int v4,v5; double nan=NAN, inf=INFINITY; int iv=0; float fv=0;
   ncmpi_redef(ncid); ncmpi_def_var(ncid,"i",NC_INT,0,NULL,&v4); ncmpi_def_var(ncid,"f2",NC_FLOAT,0,NULL,&v5); ncmpi_enddef(ncid);
   err=ncmpi_put_var_double_all(ncid,v4,&nan); printf("put double NaN -> NC_INT: %s\n",ncmpi_strerrno(err));
   ncmpi_get_var_int_all(ncid,v4,&iv); printf("  stored %d\n",iv);
   err=ncmpi_put_var_double_all(ncid,v5,&inf); printf("put double +Inf -> NC_FLOAT: %s\n",ncmpi_strerrno(err));
   err=ncmpi_put_var_double_all(ncid,v3,&nan); err=ncmpi_get_var_int_all(ncid,v3,&iv); printf("get NC_FLOAT NaN as int: %s value %d\n",ncmpi_strerrno(err),iv); }
 ncmpi_close(ncid); MPI_Finalize(); return 0;}
