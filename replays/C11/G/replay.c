#include <stdio.h>
#include <stdlib.h>
#include <string.h>
#include <mpi.h>
#include <pnetcdf.h>

/* ---- fault-injection interposers (same block is pasted in every replay) ----
 * The replay is linked statically against libpnetcdf.a, so the library's calls
 * to MPI_File_{write,read}_at[_all] resolve to the functions below.  They
 * forward to PMPI_ unless armed; when armed the N-th matching call returns the
 * chosen MPI error class WITHOUT doing any I/O. */
enum { F_WRITE_AT = 1, F_WRITE_AT_ALL = 2, F_READ_AT = 4, F_READ_AT_ALL = 8 };
static struct {
    int        fns;     /* mask of functions to hit (0 = disarmed)       */
    MPI_Offset off;     /* only calls with this offset (-1 = any offset) */
    int        skip;    /* let this many matching calls through first    */
    int        eclass;  /* MPI error class to return                     */
    int        fired;   /* number of injected failures so far            */
    int        trace;   /* print every intercepted call                  */
} inj = { 0, -1, 0, 0, 0, 0 };

static const char *ecname(int c) {
    if (c == MPI_ERR_NO_SPACE)  return "MPI_ERR_NO_SPACE";
    if (c == MPI_ERR_QUOTA)     return "MPI_ERR_QUOTA";
    if (c == MPI_ERR_IO)        return "MPI_ERR_IO";
    if (c == MPI_ERR_ACCESS)    return "MPI_ERR_ACCESS";
    if (c == MPI_ERR_READ_ONLY) return "MPI_ERR_READ_ONLY";
    return "MPI_ERR_?";
}
static void arm(int fns, MPI_Offset off, int skip, int eclass) {
    inj.fns = fns; inj.off = off; inj.skip = skip; inj.eclass = eclass; inj.fired = 0;
}
static void disarm(void) { inj.fns = 0; }
/* returns 1 when this call must fail */
static int hook(int fn, const char *name, MPI_Offset off, int count) {
    int hit = 0;
    if ((inj.fns & fn) && !inj.fired && (inj.off < 0 || inj.off == off)) {
        if (inj.skip > 0) inj.skip--;
        else { hit = 1; inj.fired++; }
    }
    if (inj.trace || hit)
        printf("    [mpi] %s(offset=%lld, count=%d) -> %s%s\n", name, (long long)off, count,
               hit ? "INJECTED FAILURE, no I/O done, returning " : "forwarded to PMPI",
               hit ? ecname(inj.eclass) : "");
    return hit;
}
int MPI_File_write_at(MPI_File fh, MPI_Offset off, const void *buf, int count,
                      MPI_Datatype t, MPI_Status *st) {
    if (hook(F_WRITE_AT, "MPI_File_write_at", off, count)) return inj.eclass;
    return PMPI_File_write_at(fh, off, buf, count, t, st);
}
int MPI_File_write_at_all(MPI_File fh, MPI_Offset off, const void *buf, int count,
                          MPI_Datatype t, MPI_Status *st) {
    if (hook(F_WRITE_AT_ALL, "MPI_File_write_at_all", off, count)) return inj.eclass;
    return PMPI_File_write_at_all(fh, off, buf, count, t, st);
}
int MPI_File_read_at(MPI_File fh, MPI_Offset off, void *buf, int count,
                     MPI_Datatype t, MPI_Status *st) {
    if (hook(F_READ_AT, "MPI_File_read_at", off, count)) return inj.eclass;
    return PMPI_File_read_at(fh, off, buf, count, t, st);
}
int MPI_File_read_at_all(MPI_File fh, MPI_Offset off, void *buf, int count,
                         MPI_Datatype t, MPI_Status *st) {
    if (hook(F_READ_AT_ALL, "MPI_File_read_at_all", off, count)) return inj.eclass;
    return PMPI_File_read_at_all(fh, off, buf, count, t, st);
}
/* ---- end of interposers ---------------------------------------------------- */

#define CHK(call) do { int e_ = (call); if (e_ != NC_NOERR) { \
    printf("UNEXPECTED setup error line %d: %s\n", __LINE__, ncmpi_strerror(e_)); \
    MPI_Abort(MPI_COMM_WORLD, 2); } } while (0)
static const char *ncname(int e) { return e == NC_NOERR ? "NC_NOERR" : ncmpi_strerrno(e); }
/* Candidate G: ncmpio_header_get.c hdr_get_NC_var(): a failed header fetch
 * (hdr_fetch -> MPI_File_read_at) that happens exactly while reading a
 * variable's dimension-id list only `break`s out of the loop; `err` is then
 * overwritten by `err = hdr_get_NC_attrarray(...)`, which goes on parsing the
 * STALE chunk buffer (hdr_fetch resets gbp->pos to gbp->base even on failure).
 *
 * The header is read in chunks of 256 KiB (PNC_DEFAULT_CHUNKSIZE; the hint
 * nc_header_read_chunk_size is parsed but never stored, see ncmpio_util.c), so
 * the header must be > 256 KiB and a dimid must sit exactly on a chunk boundary.
 * Both files below are legitimate files produced through the public API only.
 *
 * Scenario 1 ("natural"): 66 variables x 1024 dimids, boundary 1*CHUNK falls in
 *   the dimid list of variable #63.  Stale buffer = chunk 0 ("CDF\001...").
 * Scenario 2 ("crafted"): header spans 3 chunks.  Variable "a" carries a big
 *   NC_BYTE attribute whose value covers file offset 1*CHUNK; 20 bytes there
 *   look like "vatt_list=ABSENT nc_type vsize begin".  The last dimid of the
 *   last variable "b" sits exactly at offset 2*CHUNK.  When the fetch of chunk 2
 *   fails, the parser silently re-parses chunk 1 from its start and completes
 *   variable "b" from the bytes embedded in the attribute -> ncmpi_open returns
 *   NC_NOERR with wrong metadata for "b". */

#define CHUNK 262144

static void be32(signed char *p, unsigned v) { p[0] = v >> 24; p[1] = v >> 16; p[2] = v >> 8; p[3] = v; }

/* ---------- scenario 1 ---------- */
#define NDIMS1 1024
#define NVARS1 66
static void build_natural(const char *path) {
    int ncid, dimid, varid, i, dimids[NDIMS1]; char name[16];
    CHK(ncmpi_create(MPI_COMM_WORLD, path, NC_CLOBBER, MPI_INFO_NULL, &ncid));
    CHK(ncmpi_def_dim(ncid, "d", 1, &dimid));
    for (i = 0; i < NDIMS1; i++) dimids[i] = dimid;
    for (i = 0; i < NVARS1; i++) {
        sprintf(name, "v%03d", i);
        CHK(ncmpi_def_var(ncid, name, NC_INT, NDIMS1, dimids, &varid));
    }
    CHK(ncmpi_enddef(ncid));
    CHK(ncmpi_close(ncid));
}

/* ---------- scenario 2 ---------- */
/* CDF-1 layout: magic 4, numrecs 4, dim_list 8+12+12, gatt_list 8, var_list tag+nelems 8,
 * var a: name 8, ndims 4, vatt tag+nelems 8, att name 8, type 4, nelems 4 => values start at 92 */
#define ATT_VALUE_OFF 92
#define PADLEN (2 * CHUNK - 120)   /* puts dimids[1] of var b exactly at offset 2*CHUNK */
static MPI_Offset build_crafted(const char *path, int padlen, MPI_Offset embed_begin) {
    int ncid, dx, dy, va, vb, dimids[2], i, data[25];
    MPI_Offset begin_b;
    signed char *pad = (signed char *)calloc(padlen, 1), *p;

    p = pad + (CHUNK - ATT_VALUE_OFF);           /* lands at file offset 1*CHUNK */
    be32(p, 0); be32(p + 4, 0);                  /* vatt_list = ABSENT (ZERO ZERO)   */
    be32(p + 8, NC_DOUBLE);                      /* nc_type   (real one: NC_INT)     */
    be32(p + 12, 120);                           /* vsize (ignored by PnetCDF)       */
    be32(p + 16, (unsigned)embed_begin);         /* begin                             */

    CHK(ncmpi_create(MPI_COMM_WORLD, path, NC_CLOBBER, MPI_INFO_NULL, &ncid));
    CHK(ncmpi_def_dim(ncid, "x", 3, &dx));       /* dimid 0 */
    CHK(ncmpi_def_dim(ncid, "y", 5, &dy));       /* dimid 1 */
    CHK(ncmpi_def_var(ncid, "a", NC_INT, 0, NULL, &va));
    CHK(ncmpi_put_att_schar(ncid, va, "pad", NC_BYTE, padlen, pad));
    dimids[0] = dy; dimids[1] = dy;
    CHK(ncmpi_def_var(ncid, "b", NC_INT, 2, dimids, &vb));   /* b(y,y): int 5x5 */
    CHK(ncmpi_enddef(ncid));
    for (i = 0; i < 25; i++) data[i] = i;
    CHK(ncmpi_put_var_int_all(ncid, vb, data));
    CHK(ncmpi_inq_varoffset(ncid, vb, &begin_b));
    CHK(ncmpi_close(ncid));
    free(pad);
    return begin_b;
}

static void describe_b(int ncid) {
    int vb, ndims, dimids[8], natts; nc_type xt; MPI_Offset len0, len1, off; char n0[NC_MAX_NAME+1], n1[NC_MAX_NAME+1];
    CHK(ncmpi_inq_varid(ncid, "b", &vb));
    CHK(ncmpi_inq_var(ncid, vb, NULL, &xt, &ndims, dimids, &natts));
    CHK(ncmpi_inq_dim(ncid, dimids[0], n0, &len0));
    CHK(ncmpi_inq_dim(ncid, dimids[1], n1, &len1));
    CHK(ncmpi_inq_varoffset(ncid, vb, &off));
    printf("    variable b as seen by the library: type=%s, dims=(%s=%lld, %s=%lld), begin=%lld\n",
           xt == NC_INT ? "NC_INT" : xt == NC_DOUBLE ? "NC_DOUBLE" : "other",
           n0, (long long)len0, n1, (long long)len1, (long long)off);
}

/* open `path` with the header fetch at file offset `off` failing; returns ncmpi_open's result */
static int open_with_failure(const char *path, MPI_Offset off, int eclass, int describe) {
    int ncid, err;
    inj.trace = 1;
    arm(F_READ_AT | F_READ_AT_ALL, off, 0, eclass);
    err = ncmpi_open(MPI_COMM_WORLD, path, NC_NOWRITE, MPI_INFO_NULL, &ncid);
    disarm(); inj.trace = 0;
    printf("    injected failures: %d;  ncmpi_open returned %d (%s)\n", inj.fired, err, ncname(err));
    if (err == NC_NOERR) { if (describe) describe_b(ncid); ncmpi_close(ncid); }
    return err;
}

int main(int argc, char **argv) {
    const char *path = argc > 1 ? argv[1] : "/tmp/replay_c11/G/x.nc";
    int err, ncid, dropped = 0, misreported = 0;
    MPI_Offset begin_b;
    MPI_Init(&argc, &argv);
    setvbuf(stdout, NULL, _IONBF, 0);
    printf("== Replay G: hdr_get_NC_var() dimid-loop error handling (header read chunk = %d)\n", CHUNK);

    /* ---- scenario 1 ---- */
    printf("--- scenario 1: %d vars x %d dimids; fetch @%d (inside dimid list of v063) fails\n", NVARS1, NDIMS1, CHUNK);
    build_natural(path);
    printf("  control: first fetch (offset 0) failing with MPI_ERR_ACCESS\n");
    err = open_with_failure(path, 0, MPI_ERR_ACCESS, 0);
    printf("  fetch inside dimid list failing with MPI_ERR_ACCESS (expected NC_EACCESS)\n");
    err = open_with_failure(path, CHUNK, MPI_ERR_ACCESS, 0);
    if (err == NC_NOERR) dropped++; else if (err != NC_EACCESS) misreported++;
    printf("  fetch inside dimid list failing with MPI_ERR_IO (expected NC_EREAD)\n");
    err = open_with_failure(path, CHUNK, MPI_ERR_IO, 0);
    if (err == NC_NOERR) dropped++; else if (err != NC_EREAD) misreported++;

    /* ---- scenario 2 ---- */
    printf("--- scenario 2: crafted 3-chunk header (pad attribute %d bytes), last dimid of b at offset %d\n", PADLEN, 2 * CHUNK);
    begin_b = build_crafted(path, PADLEN, 0);
    begin_b = build_crafted(path, PADLEN, begin_b);   /* same layout, now with begin embedded */
    printf("  no injection (ground truth):\n");
    CHK(ncmpi_open(MPI_COMM_WORLD, path, NC_NOWRITE, MPI_INFO_NULL, &ncid));
    describe_b(ncid);
    CHK(ncmpi_close(ncid));
    printf("  fetch @%d (inside dimid list of b) failing with MPI_ERR_IO (expected NC_EREAD)\n", 2 * CHUNK);
    err = open_with_failure(path, 2 * CHUNK, MPI_ERR_IO, 1);
    if (err == NC_NOERR) dropped++; else if (err != NC_EREAD) misreported++;
    printf("  fetch @%d failing with MPI_ERR_ACCESS (expected NC_EACCESS)\n", 2 * CHUNK);
    err = open_with_failure(path, 2 * CHUNK, MPI_ERR_ACCESS, 1);
    if (err == NC_NOERR) dropped++; else if (err != NC_EACCESS) misreported++;

    printf("  control: pad attribute 8 bytes longer => the same fetch now happens at b's ndims field (outside the loop)\n");
    build_crafted(path, PADLEN + 8, begin_b + 8);
    err = open_with_failure(path, 2 * CHUNK, MPI_ERR_IO, 1);
    printf("    control: %s\n", err == NC_EREAD ? "error reported (NC_EREAD)" : "unexpected");

    printf("== RESULT G: %s (%d open(s) returned NC_NOERR, %d returned a wrong error code, despite failed header read)\n",
           dropped ? "DEFECT MANIFESTS - I/O error dropped" :
           misreported ? "error not dropped to NC_NOERR but misreported" : "error reported properly",
           dropped, misreported);
    MPI_Finalize();
    return dropped ? 1 : 0;
}
