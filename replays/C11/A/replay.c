#include <stdio.h>
#include <stdlib.h>
#include <string.h>
#include <mpi.h>
#include <pnetcdf.h>

/* ---- fault-injection interposers (same block is pasted in every replay) ----
 * The replay is linked statically against libpnetcdf.a, so the library's calls
 * to MPI_File_{write,read}_at[_all] resolve to the functions below.  They
 * forward to PMPI_ unless armed; when armed the N-th matching call returns the
 * chosen MPI error class WITHOUT doing any I/O. */
enum { F_WRITE_AT = 1, F_WRITE_AT_ALL = 2, F_READ_AT = 4, F_READ_AT_ALL = 8 };
static struct {
    int        fns;     /* mask of functions to hit (0 = disarmed)       */
    MPI_Offset off;     /* only calls with this offset (-1 = any offset) */
    int        skip;    /* let this many matching calls through first    */
    int        eclass;  /* MPI error class to return                     */
    int        fired;   /* number of injected failures so far            */
    int        trace;   /* print every intercepted call                  */
} inj = { 0, -1, 0, 0, 0, 0 };

static const char *ecname(int c) {
    if (c == MPI_ERR_NO_SPACE)  return "MPI_ERR_NO_SPACE";
    if (c == MPI_ERR_QUOTA)     return "MPI_ERR_QUOTA";
    if (c == MPI_ERR_IO)        return "MPI_ERR_IO";
    if (c == MPI_ERR_ACCESS)    return "MPI_ERR_ACCESS";
    if (c == MPI_ERR_READ_ONLY) return "MPI_ERR_READ_ONLY";
    return "MPI_ERR_?";
}
static void arm(int fns, MPI_Offset off, int skip, int eclass) {
    inj.fns = fns; inj.off = off; inj.skip = skip; inj.eclass = eclass; inj.fired = 0;
}
static void disarm(void) { inj.fns = 0; }
/* returns 1 when this call must fail */
static int hook(int fn, const char *name, MPI_Offset off, int count) {
    int hit = 0;
    if ((inj.fns & fn) && !inj.fired && (inj.off < 0 || inj.off == off)) {
        if (inj.skip > 0) inj.skip--;
        else { hit = 1; inj.fired++; }
    }
    if (inj.trace || hit)
        printf("    [mpi] %s(offset=%lld, count=%d) -> %s%s\n", name, (long long)off, count,
               hit ? "INJECTED FAILURE, no I/O done, returning " : "forwarded to PMPI",
               hit ? ecname(inj.eclass) : "");
    return hit;
}
int MPI_File_write_at(MPI_File fh, MPI_Offset off, const void *buf, int count,
                      MPI_Datatype t, MPI_Status *st) {
    if (hook(F_WRITE_AT, "MPI_File_write_at", off, count)) return inj.eclass;
    return PMPI_File_write_at(fh, off, buf, count, t, st);
}
int MPI_File_write_at_all(MPI_File fh, MPI_Offset off, const void *buf, int count,
                          MPI_Datatype t, MPI_Status *st) {
    if (hook(F_WRITE_AT_ALL, "MPI_File_write_at_all", off, count)) return inj.eclass;
    return PMPI_File_write_at_all(fh, off, buf, count, t, st);
}
int MPI_File_read_at(MPI_File fh, MPI_Offset off, void *buf, int count,
                     MPI_Datatype t, MPI_Status *st) {
    if (hook(F_READ_AT, "MPI_File_read_at", off, count)) return inj.eclass;
    return PMPI_File_read_at(fh, off, buf, count, t, st);
}
int MPI_File_read_at_all(MPI_File fh, MPI_Offset off, void *buf, int count,
                         MPI_Datatype t, MPI_Status *st) {
    if (hook(F_READ_AT_ALL, "MPI_File_read_at_all", off, count)) return inj.eclass;
    return PMPI_File_read_at_all(fh, off, buf, count, t, st);
}
/* ---- end of interposers ---------------------------------------------------- */

#define CHK(call) do { int e_ = (call); if (e_ != NC_NOERR) { \
    printf("UNEXPECTED setup error line %d: %s\n", __LINE__, ncmpi_strerror(e_)); \
    MPI_Abort(MPI_COMM_WORLD, 2); } } while (0)
static const char *ncname(int e) { return e == NC_NOERR ? "NC_NOERR" : ncmpi_strerrno(e); }
/* Candidate A: ncmpio_sync.c ncmpio_write_numrecs() drops a failed write of the
 * record count (file offset 4) unless the MPI error class maps to NC_EFILE. */

static unsigned disk_numrecs(const char *path) {   /* raw bytes 4..7 of the file */
    unsigned char b[8] = {0}; FILE *f = fopen(path, "rb");
    if (f) { if (fread(b, 1, 8, f) != 8) b[7] = 0xff; fclose(f); }
    return ((unsigned)b[4] << 24) | (b[5] << 16) | (b[6] << 8) | b[7];
}

/* one scenario: create file with a record variable, grow numrecs through `api`,
 * with the numrecs write (MPI_File_write_at @ offset 4) failing with eclass */
static int scenario(const char *path, int api, int eclass) {
    static const char *apiname[] = { "ncmpi_put_vara_int_all", "ncmpi_end_indep_data",
                                     "ncmpi_sync_numrecs" };
    int ncid, dimid[2], varid, err, buf[4] = {1, 2, 3, 4};
    MPI_Offset start[2] = {0, 0}, count[2] = {1, 4}, nrecs_mem;

    printf("--- %s with numrecs write failing with %s\n", apiname[api], ecname(eclass));
    CHK(ncmpi_create(MPI_COMM_WORLD, path, NC_CLOBBER, MPI_INFO_NULL, &ncid));
    CHK(ncmpi_def_dim(ncid, "time", NC_UNLIMITED, &dimid[0]));
    CHK(ncmpi_def_dim(ncid, "x", 4, &dimid[1]));
    CHK(ncmpi_def_var(ncid, "v", NC_INT, 2, dimid, &varid));
    CHK(ncmpi_enddef(ncid));

    if (api == 0) {
        arm(F_WRITE_AT | F_WRITE_AT_ALL, 4 /* NC_NUMRECS_OFFSET */, 0, eclass);
        err = ncmpi_put_vara_int_all(ncid, varid, start, count, buf);
    } else {
        CHK(ncmpi_begin_indep_data(ncid));
        CHK(ncmpi_put_vara_int(ncid, varid, start, count, buf)); /* numrecs 0 -> 1, dirty */
        arm(F_WRITE_AT | F_WRITE_AT_ALL, 4, 0, eclass);
        if (api == 1) err = ncmpi_end_indep_data(ncid);
        else          err = ncmpi_sync_numrecs(ncid);
    }
    disarm();
    CHK(ncmpi_inq_dimlen(ncid, dimid[0], &nrecs_mem));
    CHK(ncmpi_close(ncid));

    printf("    injected failures: %d;  %s returned %d (%s)\n", inj.fired, apiname[api], err, ncname(err));
    printf("    numrecs in memory before close = %lld, numrecs on disk after close = %u\n",
           (long long)nrecs_mem, disk_numrecs(path));
    if (!inj.fired) { printf("    injection point not reached!\n"); return -1; }
    return err == NC_NOERR;  /* 1 = dropped */
}

int main(int argc, char **argv) {
    const char *path = argc > 1 ? argv[1] : "/tmp/replay_c11/A/x.nc";
    int dropped = 0, r;
    MPI_Init(&argc, &argv);
    setvbuf(stdout, NULL, _IONBF, 0);
    printf("== Replay A: ncmpio_write_numrecs() error handling\n");

    r = scenario(path, 0, MPI_ERR_IO);        /* control: maps to NC_EFILE -> NC_EWRITE */
    printf("    control (class mapped to NC_EFILE): %s\n", r == 0 ? "error reported" : "DROPPED");
    if (r > 0) dropped++;
    r = scenario(path, 0, MPI_ERR_NO_SPACE); if (r > 0) dropped++;
    r = scenario(path, 1, MPI_ERR_QUOTA);    if (r > 0) dropped++;
    r = scenario(path, 2, MPI_ERR_ACCESS);   if (r > 0) dropped++;

    printf("== RESULT A: %s (%d scenario(s) returned NC_NOERR despite failed numrecs write)\n",
           dropped ? "DEFECT MANIFESTS - I/O error dropped" : "error reported properly", dropped);
    MPI_Finalize();
    return dropped ? 1 : 0;
}
