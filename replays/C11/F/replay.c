#include <stdio.h>
#include <stdlib.h>
#include <string.h>
#include <mpi.h>
#include <pnetcdf.h>

/* ---- fault-injection interposers (same block is pasted in every replay) ----
 * The replay is linked statically against libpnetcdf.a, so the library's calls
 * to MPI_File_{write,read}_at[_all] resolve to the functions below.  They
 * forward to PMPI_ unless armed; when armed the N-th matching call returns the
 * chosen MPI error class WITHOUT doing any I/O. */
enum { F_WRITE_AT = 1, F_WRITE_AT_ALL = 2, F_READ_AT = 4, F_READ_AT_ALL = 8 };
static struct {
    int        fns;     /* mask of functions to hit (0 = disarmed)       */
    MPI_Offset off;     /* only calls with this offset (-1 = any offset) */
    int        skip;    /* let this many matching calls through first    */
    int        eclass;  /* MPI error class to return                     */
    int        fired;   /* number of injected failures so far            */
    int        trace;   /* print every intercepted call                  */
} inj = { 0, -1, 0, 0, 0, 0 };

static const char *ecname(int c) {
    if (c == MPI_ERR_NO_SPACE)  return "MPI_ERR_NO_SPACE";
    if (c == MPI_ERR_QUOTA)     return "MPI_ERR_QUOTA";
    if (c == MPI_ERR_IO)        return "MPI_ERR_IO";
    if (c == MPI_ERR_ACCESS)    return "MPI_ERR_ACCESS";
    if (c == MPI_ERR_READ_ONLY) return "MPI_ERR_READ_ONLY";
    return "MPI_ERR_?";
}
static void arm(int fns, MPI_Offset off, int skip, int eclass) {
    inj.fns = fns; inj.off = off; inj.skip = skip; inj.eclass = eclass; inj.fired = 0;
}
static void disarm(void) { inj.fns = 0; }
/* returns 1 when this call must fail */
static int hook(int fn, const char *name, MPI_Offset off, int count) {
    int hit = 0;
    if ((inj.fns & fn) && !inj.fired && (inj.off < 0 || inj.off == off)) {
        if (inj.skip > 0) inj.skip--;
        else { hit = 1; inj.fired++; }
    }
    if (inj.trace || hit)
        printf("    [mpi] %s(offset=%lld, count=%d) -> %s%s\n", name, (long long)off, count,
               hit ? "INJECTED FAILURE, no I/O done, returning " : "forwarded to PMPI",
               hit ? ecname(inj.eclass) : "");
    return hit;
}
int MPI_File_write_at(MPI_File fh, MPI_Offset off, const void *buf, int count,
                      MPI_Datatype t, MPI_Status *st) {
    if (hook(F_WRITE_AT, "MPI_File_write_at", off, count)) return inj.eclass;
    return PMPI_File_write_at(fh, off, buf, count, t, st);
}
int MPI_File_write_at_all(MPI_File fh, MPI_Offset off, const void *buf, int count,
                          MPI_Datatype t, MPI_Status *st) {
    if (hook(F_WRITE_AT_ALL, "MPI_File_write_at_all", off, count)) return inj.eclass;
    return PMPI_File_write_at_all(fh, off, buf, count, t, st);
}
int MPI_File_read_at(MPI_File fh, MPI_Offset off, void *buf, int count,
                     MPI_Datatype t, MPI_Status *st) {
    if (hook(F_READ_AT, "MPI_File_read_at", off, count)) return inj.eclass;
    return PMPI_File_read_at(fh, off, buf, count, t, st);
}
int MPI_File_read_at_all(MPI_File fh, MPI_Offset off, void *buf, int count,
                         MPI_Datatype t, MPI_Status *st) {
    if (hook(F_READ_AT_ALL, "MPI_File_read_at_all", off, count)) return inj.eclass;
    return PMPI_File_read_at_all(fh, off, buf, count, t, st);
}
/* ---- end of interposers ---------------------------------------------------- */

#define CHK(call) do { int e_ = (call); if (e_ != NC_NOERR) { \
    printf("UNEXPECTED setup error line %d: %s\n", __LINE__, ncmpi_strerror(e_)); \
    MPI_Abort(MPI_COMM_WORLD, 2); } } while (0)
static const char *ncname(int e) { return e == NC_NOERR ? "NC_NOERR" : ncmpi_strerrno(e); }
/* Candidate F: ncmpio_file_misc.c ncmpio_redef() discards the return value of
 * ncmpio_end_indep_data() -> a failed numrecs write while leaving independent
 * data mode through ncmpi_redef is dropped (even for MPI_ERR_IO, which
 * ncmpio_write_numrecs itself does report as NC_EWRITE). */

static unsigned disk_numrecs(const char *path) {   /* raw bytes 4..7 of the file */
    unsigned char b[8] = {0}; FILE *f = fopen(path, "rb");
    if (f) { if (fread(b, 1, 8, f) != 8) b[7] = 0xff; fclose(f); }
    return ((unsigned)b[4] << 24) | (b[5] << 16) | (b[6] << 8) | b[7];
}

static int scenario(const char *path, int via_redef, int eclass) {
    int ncid, dimid[2], varid, err, buf[4] = {1, 2, 3, 4};
    MPI_Offset start[2] = {0, 0}, count[2] = {1, 4};
    unsigned on_disk;

    printf("--- leaving independent data mode via %s; numrecs write failing with %s\n",
           via_redef ? "ncmpi_redef" : "ncmpi_end_indep_data (control)", ecname(eclass));
    CHK(ncmpi_create(MPI_COMM_WORLD, path, NC_CLOBBER, MPI_INFO_NULL, &ncid));
    CHK(ncmpi_def_dim(ncid, "time", NC_UNLIMITED, &dimid[0]));
    CHK(ncmpi_def_dim(ncid, "x", 4, &dimid[1]));
    CHK(ncmpi_def_var(ncid, "v", NC_INT, 2, dimid, &varid));
    CHK(ncmpi_enddef(ncid));
    CHK(ncmpi_begin_indep_data(ncid));
    CHK(ncmpi_put_vara_int(ncid, varid, start, count, buf));   /* numrecs 0 -> 1 (dirty, not yet on disk) */

    inj.trace = 1;
    arm(F_WRITE_AT | F_WRITE_AT_ALL, 4 /* NC_NUMRECS_OFFSET */, 0, eclass);
    if (via_redef) err = ncmpi_redef(ncid);
    else           err = ncmpi_end_indep_data(ncid);
    disarm(); inj.trace = 0;
    on_disk = disk_numrecs(path);
    printf("    injected failures: %d;  %s returned %d (%s); numrecs on disk right after the call = %u\n",
           inj.fired, via_redef ? "ncmpi_redef" : "ncmpi_end_indep_data", err, ncname(err), on_disk);
    ncmpi_abort(ncid);   /* via_redef: leave define mode restoring old header; else: same as close */
    printf("    numrecs on disk after ncmpi_abort (file closed) = %u  (1 record was written)\n", disk_numrecs(path));
    if (!inj.fired) { printf("    injection point not reached!\n"); return -1; }
    return err == NC_NOERR;
}

int main(int argc, char **argv) {
    const char *path = argc > 1 ? argv[1] : "/tmp/replay_c11/F/x.nc";
    int dropped = 0, r;
    MPI_Init(&argc, &argv);
    setvbuf(stdout, NULL, _IONBF, 0);
    printf("== Replay F: ncmpio_redef() discarding ncmpio_end_indep_data() result\n");

    r = scenario(path, 0, MPI_ERR_IO);   /* control */
    printf("    control (ncmpi_end_indep_data): %s\n", r == 0 ? "error reported" : "DROPPED");
    r = scenario(path, 1, MPI_ERR_IO);   if (r > 0) dropped++;

    printf("== RESULT F: %s (%d scenario(s) returned NC_NOERR despite failed numrecs write)\n",
           dropped ? "DEFECT MANIFESTS - I/O error dropped" : "error reported properly", dropped);
    MPI_Finalize();
    return dropped ? 1 : 0;
}
