#include <stdio.h>
#include <stdlib.h>
#include <string.h>
#include <mpi.h>
#include <pnetcdf.h>

/* ---- fault-injection interposers (same block is pasted in every replay) ----
 * The replay is linked statically against libpnetcdf.a, so the library's calls
 * to MPI_File_{write,read}_at[_all] resolve to the functions below.  They
 * forward to PMPI_ unless armed; when armed the N-th matching call returns the
 * chosen MPI error class WITHOUT doing any I/O. */
enum { F_WRITE_AT = 1, F_WRITE_AT_ALL = 2, F_READ_AT = 4, F_READ_AT_ALL = 8 };
static struct {
    int        fns;     /* mask of functions to hit (0 = disarmed)       */
    MPI_Offset off;     /* only calls with this offset (-1 = any offset) */
    int        skip;    /* let this many matching calls through first    */
    int        eclass;  /* MPI error class to return                     */
    int        fired;   /* number of injected failures so far            */
    int        trace;   /* print every intercepted call                  */
} inj = { 0, -1, 0, 0, 0, 0 };

static const char *ecname(int c) {
    if (c == MPI_ERR_NO_SPACE)  return "MPI_ERR_NO_SPACE";
    if (c == MPI_ERR_QUOTA)     return "MPI_ERR_QUOTA";
    if (c == MPI_ERR_IO)        return "MPI_ERR_IO";
    if (c == MPI_ERR_ACCESS)    return "MPI_ERR_ACCESS";
    if (c == MPI_ERR_READ_ONLY) return "MPI_ERR_READ_ONLY";
    return "MPI_ERR_?";
}
static void arm(int fns, MPI_Offset off, int skip, int eclass) {
    inj.fns = fns; inj.off = off; inj.skip = skip; inj.eclass = eclass; inj.fired = 0;
}
static void disarm(void) { inj.fns = 0; }
/* returns 1 when this call must fail */
static int hook(int fn, const char *name, MPI_Offset off, int count) {
    int hit = 0;
    if ((inj.fns & fn) && !inj.fired && (inj.off < 0 || inj.off == off)) {
        if (inj.skip > 0) inj.skip--;
        else { hit = 1; inj.fired++; }
    }
    if (inj.trace || hit)
        printf("    [mpi] %s(offset=%lld, count=%d) -> %s%s\n", name, (long long)off, count,
               hit ? "INJECTED FAILURE, no I/O done, returning " : "forwarded to PMPI",
               hit ? ecname(inj.eclass) : "");
    return hit;
}
int MPI_File_write_at(MPI_File fh, MPI_Offset off, const void *buf, int count,
                      MPI_Datatype t, MPI_Status *st) {
    if (hook(F_WRITE_AT, "MPI_File_write_at", off, count)) return inj.eclass;
    return PMPI_File_write_at(fh, off, buf, count, t, st);
}
int MPI_File_write_at_all(MPI_File fh, MPI_Offset off, const void *buf, int count,
                          MPI_Datatype t, MPI_Status *st) {
    if (hook(F_WRITE_AT_ALL, "MPI_File_write_at_all", off, count)) return inj.eclass;
    return PMPI_File_write_at_all(fh, off, buf, count, t, st);
}
int MPI_File_read_at(MPI_File fh, MPI_Offset off, void *buf, int count,
                     MPI_Datatype t, MPI_Status *st) {
    if (hook(F_READ_AT, "MPI_File_read_at", off, count)) return inj.eclass;
    return PMPI_File_read_at(fh, off, buf, count, t, st);
}
int MPI_File_read_at_all(MPI_File fh, MPI_Offset off, void *buf, int count,
                         MPI_Datatype t, MPI_Status *st) {
    if (hook(F_READ_AT_ALL, "MPI_File_read_at_all", off, count)) return inj.eclass;
    return PMPI_File_read_at_all(fh, off, buf, count, t, st);
}
/* ---- end of interposers ---------------------------------------------------- */

#define CHK(call) do { int e_ = (call); if (e_ != NC_NOERR) { \
    printf("UNEXPECTED setup error line %d: %s\n", __LINE__, ncmpi_strerror(e_)); \
    MPI_Abort(MPI_COMM_WORLD, 2); } } while (0)
static const char *ncname(int e) { return e == NC_NOERR ? "NC_NOERR" : ncmpi_strerrno(e); }
/* Candidate D: ncmpio_fill.c fillerup_aggregate(): mpireturn of the fill write
 * MPI_File_write_at(_all) is overwritten by the following MPI_File_set_view
 * before being tested -> failed fill write at ncmpi_enddef is dropped. */

#define NX 8
static int scenario(const char *path, int skip, int eclass) {
    int ncid, dimid, varid, err, i, nfill = 0, old_mode, chk[NX];

    printf("--- ncmpi_enddef in fill mode; write #%d inside enddef (%s) failing with %s\n",
           skip + 1, skip ? "the fill write" : "the header write (control)", ecname(eclass));
    remove(path);
    CHK(ncmpi_create(MPI_COMM_WORLD, path, NC_CLOBBER, MPI_INFO_NULL, &ncid));
    CHK(ncmpi_set_fill(ncid, NC_FILL, &old_mode));
    CHK(ncmpi_def_dim(ncid, "x", NX, &dimid));
    CHK(ncmpi_def_var(ncid, "v", NC_INT, 1, &dimid, &varid));

    inj.trace = 1;
    arm(F_WRITE_AT | F_WRITE_AT_ALL, 0, skip, eclass); /* both header and fill write use offset 0
                                                          (fill write goes through a file view) */
    err = ncmpi_enddef(ncid);
    disarm(); inj.trace = 0;
    printf("    injected failures: %d;  ncmpi_enddef returned %d (%s)\n", inj.fired, err, ncname(err));
    if (err != NC_NOERR) { ncmpi_abort(ncid); return inj.fired ? 0 : -1; }

    for (i = 0; i < NX; i++) chk[i] = -1;
    err = ncmpi_get_var_int_all(ncid, varid, chk);
    for (i = 0; i < NX; i++) if (chk[i] == NC_FILL_INT) nfill++;
    printf("    read-back of v: get_var returned %s, %d of %d elements hold NC_FILL_INT (v[0]=%d, NC_FILL_INT=%d)\n",
           ncname(err), nfill, NX, chk[0], NC_FILL_INT);
    CHK(ncmpi_close(ncid));
    if (!inj.fired) { printf("    injection point not reached!\n"); return -1; }
    return 1;   /* enddef returned NC_NOERR although a write failed */
}

int main(int argc, char **argv) {
    const char *path = argc > 1 ? argv[1] : "/tmp/replay_c11/D/x.nc";
    int dropped = 0, r;
    MPI_Init(&argc, &argv);
    setvbuf(stdout, NULL, _IONBF, 0);
    printf("== Replay D: fillerup_aggregate() error handling\n");

    r = scenario(path, 0, MPI_ERR_IO);   /* control: same injection on header write is reported */
    printf("    control (header write, MPI_ERR_IO): %s\n", r == 0 ? "error reported" : "DROPPED");
    r = scenario(path, 1, MPI_ERR_IO);       if (r > 0) dropped++;
    r = scenario(path, 1, MPI_ERR_NO_SPACE); if (r > 0) dropped++;

    printf("== RESULT D: %s (%d scenario(s) returned NC_NOERR despite failed fill write)\n",
           dropped ? "DEFECT MANIFESTS - I/O error dropped" : "error reported properly", dropped);
    MPI_Finalize();
    return dropped ? 1 : 0;
}
