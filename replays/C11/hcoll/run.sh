#!/bin/bash
# usage: run.sh [built pnetcdf tree]
# C11 with the hint romio_no_indep_rw=true: the header and record-count writes are collective and the non-root ranks
# join them with zero-length MPI_File_write_at_all calls.  An MPI error reported to such a rank (PMPI interposition in
# hcoll_nonroot.c, written by the sub-agent that produced seeded change C11_f; the real call is still made) must reach
# the return value of the enclosing ncmpi_* call on that rank.  exit 0: every injected failure reported.
W="${1:-/repo}"; HERE="$(cd "$(dirname "$0")" && pwd)"
TMP="$(mktemp -d /tmp/c11hc.XXXXXX)" || exit 2
trap 'rm -rf "$TMP"' EXIT
mpicc -g -O0 -I"$W/src/include" -o "$TMP/t" "$HERE/hcoll_nonroot.c" "$W/src/libs/.libs/libpnetcdf.a" -lm || exit 2
timeout 600 mpiexec --allow-run-as-root --oversubscribe -n 2 "$TMP/t" "$TMP/t.nc" | grep -v "^  ok"
exit ${PIPESTATUS[0]}
