/* Pre-existing observation (unmodified library), derived from demo.c:
 * the failure is injected on rank 1 (FAULT_RANK) and the file is created with the
 * hint romio_no_indep_rw=true, so that header and record-count writes are
 * collective and rank 1 takes part in them with zero-length
 * MPI_File_write_at_all calls whose return value the library never looks at.
 * Run with 2 processes.
 *
 * Original text of demo.c follows.
 * C11 demo: an MPI-IO write failure must surface as an error return.
 *
 * The program interposes MPI_File_write_at / MPI_File_write_at_all (the real
 * PMPI call is still made, so collectives stay matched) and makes ONE call on
 * rank 0 return an MPI error class.  A small scenario that updates the record
 * count in several ways (collective put, independent put + end_indep_data,
 * nonblocking put + wait_all, redef/enddef, close) is replayed once per
 * (write-call position, error class).  For each replay, rank 0 must see at
 * least one ncmpi_* call return an error.  Like an application that checks its
 * return codes, the processes agree after every call on whether anyone saw an
 * error and, if so, close the file and end the replay.
 *
 * exit 0: every injected failure was reported; non-zero: some failure was
 * turned into a success return.
 */
#include <stdio.h>
#include <stdlib.h>
#include <string.h>
#include <mpi.h>
#include <pnetcdf.h>

#define FAULT_RANK 1
static int g_rank, g_nprocs;
static MPI_Info g_info;
static int g_count;        /* number of write calls seen on the faulted rank in this replay */
static int g_target = -1;  /* position to fail, -1: none */
static int g_class;        /* MPI error class to return */
static int g_fired;
static MPI_Offset g_fired_off;
static int g_fired_len;
static const char *g_fired_fn;

static int inject(const char *fn, MPI_Offset off, int len)
{
    if (g_rank != FAULT_RANK) return 0;
    if (g_count++ == g_target) {
        g_fired = 1; g_fired_off = off; g_fired_len = len; g_fired_fn = fn;
        return 1;
    }
    return 0;
}

int MPI_File_write_at(MPI_File fh, MPI_Offset off, const void *buf, int count,
                      MPI_Datatype dt, MPI_Status *st)
{
    int r = PMPI_File_write_at(fh, off, buf, count, dt, st);
    if (inject("MPI_File_write_at", off, count)) return g_class;
    return r;
}

int MPI_File_write_at_all(MPI_File fh, MPI_Offset off, const void *buf,
                          int count, MPI_Datatype dt, MPI_Status *st)
{
    int r = PMPI_File_write_at_all(fh, off, buf, count, dt, st);
    if (inject("MPI_File_write_at_all", off, count)) return g_class;
    return r;
}

static int  g_nerr;
static char g_first[128];

/* Like an application that checks its return codes: after every call the
 * processes agree on whether anyone saw an error; if so they all give up and
 * close the file.  (The agreement also shows a process left behind inside a
 * call: the others would wait here until run.sh's timeout.) */
static int anyone_failed(void)
{
    int mine = (g_nerr > 0), any = 0;
    MPI_Allreduce(&mine, &any, 1, MPI_INT, MPI_MAX, MPI_COMM_WORLD);
    return any;
}

#define NOTE(x) do { int e_ = (x);                                          \
    if (e_ != NC_NOERR) {                                                   \
        if (g_nerr++ == 0)                                                  \
            snprintf(g_first, sizeof(g_first), "%s -> %s", #x,              \
                     ncmpi_strerrno(e_));                                   \
    } } while (0)

#define CALL(x) do { NOTE(x); if (anyone_failed()) goto done; } while (0)

#define NX 4

static void scenario(const char *path)
{
    int ncid, dim_t, dim_x, dimids[2], var_r, var_f, i, req, st, opened = 0;
    int buf[NX];
    MPI_Offset start[2], count[2];

    g_nerr = 0; g_first[0] = '\0';
    for (i = 0; i < NX; i++) buf[i] = 100 * g_rank + i;

    CALL(ncmpi_create(MPI_COMM_WORLD, path, NC_CLOBBER, g_info, &ncid));
    opened = 1;
    CALL(ncmpi_def_dim(ncid, "t", NC_UNLIMITED, &dim_t));
    CALL(ncmpi_def_dim(ncid, "x", (MPI_Offset)NX * g_nprocs, &dim_x));
    dimids[0] = dim_t; dimids[1] = dim_x;
    CALL(ncmpi_def_var(ncid, "r", NC_INT, 2, dimids, &var_r));
    CALL(ncmpi_def_var(ncid, "f", NC_INT, 1, &dimids[1], &var_f));
    CALL(ncmpi_enddef(ncid));

    /* fixed-size variable, collective */
    start[0] = (MPI_Offset)NX * g_rank; count[0] = NX;
    CALL(ncmpi_put_vara_int_all(ncid, var_f, start, count, buf));

    /* record variable, collective: record count grows 0 -> 1 */
    start[0] = 0; start[1] = (MPI_Offset)NX * g_rank; count[0] = 1; count[1] = NX;
    CALL(ncmpi_put_vara_int_all(ncid, var_r, start, count, buf));

    /* independent: record count grows to 3, written at end_indep_data */
    CALL(ncmpi_begin_indep_data(ncid));
    start[0] = 2;
    CALL(ncmpi_put_vara_int(ncid, var_r, start, count, buf));
    CALL(ncmpi_end_indep_data(ncid));

    /* nonblocking: record count grows to 5 at wait_all */
    start[0] = 4;
    CALL(ncmpi_iput_vara_int(ncid, var_r, start, count, buf, &req));
    st = NC_NOERR;
    CALL(ncmpi_wait_all(ncid, 1, &req, &st));
    CALL(st);

    /* redefinition: header is rewritten */
    CALL(ncmpi_redef(ncid));
    CALL(ncmpi_put_att_text(ncid, NC_GLOBAL, "note", 5, "hello"));
    CALL(ncmpi_enddef(ncid));

    /* collective again: record count grows to 7 */
    start[0] = 6;
    CALL(ncmpi_put_vara_int_all(ncid, var_r, start, count, buf));

done:
    if (opened) NOTE(ncmpi_close(ncid));
}

int main(int argc, char **argv)
{
    static const struct { int cls; const char *name; } classes[] = {
        { MPI_ERR_IO,       "MPI_ERR_IO"       },
        { MPI_ERR_NO_SPACE, "MPI_ERR_NO_SPACE" },
        { MPI_ERR_QUOTA,    "MPI_ERR_QUOTA"    },
        { MPI_ERR_ACCESS,   "MPI_ERR_ACCESS"   },
    };
    const int nclasses = (int)(sizeof(classes) / sizeof(classes[0]));
    const char *path = (argc > 1) ? argv[1] : "c11_demo.nc";
    int nwrites, p, c, bad = 0, checked = 0;

    MPI_Init(&argc, &argv);
    MPI_Comm_rank(MPI_COMM_WORLD, &g_rank);
    MPI_Comm_size(MPI_COMM_WORLD, &g_nprocs);
    if (g_nprocs < 2) { printf("needs 2 processes\n"); MPI_Finalize(); return 2; }
    MPI_Info_create(&g_info);
    MPI_Info_set(g_info, "romio_no_indep_rw", "true");

    /* dry run: no failure, count the write calls made by rank 0 */
    g_target = -1; g_count = 0; g_fired = 0;
    scenario(path);
    nwrites = g_count;
    MPI_Bcast(&nwrites, 1, MPI_INT, FAULT_RANK, MPI_COMM_WORLD);
    if (g_rank == FAULT_RANK) {
        printf("nprocs=%d: fault-free run: %d MPI write calls on the faulted rank, %d error returns%s%s\n",
               g_nprocs, nwrites, g_nerr, g_nerr ? ": " : "", g_first);
        if (g_nerr) bad++;
    }

    for (p = 0; p < nwrites; p++) {
        for (c = 0; c < nclasses; c++) {
            int verdict = 0;
            g_target = p; g_class = classes[c].cls; g_count = 0; g_fired = 0;
            scenario(path);
            g_target = -1;
            if (g_rank == FAULT_RANK) {
                if (!g_fired) {
                    printf("  pos %2d %-16s not reached\n", p, classes[c].name);
                } else {
                    checked++;
                    if (g_nerr == 0) {
                        verdict = 1;
                        printf("  VIOLATION pos %2d %-16s %s(offset=%lld, count=%d) failed on the faulted rank, "
                               "every ncmpi_* call returned NC_NOERR\n",
                               p, classes[c].name, g_fired_fn,
                               (long long)g_fired_off, g_fired_len);
                    } else {
                        printf("  ok        pos %2d %-16s %s(offset=%lld, count=%d): %s\n",
                               p, classes[c].name, g_fired_fn,
                               (long long)g_fired_off, g_fired_len, g_first);
                    }
                }
                fflush(stdout);
            }
            MPI_Bcast(&verdict, 1, MPI_INT, FAULT_RANK, MPI_COMM_WORLD);
            bad += verdict;
        }
    }

    if (g_rank == FAULT_RANK) {
        MPI_File_delete((char *)path, MPI_INFO_NULL);
        printf("nprocs=%d: %d injected failures checked, %d silently dropped -> property %s\n",
               g_nprocs, checked, bad, bad ? "VIOLATED" : "holds");
    }
    MPI_Bcast(&bad, 1, MPI_INT, FAULT_RANK, MPI_COMM_WORLD);
    MPI_Finalize();
    return bad ? 1 : 0;
}
