#include <stdio.h>
#include <stdlib.h>
#include <string.h>
#include <mpi.h>
#include <pnetcdf.h>

/* ---- fault-injection interposers (same block is pasted in every replay) ----
 * The replay is linked statically against libpnetcdf.a, so the library's calls
 * to MPI_File_{write,read}_at[_all] resolve to the functions below.  They
 * forward to PMPI_ unless armed; when armed the N-th matching call returns the
 * chosen MPI error class WITHOUT doing any I/O. */
enum { F_WRITE_AT = 1, F_WRITE_AT_ALL = 2, F_READ_AT = 4, F_READ_AT_ALL = 8 };
static struct {
    int        fns;     /* mask of functions to hit (0 = disarmed)       */
    MPI_Offset off;     /* only calls with this offset (-1 = any offset) */
    int        skip;    /* let this many matching calls through first    */
    int        eclass;  /* MPI error class to return                     */
    int        fired;   /* number of injected failures so far            */
    int        trace;   /* print every intercepted call                  */
} inj = { 0, -1, 0, 0, 0, 0 };

static const char *ecname(int c) {
    if (c == MPI_ERR_NO_SPACE)  return "MPI_ERR_NO_SPACE";
    if (c == MPI_ERR_QUOTA)     return "MPI_ERR_QUOTA";
    if (c == MPI_ERR_IO)        return "MPI_ERR_IO";
    if (c == MPI_ERR_ACCESS)    return "MPI_ERR_ACCESS";
    if (c == MPI_ERR_READ_ONLY) return "MPI_ERR_READ_ONLY";
    return "MPI_ERR_?";
}
static void arm(int fns, MPI_Offset off, int skip, int eclass) {
    inj.fns = fns; inj.off = off; inj.skip = skip; inj.eclass = eclass; inj.fired = 0;
}
static void disarm(void) { inj.fns = 0; }
/* returns 1 when this call must fail */
static int hook(int fn, const char *name, MPI_Offset off, int count) {
    int hit = 0;
    if ((inj.fns & fn) && !inj.fired && (inj.off < 0 || inj.off == off)) {
        if (inj.skip > 0) inj.skip--;
        else { hit = 1; inj.fired++; }
    }
    if (inj.trace || hit)
        printf("    [mpi] %s(offset=%lld, count=%d) -> %s%s\n", name, (long long)off, count,
               hit ? "INJECTED FAILURE, no I/O done, returning " : "forwarded to PMPI",
               hit ? ecname(inj.eclass) : "");
    return hit;
}
int MPI_File_write_at(MPI_File fh, MPI_Offset off, const void *buf, int count,
                      MPI_Datatype t, MPI_Status *st) {
    if (hook(F_WRITE_AT, "MPI_File_write_at", off, count)) return inj.eclass;
    return PMPI_File_write_at(fh, off, buf, count, t, st);
}
int MPI_File_write_at_all(MPI_File fh, MPI_Offset off, const void *buf, int count,
                          MPI_Datatype t, MPI_Status *st) {
    if (hook(F_WRITE_AT_ALL, "MPI_File_write_at_all", off, count)) return inj.eclass;
    return PMPI_File_write_at_all(fh, off, buf, count, t, st);
}
int MPI_File_read_at(MPI_File fh, MPI_Offset off, void *buf, int count,
                     MPI_Datatype t, MPI_Status *st) {
    if (hook(F_READ_AT, "MPI_File_read_at", off, count)) return inj.eclass;
    return PMPI_File_read_at(fh, off, buf, count, t, st);
}
int MPI_File_read_at_all(MPI_File fh, MPI_Offset off, void *buf, int count,
                         MPI_Datatype t, MPI_Status *st) {
    if (hook(F_READ_AT_ALL, "MPI_File_read_at_all", off, count)) return inj.eclass;
    return PMPI_File_read_at_all(fh, off, buf, count, t, st);
}
/* ---- end of interposers ---------------------------------------------------- */

#define CHK(call) do { int e_ = (call); if (e_ != NC_NOERR) { \
    printf("UNEXPECTED setup error line %d: %s\n", __LINE__, ncmpi_strerror(e_)); \
    MPI_Abort(MPI_COMM_WORLD, 2); } } while (0)
static const char *ncname(int e) { return e == NC_NOERR ? "NC_NOERR" : ncmpi_strerrno(e); }
/* Candidate C: ncmpio_enddef.c move_file_block() drops a failed read / write
 * (while shifting variable data because the header grew at redef+enddef)
 * unless the MPI error class maps to NC_EFILE. */

#define NX 8
static int scenario(const char *path, int which /*0=read 1=write*/, int eclass) {
    int ncid, dimid, varid, err, i, bad = 0, buf[NX], chk[NX];
    char big[4096];
    MPI_Offset off_old, off_new;

    printf("--- ncmpi_enddef (header grows, data must move) with the move-%s failing with %s\n",
           which ? "WRITE" : "READ", ecname(eclass));
    CHK(ncmpi_create(MPI_COMM_WORLD, path, NC_CLOBBER, MPI_INFO_NULL, &ncid));
    CHK(ncmpi_def_dim(ncid, "x", NX, &dimid));
    CHK(ncmpi_def_var(ncid, "v", NC_INT, 1, &dimid, &varid));
    CHK(ncmpi_enddef(ncid));
    for (i = 0; i < NX; i++) buf[i] = 1000 + i;
    CHK(ncmpi_put_var_int_all(ncid, varid, buf));
    CHK(ncmpi_inq_varoffset(ncid, varid, &off_old));

    CHK(ncmpi_redef(ncid));
    memset(big, 'a', sizeof(big));               /* 4 KiB attribute: header must grow */
    CHK(ncmpi_put_att_text(ncid, NC_GLOBAL, "big", sizeof(big), big));

    inj.trace = 1;
    if (which == 0) arm(F_READ_AT | F_READ_AT_ALL, off_old, 0, eclass);
    else            arm(F_WRITE_AT | F_WRITE_AT_ALL, -1, 0, eclass); /* 1st write in enddef = the move */
    err = ncmpi_enddef(ncid);
    disarm(); inj.trace = 0;
    CHK(ncmpi_inq_varoffset(ncid, varid, &off_new));
    printf("    variable moved from offset %lld to %lld\n", (long long)off_old, (long long)off_new);
    printf("    injected failures: %d;  ncmpi_enddef returned %d (%s)\n", inj.fired, err, ncname(err));

    if (err != NC_NOERR) {   /* error was reported: file is still in define mode; give up on it */
        ncmpi_abort(ncid);
        return inj.fired ? 0 : -1;
    }
    CHK(ncmpi_get_var_int_all(ncid, varid, chk));
    CHK(ncmpi_close(ncid));
    for (i = 0; i < NX; i++) if (chk[i] != buf[i]) bad++;
    printf("    read-back of v afterwards: %d of %d values differ from what was written (v[0]=%d, expected %d)\n",
           bad, NX, chk[0], buf[0]);
    if (!inj.fired) { printf("    injection point not reached!\n"); return -1; }
    return err == NC_NOERR;
}

int main(int argc, char **argv) {
    const char *path = argc > 1 ? argv[1] : "/tmp/replay_c11/C/x.nc";
    int dropped = 0, r;
    MPI_Init(&argc, &argv);
    setvbuf(stdout, NULL, _IONBF, 0);
    printf("== Replay C: move_file_block() error handling\n");

    r = scenario(path, 0, MPI_ERR_IO);   /* controls: NC_EFILE -> NC_EREAD / NC_EWRITE */
    printf("    control read  (class mapped to NC_EFILE): %s\n", r == 0 ? "error reported" : "DROPPED");
    if (r > 0) dropped++;
    r = scenario(path, 1, MPI_ERR_IO);
    printf("    control write (class mapped to NC_EFILE): %s\n", r == 0 ? "error reported" : "DROPPED");
    if (r > 0) dropped++;
    r = scenario(path, 0, MPI_ERR_ACCESS);   if (r > 0) dropped++;
    r = scenario(path, 1, MPI_ERR_NO_SPACE); if (r > 0) dropped++;

    printf("== RESULT C: %s (%d scenario(s) returned NC_NOERR despite failed data move)\n",
           dropped ? "DEFECT MANIFESTS - I/O error dropped" : "error reported properly", dropped);
    MPI_Finalize();
    return dropped ? 1 : 0;
}
