#!/bin/sh
# usage: run.sh [repo-path]   (repo must contain an in-tree build of libpnetcdf.a)
REPO=${1:-/tmp/replay_c11wt}
HERE=$(cd "$(dirname "$0")" && pwd)
NP=1
set -e
mpicc -g -O0 -Wall -I"$REPO/src/include" "$HERE/replay.c" "$REPO/src/libs/.libs/libpnetcdf.a" -lm -o "$HERE/replay"
set +e
timeout 60 mpiexec --allow-run-as-root --oversubscribe -n $NP "$HERE/replay" "$HERE/x.nc"
rc=$?
echo "replay exit code: $rc   (1 = I/O error was dropped, 0 = error reported properly)"
exit $rc
