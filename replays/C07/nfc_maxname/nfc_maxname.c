/* Pre-existing observation (unmodified library): the NC_MAX_NAME limit is checked on the
 * name as given (ncmpii_check_name / strlen(name) in the dispatchers), but the name that is
 * stored is the NFC-normalised one, which can be LONGER: U+0958 (3 bytes, a composition
 * exclusion) normalises to U+0915 U+093C (6 bytes).  85 x U+0958 = 255 bytes passes the
 * check and is stored as a 510-byte name, so ncmpi_inq_dimname() into the documented
 * char[NC_MAX_NAME+1] buffer would overflow.  This program uses a large buffer and just
 * reports the stored length.  exit 0: stored name <= NC_MAX_NAME; exit 1: longer. */
#include <stdio.h>
#include <string.h>
#include <mpi.h>
#include <pnetcdf.h>
int main(int argc, char **argv)
{
    int i, err, ncid, dimid, varid, bad = 0;
    char in[NC_MAX_NAME + 1], out[8 * NC_MAX_NAME];
    const char *path = (argc > 1) ? argv[1] : "c07_nfc.nc";
    MPI_Init(&argc, &argv);
    for (i = 0; i < 85; i++) memcpy(in + 3 * i, "\xE0\xA5\x98", 3);
    in[255] = 0;
    err = ncmpi_create(MPI_COMM_WORLD, path, NC_CLOBBER, MPI_INFO_NULL, &ncid);
    if (err) { printf("create: %s\n", ncmpi_strerror(err)); MPI_Abort(MPI_COMM_WORLD, 2); }
    err = ncmpi_def_dim(ncid, in, 3, &dimid);
    printf("def_dim(name of %zu bytes, NC_MAX_NAME=%d) -> %s\n", strlen(in), NC_MAX_NAME, ncmpi_strerrno(err));
    if (err == NC_NOERR) {
        memset(out, 0, sizeof(out));
        err = ncmpi_inq_dimname(ncid, dimid, out);
        printf("inq_dimname -> %s, stored name has %zu bytes\n", ncmpi_strerrno(err), strlen(out));
        if (strlen(out) > NC_MAX_NAME) bad = 1;
        err = ncmpi_def_var(ncid, in, NC_INT, 1, &dimid, &varid);
        if (err == NC_NOERR) {
            memset(out, 0, sizeof(out));
            ncmpi_inq_varname(ncid, varid, out);
            printf("def_var same name -> stored name has %zu bytes\n", strlen(out));
        }
    }
    ncmpi_close(ncid);
    if (bad) printf("stored name exceeds NC_MAX_NAME: a char[NC_MAX_NAME+1] caller buffer overflows\n");
    MPI_Finalize();
    return bad;
}
