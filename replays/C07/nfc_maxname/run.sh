#!/bin/bash
# usage: run.sh [built pnetcdf tree]
# C07 (names after NFC normalisation; same content after close and reopen): a 255-byte name of 85 x U+0958 passes the
# NC_MAX_NAME check, is stored NFC-normalised with 510 bytes, and the file can then not be reopened by the library
# (NC_EMAXNAME).  nfc_maxname.c was written by the sub-agent that produced seeded change C07_i.
# exit 0: the over-long name is refused at definition (NC_EMAXNAME); 1: it is stored
W="${1:-/repo}"; HERE="$(cd "$(dirname "$0")" && pwd)"
TMP="$(mktemp -d /tmp/c07nfc.XXXXXX)" || exit 2
trap 'rm -rf "$TMP"' EXIT
mpicc -g -O0 -I"$W/src/include" -o "$TMP/t" "$HERE/nfc_maxname.c" "$W/src/libs/.libs/libpnetcdf.a" -lm || exit 2
mpicc -g -O0 -I"$W/src/include" -o "$TMP/r" "$HERE/reopen.c" "$W/src/libs/.libs/libpnetcdf.a" -lm || exit 2
timeout 60 mpiexec --allow-run-as-root --oversubscribe -n 1 "$TMP/t" "$TMP/x.nc" 2>&1 | grep "def_dim\|stored\|inq_"; r=${PIPESTATUS[0]}
timeout 60 mpiexec --allow-run-as-root --oversubscribe -n 1 "$TMP/r" "$TMP/x.nc" 2>&1 | grep reopen
exit $r
