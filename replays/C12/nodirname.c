/* pre-existing: nc_burst_buf=enable WITHOUT nc_burst_buf_dirname.  doc/README.burst_buffering.md says the
 * log then goes to the directory of the NetCDF file; ncbbio_log_create() instead fails.
 * usage: pre_nodirname <scratch dir>; exit 0 = works as documented, 1 = fails */
#include <stdio.h>
#include <mpi.h>
#include <pnetcdf.h>
int main(int argc, char **argv) {
    char path[1024]; int ncid, dimid, varid, err, bad = 0, v = 42; MPI_Info info; MPI_Offset st = 0;
    MPI_Init(&argc, &argv);
    snprintf(path, sizeof(path), "%s/nodir.nc", argc > 1 ? argv[1] : ".");
    MPI_Info_create(&info); MPI_Info_set(info, "nc_burst_buf", "enable");
    err = ncmpi_create(MPI_COMM_WORLD, path, NC_CLOBBER, info, &ncid); printf("create : %s\n", ncmpi_strerror(err));
    err = ncmpi_def_dim(ncid, "x", 4, &dimid);
    err = ncmpi_def_var(ncid, "v", NC_INT, 1, &dimid, &varid);
    err = ncmpi_enddef(ncid); printf("enddef : %s\n", ncmpi_strerror(err)); if (err != NC_NOERR) bad = 1;
    if (!bad) { err = ncmpi_put_var1_int_all(ncid, varid, &st, &v); printf("put    : %s\n", ncmpi_strerror(err)); if (err) bad = 1; }
    err = ncmpi_close(ncid); printf("close  : %s\n", ncmpi_strerror(err));
    MPI_Info_free(&info); MPI_Finalize(); return bad;
}
