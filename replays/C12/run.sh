#!/bin/bash
# usage: run.sh <pnetcdf tree configured with --enable-burst-buffering and built>
#   (./configure 'CFLAGS= -Wno-error' 'CXXFLAGS= -Wno-error' --enable-burst-buffering; the baseline build does not compile the
#    burst-buffer driver, so these replays need such a tree - they were run in a scratch worktree, 79 tests pass there)
# C12 "burst-buffer driver is transparent":
#   nodirname.c        without nc_burst_buf_dirname the documented default (the file's directory) must work: enddef failed
#   open_recdim.c      inq_dimlen of the record dimension on an OPENED file must count the records still in the log
#   cancel_nullstat.c  ncmpi_cancel(put + get requests, statuses = NULL) must not crash (argument "bb" selects the driver)
#   varn_logfail.c    a put_varn whose log write fails (log capped with RLIMIT_FSIZE) must report it like put_vara does
# (the first three programs were written by the sub-agent that produced seeded change C12_h)
W="${1:?tree}"; HERE="$(cd "$(dirname "$0")" && pwd)"
TMP="$(mktemp -d /tmp/c12r.XXXXXX)" || exit 2
trap 'rm -rf "$TMP"' EXIT
rc=0
for n in nodirname open_recdim cancel_nullstat varn_logfail; do
  mpicc -g -O0 -I"$W/src/include" -o "$TMP/$n" "$HERE/$n.c" "$W/src/libs/.libs/libpnetcdf.a" -lm || exit 2
  arg=""; [ $n = cancel_nullstat ] && arg="bb"
  ( cd "$TMP" && timeout 60 mpiexec --allow-run-as-root --oversubscribe -n 1 "./$n" "$TMP" $arg > "$n.out" 2>&1 ); r=$?
  grep -v "^IO error\|^--\|^$\|mpiexec\|Primary\|Process name\|Exit code\|a non-zero\|the job\|^\[vm\|Warning: Log" "$TMP/$n.out" | tail -3
  echo "== $n: exit $r"; [ $r -eq 0 ] || rc=1
done
exit $rc
