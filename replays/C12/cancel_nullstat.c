/* pre-existing: ncbbio_cancel() passes `statuses + nput` to the ncmpio driver even when statuses == NULL, so
 * cancelling a mix of put and get requests with a NULL status array makes ncmpio write through a bogus pointer.
 * usage: pre_cancel_nullstat <scratch dir> [bb]; exit 0 = fine, crash otherwise */
#include <stdio.h>
#include <string.h>
#include <mpi.h>
#include <pnetcdf.h>
int main(int argc, char **argv) {
    char path[1024]; const char *dir = argc > 1 ? argv[1] : "."; int bb = argc > 2;
    int ncid, dimid, varid, err, reqs[2], w[4] = {1,2,3,4}, r[4]; MPI_Info info; MPI_Offset st = 0, ct = 4;
    MPI_Init(&argc, &argv);
    snprintf(path, sizeof(path), "%s/cnull.nc", dir);
    MPI_Info_create(&info);
    if (bb) { MPI_Info_set(info, "nc_burst_buf", "enable"); MPI_Info_set(info, "nc_burst_buf_dirname", dir);
              MPI_Info_set(info, "nc_burst_buf_overwrite", "enable"); }
    ncmpi_create(MPI_COMM_WORLD, path, NC_CLOBBER, info, &ncid);
    ncmpi_def_dim(ncid, "x", 8, &dimid); ncmpi_def_var(ncid, "v", NC_INT, 1, &dimid, &varid); ncmpi_enddef(ncid);
    err = ncmpi_iput_vara_int(ncid, varid, &st, &ct, w, &reqs[0]); if (err) printf("iput %s\n", ncmpi_strerror(err));
    st = 4;
    err = ncmpi_iget_vara_int(ncid, varid, &st, &ct, r, &reqs[1]); if (err) printf("iget %s\n", ncmpi_strerror(err));
    err = ncmpi_cancel(ncid, 2, reqs, NULL);
    printf("%s driver: cancel(2 reqs, statuses=NULL) -> %s\n", bb ? "burst-buffer" : "default", ncmpi_strerror(err));
    ncmpi_close(ncid); MPI_Info_free(&info); MPI_Finalize(); return err != NC_NOERR;
}
