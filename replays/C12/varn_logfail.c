/* burst-buffer driver: a put_varn whose log write fails must report the failure, like put_vara does.
 * The data log is capped with RLIMIT_FSIZE (SIGXFSZ ignored), so write(2) on the log fails with EFBIG once the log would
 * grow past the cap; nothing else is written before the flush.  ncbbio_put_varn() dropped the result of
 * ncbbio_log_put_varn() ("return status" of a variable that is never assigned) and answered NC_NOERR for data that
 * was neither logged nor written.
 * usage: varn_logfail <scratch dir>; exit 0 = both calls report the failure, 1 = put_varn answers NC_NOERR */
#include <stdio.h>
#include <stdlib.h>
#include <signal.h>
#include <sys/resource.h>
#include <mpi.h>
#include <pnetcdf.h>
#define N (1 << 20)
int main(int argc, char **argv) {
    char path[1024]; int ncid, dimid, v1, v2, err, e_vara, e_varn, bad = 0; MPI_Info info;
    MPI_Offset st[1] = {0}, ct[1] = {N}, *sts[1], *cts[1]; struct rlimit rl;
    signed char *buf = calloc(N, 1);
    MPI_Init(&argc, &argv);
    snprintf(path, sizeof(path), "%s/logfail.nc", argc > 1 ? argv[1] : ".");
    MPI_Info_create(&info); MPI_Info_set(info, "nc_burst_buf", "enable");
    MPI_Info_set(info, "nc_burst_buf_dirname", argc > 1 ? argv[1] : ".");
    err = ncmpi_create(MPI_COMM_WORLD, path, NC_CLOBBER, info, &ncid); if (err) { printf("create: %s\n", ncmpi_strerror(err)); return 2; }
    ncmpi_def_dim(ncid, "x", N, &dimid);
    ncmpi_def_var(ncid, "a", NC_BYTE, 1, &dimid, &v1);
    ncmpi_def_var(ncid, "b", NC_BYTE, 1, &dimid, &v2);
    err = ncmpi_enddef(ncid); if (err) { printf("enddef: %s\n", ncmpi_strerror(err)); return 2; }
    signal(SIGXFSZ, SIG_IGN);
    rl.rlim_cur = rl.rlim_max = 65536; setrlimit(RLIMIT_FSIZE, &rl);
    e_vara = ncmpi_put_vara_schar_all(ncid, v1, st, ct, buf);
    printf("put_vara with the log write failing: %s\n", ncmpi_strerror(e_vara));
    sts[0] = st; cts[0] = ct;
    e_varn = ncmpi_put_varn_schar_all(ncid, v2, 1, sts, cts, buf);
    printf("put_varn with the log write failing: %s\n", ncmpi_strerror(e_varn));
    if (e_vara == NC_NOERR) { printf("(the cap did not make the log write fail: replay inconclusive)\n"); bad = 2; }
    else if (e_varn == NC_NOERR) { printf("FAIL: put_varn reports success for data it could not log\n"); bad = 1; }
    ncmpi_close(ncid);
    MPI_Info_free(&info); free(buf); MPI_Finalize(); return bad;
}
