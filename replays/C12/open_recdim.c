/* pre-existing: record count of pending (logged) writes is not visible through ncmpi_inq_dimlen() when the file
 * was OPENED (not created) with the burst-buffer driver: ncbbio_open() leaves recdimid = -1 and nothing sets it.
 * usage: pre_open_recdim <scratch dir>; exit 0 = both drivers agree, 1 = they differ */
#include <stdio.h>
#include <mpi.h>
#include <pnetcdf.h>
static MPI_Offset doit(const char *path, const char *dir, int bb) {
    int ncid, dimid[2], varid, buf[4] = {1,2,3,4}; MPI_Offset start[2], count[2], len = -1; MPI_Info info;
    ncmpi_create(MPI_COMM_WORLD, path, NC_CLOBBER, MPI_INFO_NULL, &ncid);
    ncmpi_def_dim(ncid, "t", NC_UNLIMITED, &dimid[0]); ncmpi_def_dim(ncid, "x", 4, &dimid[1]);
    ncmpi_def_var(ncid, "r", NC_INT, 2, dimid, &varid); ncmpi_enddef(ncid);
    start[0] = 1; start[1] = 0; count[0] = 1; count[1] = 4;
    ncmpi_put_vara_int_all(ncid, varid, start, count, buf);      /* 2 records */
    ncmpi_close(ncid);
    MPI_Info_create(&info);
    if (bb) { MPI_Info_set(info, "nc_burst_buf", "enable"); MPI_Info_set(info, "nc_burst_buf_dirname", dir);
              MPI_Info_set(info, "nc_burst_buf_overwrite", "enable"); }
    ncmpi_open(MPI_COMM_WORLD, path, NC_WRITE, info, &ncid);
    start[0] = 4;
    ncmpi_put_vara_int_all(ncid, varid, start, count, buf);      /* now 5 records */
    ncmpi_inq_dimlen(ncid, dimid[0], &len);
    ncmpi_close(ncid); MPI_Info_free(&info);
    return len;
}
int main(int argc, char **argv) {
    char p[1024]; const char *dir = argc > 1 ? argv[1] : "."; MPI_Offset a, b;
    MPI_Init(&argc, &argv);
    snprintf(p, sizeof(p), "%s/recdim.nc", dir);
    a = doit(p, dir, 0); b = doit(p, dir, 1);
    printf("inq_dimlen(t) right after put of record 4: default driver %lld, burst-buffer driver %lld\n", (long long)a, (long long)b);
    MPI_Finalize(); return a != b;
}
