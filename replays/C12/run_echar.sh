#!/bin/bash
# usage: run_echar.sh <pnetcdf tree configured with --enable-burst-buffering and built>
# C12 / C09: through the burst-buffer driver a flexible put with a numeric buffer type on an NC_CHAR variable (or MPI_CHAR on
# a numeric variable) must answer NC_ECHAR like the default driver.  ncbbio_put_var / ncbbio_put_varn logged the request with
# the mismatched element type and answered NC_NOERR; the replay of the log at close then ran into the conversion layer's
# assertion and aborted the program (leaving the log files behind).  Uses replays/C09/echar_flexible/echar_flexible.c, put cases.
W="${1:?tree}"; HERE="$(cd "$(dirname "$0")" && pwd)"
TMP="$(mktemp -d /tmp/c12echar.XXXXXX)" || exit 2
trap 'rm -rf "$TMP"' EXIT
mpicc -g -O0 -I"$W/src/include" -o "$TMP/t" "$HERE/../C09/echar_flexible/echar_flexible.c" "$W/src/libs/.libs/libpnetcdf.a" -lm || exit 2
rc=0
for k in 0 1 4 5 8 10; do
  rm -f "$TMP"/x.nc* 
  out=$(cd "$TMP" && PNETCDF_HINTS="nc_burst_buf=enable;nc_burst_buf_dirname=$TMP" timeout 60 mpiexec --allow-run-as-root --oversubscribe -n 1 ./t "$TMP/x.nc" $k 2>&1); r=$?
  echo "$out" | grep "^case\|Assertion" | head -2
  [ $r -eq 0 ] || rc=1
done
[ $rc -eq 0 ] && echo "holds: every flexible text/numeric put through the burst-buffer driver is NC_ECHAR" || echo "VIOLATED"
exit $rc
