/* attached buffer: bput A (64 bytes), bput B (64 bytes), wait(A): the usage reported must be the bytes of the puts still
 * pending (64) */
#include <stdio.h>
#include <stdlib.h>
#include <mpi.h>
#include <pnetcdf.h>
#define CK(e) do { int _e = (e); if (_e != NC_NOERR) { printf("line %d: %s\n", __LINE__, ncmpi_strerror(_e)); exit(2); } } while (0)
int main(int argc, char **argv)
{
    int ncid, dimid, va, vb, ida, idb, st, buf[16] = {0};
    MPI_Offset usage;
    MPI_Init(&argc, &argv);
    CK(ncmpi_create(MPI_COMM_WORLD, argv[1], NC_CLOBBER, MPI_INFO_NULL, &ncid));
    CK(ncmpi_def_dim(ncid, "x", 16, &dimid));
    CK(ncmpi_def_var(ncid, "a", NC_INT, 1, &dimid, &va));
    CK(ncmpi_def_var(ncid, "b", NC_INT, 1, &dimid, &vb));
    CK(ncmpi_enddef(ncid));
    CK(ncmpi_buffer_attach(ncid, 256));
    CK(ncmpi_bput_var_int(ncid, va, buf, &ida));
    CK(ncmpi_bput_var_int(ncid, vb, buf, &idb));
    CK(ncmpi_inq_buffer_usage(ncid, &usage)); printf("after two bputs: usage %lld (128 expected)\n", (long long)usage);
    CK(ncmpi_wait_all(ncid, 1, &ida, &st));
    CK(ncmpi_inq_buffer_usage(ncid, &usage)); printf("after wait(A):   usage %lld (64 expected)\n", (long long)usage);
    st = (usage == 64) ? 0 : 1;
    CK(ncmpi_wait_all(ncid, 1, &idb, &ida));
    CK(ncmpi_inq_buffer_usage(ncid, &usage)); printf("after wait(B):   usage %lld (0 expected)\n", (long long)usage);
    CK(ncmpi_buffer_detach(ncid));
    CK(ncmpi_close(ncid));
    MPI_Finalize();
    return st;
}
