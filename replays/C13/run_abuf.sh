#!/bin/sh
R=${1:-/repo}; H=$(cd "$(dirname "$0")" && pwd); T=$(mktemp -d /tmp/abuf.XXXX)
mpicc -g -I$R/src/include $H/abuf_out_of_order.c $R/src/libs/.libs/libpnetcdf.a -lm -o $T/prog || exit 2
mpiexec --allow-run-as-root -n 1 $T/prog $T/f.nc 2>&1 | grep "usage"
mpiexec --allow-run-as-root -n 1 $T/prog $T/f.nc >/dev/null 2>&1; rc=$?
rm -rf $T; echo "exit $rc (0 = usage equals the bytes of pending buffered puts)"; exit $rc
