#!/bin/bash
# usage: run.sh [pnetcdf tree]   exit 0: no undefined arithmetic on the malformed header, 1: UBSan reports an overflow
# Builds a scratch copy of the tree in which ncmpio_header_get.c is compiled with -fsanitize=signed-integer-overflow.
W="${1:-/repo}"; HERE="$(cd "$(dirname "$0")" && pwd)"
TMP="$(mktemp -d /tmp/c19bo.XXXXXX)" || exit 2
trap 'rm -rf "$TMP"' EXIT
rsync -a --exclude .git "$W"/ "$TMP/tree/" || exit 2
( cd "$TMP/tree/src/drivers/ncmpio" && touch ncmpio_header_get.c &&
  make CFLAGS="-g -O0 -fsanitize=signed-integer-overflow" ncmpio_header_get.lo >/dev/null 2>&1 && make >/dev/null 2>&1 ) || exit 2
make -C "$TMP/tree/src/libs" >/dev/null 2>&1 || exit 2
mpicc -g -O0 -fsanitize=signed-integer-overflow -I"$TMP/tree/src/include" -o "$TMP/t" "$HERE/open_big_begin.c" "$TMP/tree/src/libs/.libs/libpnetcdf.a" -lm || exit 2
out=$(timeout 120 mpiexec --allow-run-as-root --oversubscribe -n 1 "$TMP/t" "$TMP/bad.nc" 2>&1)
echo "$out" | grep "runtime error\|ncmpi_open"
if echo "$out" | grep -q "runtime error"; then echo "C19 VIOLATED: undefined signed overflow while opening a malformed file"; exit 1; fi
echo "C19 holds"; exit 0
