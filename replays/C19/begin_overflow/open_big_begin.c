/* C19: "No library call - on ... any malformed input file - ... performs ... undefined operations (as defined by the C
 * standard and reported by the ... undefined-behaviour sanitizers)".  A CDF-5 header whose only variable announces the
 * begin offset 2^63-8.  compute_var_shape() adds the variable's length to it (and sums record sizes) before anything
 * has validated the offset: signed 64-bit overflow.  Needs ncmpio_header_get.c compiled with
 * -fsanitize=signed-integer-overflow (run.sh does that in a scratch copy); without a sanitizer the wrapped value happens
 * to fail the later consistency test and the open returns NC_ENOTNC. */
#include <stdio.h>
#include <string.h>
#include <mpi.h>
#include <pnetcdf.h>
static unsigned char *p;
static void w32(unsigned v){*p++=v>>24;*p++=v>>16;*p++=v>>8;*p++=v;}
static void w64(unsigned long long v){w32((unsigned)(v>>32));w32((unsigned)v);}
int main(int argc,char**argv){
  int ncid,err; unsigned char buf[4096]; MPI_Init(&argc,&argv);
  memset(buf,0,sizeof buf); p=buf;
  memcpy(p,"CDF\5",4);p+=4; w64(0);                                   /* magic, numrecs */
  w32(10);w64(1); w64(1);*p++='x';p+=3; w64(4);                       /* dim_list: x = 4 */
  w32(0);w64(0);                                                      /* gatt_list ABSENT */
  w32(11);w64(1);                                                     /* var_list: 1 variable */
  w64(1);*p++='v';p+=3; w64(1); w64(0); w32(0);w64(0); w32(4); w64(16); w64(0x7ffffffffffffff8ULL);  /* name, ndims, dimid, vatt ABSENT, NC_INT, vsize, begin */
  { FILE*f=fopen(argv[1],"wb");fwrite(buf,1,4096,f);fclose(f);}
  err=ncmpi_open(MPI_COMM_WORLD,argv[1],NC_NOWRITE,MPI_INFO_NULL,&ncid);
  printf("ncmpi_open -> %d (%s)\n",err,ncmpi_strerror(err));
  if(err==NC_NOERR)ncmpi_close(ncid);
  MPI_Finalize(); return 0;}
