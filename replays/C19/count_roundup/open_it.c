#include <stdio.h>
#include <mpi.h>
#include <pnetcdf.h>
int main(int argc, char **argv) { int ncid, err; MPI_Init(&argc, &argv);
  err = ncmpi_open(MPI_COMM_WORLD, argv[1], NC_NOWRITE, MPI_INFO_NULL, &ncid); printf("ncmpi_open(%s) -> %s\n", argv[1], ncmpi_strerrno(err));
  if (err == NC_NOERR) ncmpi_close(ncid); MPI_Finalize(); return 0; }
