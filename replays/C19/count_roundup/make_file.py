#!/usr/bin/env python3
"""a 156-byte CDF-1 'file' whose variable count word is 0x7FFFFFFF (and, second file, whose dimension count is)"""
import struct, sys, os
out = sys.argv[1]
hdr = b"CDF\x01" + struct.pack(">I", 0) + struct.pack(">II", 0, 0) + struct.pack(">II", 0, 0) + struct.pack(">II", 11, 0x7FFFFFFF) + b"\0" * 124
open(os.path.join(out, "nvars.nc"), "wb").write(hdr)
hdr = b"CDF\x01" + struct.pack(">I", 0) + struct.pack(">II", 10, 0x7FFFFFFF) + b"\0" * 140
open(os.path.join(out, "ndims.nc"), "wb").write(hdr)
