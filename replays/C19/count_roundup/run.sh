#!/bin/bash
# usage: run.sh [pnetcdf tree]   exit 0: no undefined arithmetic on the malformed header, 1: UBSan reports an overflow
# C19: a header whose element count word (dimensions, attributes, variables) is 2^31-1 passes the only bound made on it
# (NC_MAX_DIMS / NC_MAX_ATTRS / NC_MAX_VARS are NC_MAX_INT); the array decoders then round it up to a multiple of 64 in `int`:
# (n + 63) overflows (undefined; in practice a negative count turned into a huge allocation size, NC_ENOMEM).
# Builds a scratch copy of the tree in which ncmpio_header_get.c is compiled with -fsanitize=signed-integer-overflow.
W="${1:-/repo}"; HERE="$(cd "$(dirname "$0")" && pwd)"
TMP="$(mktemp -d /tmp/c19cr.XXXXXX)" || exit 2
trap 'rm -rf "$TMP"' EXIT
rsync -a --exclude .git "$W"/ "$TMP/tree/" || exit 2
( cd "$TMP/tree/src/drivers/ncmpio" && touch ncmpio_header_get.c &&
  make CFLAGS="-g -O0 -fsanitize=signed-integer-overflow" ncmpio_header_get.lo >/dev/null 2>&1 && make >/dev/null 2>&1 ) || exit 2
make -C "$TMP/tree/src/libs" >/dev/null 2>&1 || exit 2
python3 "$HERE/make_file.py" "$TMP" || exit 2
mpicc -g -O0 -fsanitize=signed-integer-overflow -I"$TMP/tree/src/include" -o "$TMP/t" "$HERE/open_it.c" "$TMP/tree/src/libs/.libs/libpnetcdf.a" -lm || exit 2
rc=0
for f in nvars.nc ndims.nc; do
  out=$(cd "$TMP" && ulimit -v 8000000; timeout 120 mpiexec --allow-run-as-root --oversubscribe -n 1 "$TMP/t" "$TMP/$f" 2>&1)
  echo "$out" | grep "runtime error\|ncmpi_open" | cut -c1-200
  echo "$out" | grep -q "runtime error" && rc=1
done
[ $rc -eq 0 ] && echo "C19 holds" || echo "C19 VIOLATED: undefined signed overflow while opening a malformed file"
exit $rc
