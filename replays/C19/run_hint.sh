#!/bin/sh
# zero hash-size hints: out-of-bounds heap access in ncmpio_hash_insert (shown with valgrind memcheck)
R=${1:-/repo}; H=$(cd "$(dirname "$0")" && pwd)
mpicc -g -I$R/src/include $H/hash_hint_zero.c $R/src/libs/.libs/libpnetcdf.a -lm -o /tmp/hh.$$ || exit 2
timeout 600 mpiexec --allow-run-as-root -n 1 valgrind -q --error-limit=no /tmp/hh.$$ /tmp/hh.$$.nc > /tmp/hh.$$.log 2>&1
n=$(grep -c 'Invalid \(read\|write\)' /tmp/hh.$$.log); grep -v '^==' /tmp/hh.$$.log | grep -v '^$' | head -8
grep -m2 -A3 'Invalid write' /tmp/hh.$$.log
rm -f /tmp/hh.$$ /tmp/hh.$$.nc /tmp/hh.$$.log; echo "invalid heap accesses reported by memcheck: $n"; [ "$n" = 0 ] && exit 0; exit 1
