/* A record variable whose _FillValue attribute has the wrong number of elements (possible in a file: the API
 * refuses to create it).  ncmpi_fill_var_rec() on it must return an error; before the fix fill_var_rec() released
 * its buffer twice (glibc: "free(): double free detected", SIGABRT). */
#include <stdio.h>
#include <stdlib.h>
#include <string.h>
#include <mpi.h>
#include <pnetcdf.h>
#define CK(e) do { int _e = (e); if (_e != NC_NOERR) { printf("line %d: %s\n", __LINE__, ncmpi_strerror(_e)); exit(2); } } while (0)
int main(int argc, char **argv)
{
    int ncid, dimid, varid, err;
    int two[2] = {7, 8}, v = 1;
    MPI_Offset start = 0, count = 1;
    const char *path = argv[1];
    FILE *f; long sz; char *b, *p;
    MPI_Init(&argc, &argv);
    CK(ncmpi_create(MPI_COMM_WORLD, path, NC_CLOBBER, MPI_INFO_NULL, &ncid));
    CK(ncmpi_def_dim(ncid, "t", NC_UNLIMITED, &dimid));
    CK(ncmpi_def_var(ncid, "r", NC_INT, 1, &dimid, &varid));
    CK(ncmpi_put_att_int(ncid, varid, "_FillValuX", NC_INT, 2, two));   /* same length as _FillValue */
    CK(ncmpi_enddef(ncid));
    CK(ncmpi_put_vara_int_all(ncid, varid, &start, &count, &v));
    CK(ncmpi_close(ncid));
    /* rename the attribute in the file: X -> e */
    f = fopen(path, "r+b"); fseek(f, 0, SEEK_END); sz = ftell(f); rewind(f);
    b = malloc(sz); if (fread(b, 1, sz, f) != (size_t)sz) return 2;
    p = NULL;
    for (long i = 0; i + 10 <= sz; i++) if (!memcmp(b + i, "_FillValuX", 10)) p = b + i;
    if (!p) { printf("attribute not found\n"); return 2; }
    p[9] = 'e';
    rewind(f); fwrite(b, 1, sz, f); fclose(f);
    CK(ncmpi_open(MPI_COMM_WORLD, path, NC_WRITE, MPI_INFO_NULL, &ncid));
    CK(ncmpi_inq_varid(ncid, "r", &varid));
    err = ncmpi_fill_var_rec(ncid, varid, 0);
    printf("ncmpi_fill_var_rec: %s\n", ncmpi_strerror(err));
    ncmpi_close(ncid);
    MPI_Finalize();
    return err == NC_NOERR ? 1 : 0;     /* an error code (and no crash) is the expected outcome */
}
