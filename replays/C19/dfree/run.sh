#!/bin/sh
R=${1:-/repo}; H=$(cd "$(dirname "$0")" && pwd); T=/tmp/dfree.$$
mpicc -g -I$R/src/include $H/fill_rec_badfill.c $R/src/libs/.libs/libpnetcdf.a -lm -o $T || exit 2
mpiexec --allow-run-as-root -n 1 $T $T.nc 2>&1 | grep -v "^\[" | head -12; rc=$?
mpiexec --allow-run-as-root -n 1 $T $T.nc >/dev/null 2>&1; rc=$?
rm -f $T $T.nc; echo "exit $rc (0 = error returned cleanly; 134 = abort on double free)"; exit $rc
