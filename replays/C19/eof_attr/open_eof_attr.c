/* C19: "... terminates promptly with a netCDF error or with self-consistent metadata, using memory and time related to
 * the size of the file".  A 4 KiB CDF-1 file whose only (global) attribute announces N bytes of NC_BYTE values.
 * hdr_fetch() zero-fills whatever lies beyond the end of the file and reports success, so the reader allocates N bytes
 * and copies N zero bytes into them, 256 KiB at a time.  Prints the result of ncmpi_open, the wall time and the peak
 * resident set. */
#include <stdio.h>
#include <stdlib.h>
#include <string.h>
#include <sys/resource.h>
#include <mpi.h>
#include <pnetcdf.h>
static unsigned char *p;
static void w32(unsigned v){*p++=v>>24;*p++=v>>16;*p++=v>>8;*p++=v;}
int main(int argc,char**argv){
  int rank,ncid,err; double t; struct rusage ru; unsigned n=(argc>2)?strtoul(argv[2],0,0):0x40000000u;
  MPI_Init(&argc,&argv); MPI_Comm_rank(MPI_COMM_WORLD,&rank);
  if(rank==0){ unsigned char buf[4096]; memset(buf,0,sizeof buf); p=buf;
    memcpy(p,"CDF\1",4);p+=4; w32(0); w32(0);w32(0);       /* magic, numrecs, dim_list ABSENT */
    w32(12);w32(1); w32(1);*p++='a';p+=3; w32(1); w32(n);     /* one attribute 'a', NC_BYTE, n elements */
    FILE*f=fopen(argv[1],"wb");fwrite(buf,1,4096,f);fclose(f);}
  MPI_Barrier(MPI_COMM_WORLD);
  t=MPI_Wtime(); err=ncmpi_open(MPI_COMM_WORLD,argv[1],NC_NOWRITE,MPI_INFO_NULL,&ncid); t=MPI_Wtime()-t;
  getrusage(RUSAGE_SELF,&ru);
  if(rank==0)printf("4096-byte file, attribute of %u bytes announced: ncmpi_open -> %d (%s), %.1f s, peak RSS %ld MiB\n",n,err,ncmpi_strerror(err),t,ru.ru_maxrss/1024);
  if(err==NC_NOERR)ncmpi_close(ncid);
  MPI_Finalize(); return (ru.ru_maxrss/1024 > 256) ? 1 : 0;}
