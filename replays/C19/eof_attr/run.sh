#!/bin/bash
# usage: run.sh [built pnetcdf tree]   exit 0: memory stays related to the 4 KiB file, 1: it follows the announced size
W="${1:-/repo}"; HERE="$(cd "$(dirname "$0")" && pwd)"
TMP="$(mktemp -d /tmp/c19eof.XXXXXX)" || exit 2
trap 'rm -rf "$TMP"' EXIT
mpicc -g -O0 -I"$W/src/include" -o "$TMP/t" "$HERE/open_eof_attr.c" "$W/src/libs/.libs/libpnetcdf.a" -lm || exit 2
timeout 600 mpiexec --allow-run-as-root --oversubscribe -n 1 "$TMP/t" "$TMP/bad.nc" 0x40000000
