#!/bin/bash
# usage: run.sh [built pnetcdf tree]   exit 0: ncmpi_strerrno stays inside its buffer, 1: it writes past it
W="${1:-/repo}"; HERE="$(cd "$(dirname "$0")" && pwd)"
TMP="$(mktemp -d /tmp/c19se.XXXXXX)" || exit 2
trap 'rm -rf "$TMP"' EXIT
mpicc -g -O0 -I"$W/src/include" -o "$TMP/t" "$HERE/strerrno.c" "$W/src/libs/.libs/libpnetcdf.a" -lm || exit 2
"$TMP/t"
