/* C19: no library call writes out of bounds.  ncmpi_strerrno(err) for err > 0 composes "System error code <err> (<strerror>)"
 * with sprintf into a static char[64]; glibc's longest message (errno 84, 49 characters) makes that 72 characters plus the
 * terminator.  The returned pointer is that array, so a returned string of 64 or more characters has been written past it.
 * usage: strerrno; exit 0 = every result fits char[64], 1 = overflow */
#include <stdio.h>
#include <string.h>
#include <pnetcdf.h>
int main(void) {
    int e, bad = 0;
    for (e = 1; e < 200; e++) {
        const char *s = ncmpi_strerrno(e);
        size_t n = strlen(s);
        if (n >= 64) { if (!bad) printf("ncmpi_strerrno(%d) wrote %zu characters + NUL into its static char[64]: \"%s\"\n", e, n, s); bad++; }
    }
    printf("%d error numbers overflow the buffer\n", bad);
    return bad ? 1 : 0;
}
