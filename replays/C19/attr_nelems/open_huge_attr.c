/* C19: a CDF-5 header whose (global) attribute announces an element count n with n * sizeof(type) beyond 2^63.
 * Before fix "attribute nelems overflow" the external size wrapped (NC_SHORT, n = 2^63-1 -> 0 bytes allocated, then
 * ~2^64 bytes copied from the header buffer into it: heap overrun inside ncmpi_open).  Expected: a netCDF error. */
#include <stdio.h>
#include <stdlib.h>
#include <string.h>
#include <mpi.h>
#include <pnetcdf.h>
static unsigned char *p;
static void w32(unsigned v){*p++=v>>24;*p++=v>>16;*p++=v>>8;*p++=v;}
static void w64(unsigned long long v){w32((unsigned)(v>>32));w32((unsigned)v);}
int main(int argc,char**argv){
  int rank,ncid,err,bad=0,k; MPI_Init(&argc,&argv); MPI_Comm_rank(MPI_COMM_WORLD,&rank);
  struct {int type; unsigned long long n;} cases[]={{3,0x7fffffffffffffffULL},{4,0x4000000000000001ULL},{6,0x2000000000000001ULL},
                                                   {3,0x4000000000000000ULL},{1,0x7ffffffffffffffeULL},{11,0x1000000000000000ULL}};
  for(k=0;k<6;k++){
    if(rank==0){ unsigned char buf[4096]; memset(buf,0,sizeof buf); p=buf;
      memcpy(p,"CDF\5",4);p+=4; w64(0);            /* magic, numrecs */
      w32(0);w64(0);                               /* dim_list ABSENT */
      w32(12);w64(1);                              /* NC_ATTRIBUTE, 1 attribute */
      w64(1);*p++='a';p+=3;                        /* name */
      w32(cases[k].type);w64(cases[k].n);          /* nc_type, nelems */
      p+=64;                                       /* some "values" */
      w32(0);w64(0);                               /* var_list ABSENT */
      FILE*f=fopen(argv[1],"wb");fwrite(buf,1,4096,f);fclose(f);}
    MPI_Barrier(MPI_COMM_WORLD);
    err=ncmpi_open(MPI_COMM_WORLD,argv[1],NC_NOWRITE,MPI_INFO_NULL,&ncid);
    if(rank==0)printf("type %d nelems 0x%llx: ncmpi_open -> %d (%s)\n",cases[k].type,cases[k].n,err,ncmpi_strerror(err));
    if(err==NC_NOERR){ MPI_Offset len; nc_type t; ncmpi_inq_att(ncid,NC_GLOBAL,"a",&t,&len);
      if(rank==0)printf("   opened: attribute length reported %lld\n",(long long)len); bad++; ncmpi_close(ncid);}
    MPI_Barrier(MPI_COMM_WORLD);
  }
  if(rank==0)printf("%s\n",bad?"C19 VIOLATED":"C19 holds (every file rejected with an error)");
  MPI_Finalize(); return bad?1:0;}
