#!/bin/bash
# usage: run.sh [built pnetcdf tree]  (exit 0: every malformed file rejected cleanly; non-zero: crash or accepted)
W="${1:-/repo}"; HERE="$(cd "$(dirname "$0")" && pwd)"
TMP="$(mktemp -d /tmp/c19attr.XXXXXX)" || exit 2
trap 'rm -rf "$TMP"' EXIT
mpicc -g -O0 -I"$W/src/include" -o "$TMP/t" "$HERE/open_huge_attr.c" "$W/src/libs/.libs/libpnetcdf.a" -lm || exit 2
MALLOC_CHECK_=3 timeout 120 mpiexec --allow-run-as-root --oversubscribe -n 2 "$TMP/t" "$TMP/bad.nc"
