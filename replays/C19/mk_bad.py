#!/usr/bin/env python3
"""writes three malformed CDF-5 headers: a 64-bit word >= 2^63 in (a) an attribute's nelems,
(b) a dimension length, (c) numrecs."""
import struct, sys
def u32(x): return struct.pack(">I", x)
def u64(x): return struct.pack(">Q", x)
def name(s):
    b = s.encode(); pad = (4 - len(b) % 4) % 4
    return u64(len(b)) + b + b"\0" * pad
NC_DIMENSION, NC_VARIABLE, NC_ATTRIBUTE, NC_INT = 10, 11, 12, 4
ABSENT = u32(0) + u64(0)
def header(numrecs, dims, gatts):
    h = b"CDF\x05" + u64(numrecs)
    h += (u32(NC_DIMENSION) + u64(len(dims)) + b"".join(name(n) + u64(l) for n, l in dims)) if dims else ABSENT
    h += (u32(NC_ATTRIBUTE) + u64(len(gatts)) + b"".join(gatts)) if gatts else ABSENT
    h += ABSENT
    return h + b"\0" * 64
out = sys.argv[1]
open(out + "/bad_attr_nelems.nc", "wb").write(header(0, [("x", 4)], [name("a") + u32(NC_INT) + u64(1 << 63)]))
open(out + "/bad_dim_length.nc", "wb").write(header(0, [("x", (1 << 63) + 5)], []))
open(out + "/bad_numrecs.nc", "wb").write(header((1 << 63) + 1, [("t", 0)], []))
open(out + "/good.nc", "wb").write(header(0, [("x", 4)], [name("a") + u32(NC_INT) + u64(1) + u32(7)]))
