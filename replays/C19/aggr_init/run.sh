#!/bin/bash
# usage: run.sh [built pnetcdf tree]   exit 0: no invalid read in the library, 1: valgrind reports one
W="${1:-/repo}"; HERE="$(cd "$(dirname "$0")" && pwd)"
TMP="$(mktemp -d /tmp/c19aggr.XXXXXX)" || exit 2
trap 'rm -rf "$TMP"' EXIT
mpicc -g -O0 -I"$W/src/include" -o "$TMP/t" "$HERE/aggr_init.c" "$W/src/libs/.libs/libpnetcdf.a" -lm || exit 2
timeout 300 mpiexec --allow-run-as-root --oversubscribe -n 5 valgrind -q --error-exitcode=0 --log-file="$TMP/vg.%p" "$TMP/t" "$TMP/t.nc" >/dev/null 2>&1
if grep -l "Invalid read" "$TMP"/vg.* >/dev/null 2>&1; then
  grep -h -A8 "Invalid read" "$TMP"/vg.* | grep -m12 "Invalid read\|ncmpio_\|alloc'd\|after a block"
  echo "C19 VIOLATED: heap over-read in ncmpio_intra_node_aggr_init"; exit 1
fi
echo "C19 holds (no invalid read)"; exit 0
