/* C19: ncmpio_intra_node_aggr_init copies `num_nonaggrs` rank ids for the last aggregation group of a node although
 * only `nprocs_my_node - my_rank_index` exist: with 5 processes on one node and nc_num_aggrs_per_node=2 the aggregator
 * of the second group (rank 3) reads one int past the end of ranks_my_node[] (heap over-read, valgrind / ASan). */
#include <stdio.h>
#include <mpi.h>
#include <pnetcdf.h>
int main(int argc,char**argv){
  int ncid,err; MPI_Info info; MPI_Init(&argc,&argv);
  MPI_Info_create(&info); MPI_Info_set(info,"nc_num_aggrs_per_node","2");
  err=ncmpi_create(MPI_COMM_WORLD,argv[1],NC_CLOBBER,info,&ncid); if(err){printf("create: %s\n",ncmpi_strerror(err));}
  err=ncmpi_enddef(ncid); err=ncmpi_close(ncid); MPI_Info_free(&info); MPI_Finalize(); return 0;}
