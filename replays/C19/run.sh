#!/bin/sh
R=${1:-/repo}; H=$(cd "$(dirname "$0")" && pwd); D=$(mktemp -d)
python3 $H/mk_bad.py $D
mpicc -I$R/src/include $H/open_bad.c $R/src/libs/.libs/libpnetcdf.a -lm -o $D/open_bad || exit 2
rc=0
for f in good bad_attr_nelems bad_dim_length bad_numrecs; do
  timeout 60 mpiexec --allow-run-as-root -n 1 $D/open_bad $D/$f.nc 2>&1 | grep -v '^--\|^$\|mpiexec\|Primary\|non-zero\|job\|Process name\|Exit code'
  timeout 60 mpiexec --allow-run-as-root -n 1 $D/open_bad $D/$f.nc >/dev/null 2>&1 || rc=1
done
rm -rf $D; echo "exit $rc"; exit $rc
