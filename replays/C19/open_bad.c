/* a malformed file must be rejected with an error code: no crash, no negative sizes handed to the caller */
#include <stdio.h>
#include <stdlib.h>
#include <signal.h>
#include <unistd.h>
#include <string.h>
#include <mpi.h>
#include <pnetcdf.h>
static const char *cur="";
static void segv(int s){ printf("%s: SIGSEGV inside the library\n",cur); fflush(stdout); _exit(1); }
int main(int argc,char**argv){ int i,bad=0; MPI_Init(&argc,&argv); signal(SIGSEGV,segv);
 for(i=1;i<argc;i++){ int ncid,err; cur=argv[i];
   err=ncmpi_open(MPI_COMM_WORLD,argv[i],NC_NOWRITE,MPI_INFO_NULL,&ncid);
   if(err==NC_NOERR){ MPI_Offset len=-1,nrec=-1; int nd=0; ncmpi_inq_ndims(ncid,&nd); if(nd>0) ncmpi_inq_dimlen(ncid,0,&len);
     printf("%s: open -> NC_NOERR, dimlen[0]=%lld\n",argv[i],(long long)len);
     { int na=0; MPI_Offset al=0; ncmpi_inq_natts(ncid,&na); if(na>0 && ncmpi_inq_attlen(ncid,NC_GLOBAL,"a",&al)==NC_NOERR){ printf("   global attribute a: nelems=%lld\n",(long long)al); if(al<0){ printf("   negative attribute length accepted from the file\n"); bad++; } else { int v[4]={0,0,0,0}; if(al<=4){ err=ncmpi_get_att_int(ncid,NC_GLOBAL,"a",v); printf("   get_att_int -> %s\n",ncmpi_strerrno(err)); } } } }
     if(len<0){ printf("   negative length accepted from the file\n"); bad++; }
     ncmpi_close(ncid);
     if(strstr(argv[i],"bad_")) bad++; }
   else printf("%s: open -> %s\n",argv[i],ncmpi_strerrno(err)); }
 MPI_Finalize(); return bad!=0; }
