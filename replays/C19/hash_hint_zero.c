/* hint nc_hash_size_*=0 must be rejected (default used) instead of producing an empty lookup table */
#include <stdio.h>
#include <stdlib.h>
#include <signal.h>
#include <unistd.h>
#include <mpi.h>
#include <pnetcdf.h>
static void segv(int s){ printf("SIGSEGV with a zero hash-size hint\n"); fflush(stdout); _exit(1); }
int main(int argc,char**argv){ int ncid,d,v,err; MPI_Info info; MPI_Init(&argc,&argv); signal(SIGSEGV,segv); signal(SIGFPE,segv);
 MPI_Info_create(&info); MPI_Info_set(info,"nc_hash_size_dim","0"); MPI_Info_set(info,"nc_hash_size_var","0");
 MPI_Info_set(info,"nc_hash_size_gattr","0"); MPI_Info_set(info,"nc_hash_size_vattr","0");
 err=ncmpi_create(MPI_COMM_WORLD,argv[1],NC_CLOBBER,info,&ncid); printf("create -> %s\n",ncmpi_strerrno(err));
 err=ncmpi_def_dim(ncid,"x",4,&d); printf("def_dim -> %s\n",ncmpi_strerrno(err));
 err=ncmpi_def_var(ncid,"v",NC_INT,1,&d,&v); printf("def_var -> %s\n",ncmpi_strerrno(err));
 err=ncmpi_put_att_text(ncid,NC_GLOBAL,"g",1,"a"); printf("put_att global -> %s\n",ncmpi_strerrno(err));
 err=ncmpi_put_att_text(ncid,v,"a",1,"a"); printf("put_att var -> %s\n",ncmpi_strerrno(err));
 err=ncmpi_inq_dimid(ncid,"x",&d); printf("inq_dimid -> %s\n",ncmpi_strerrno(err));
 ncmpi_close(ncid); MPI_Finalize(); return err!=NC_NOERR; }
