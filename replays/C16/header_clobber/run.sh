#!/bin/bash
# usage: run.sh [built pnetcdf tree]
# C16 / C03: a new variable whose _FillValue has the wrong type (copied with ncmpi_copy_att from a float variable onto an int
# variable) makes fill_var_buf fail in the fill step of ncmpi_enddef.  fillerup_aggregate skipped the request but still wrote
# the byte count of all requests: with no request left the file view is the plain byte view and the uninitialised buffer was
# written at offset 0 - the header was destroyed and the file could no longer be opened (NC_ENOTNC).
# header_clobber.c was written by the sub-agent that produced seeded change C16_j.
# exit 0: the file is still a netCDF file after the failing enddef (and, after the second repair, copy_att refuses), 1: destroyed
W="${1:-/repo}"; HERE="$(cd "$(dirname "$0")" && pwd)"
TMP="$(mktemp -d /tmp/c16hc.XXXXXX)" || exit 2
trap 'rm -rf "$TMP"' EXIT
mpicc -g -O0 -I"$W/src/include" -o "$TMP/t" "$HERE/header_clobber.c" "$W/src/libs/.libs/libpnetcdf.a" -lm || exit 2
timeout 60 mpiexec --allow-run-as-root --oversubscribe -n 1 "$TMP/t" "$TMP" 2>&1 | grep "^line 2[1-5]"
head -c 3 "$TMP/p5.nc" | grep -q CDF && { echo "the file still starts with CDF"; exit 0; }
echo "the header has been overwritten"; exit 1
