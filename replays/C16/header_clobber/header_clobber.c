#include <stdio.h>
#include <mpi.h>
#include <pnetcdf.h>
#define P(e) printf("line %d: %s\n", __LINE__, ncmpi_strerror(e))
int main(int argc, char **argv) {
    int ncid, dx, dt, H, F, R, err, dims[2]; float f=1.5f; char fn[512];
    MPI_Offset st[2]={0,0}, ct[2]={1,10};
    MPI_Init(&argc,&argv);
    snprintf(fn,512,"%s/p5.nc",argv[1]);
    err=ncmpi_create(MPI_COMM_WORLD, fn, NC_CLOBBER, MPI_INFO_NULL, &ncid);P(err);
    err=ncmpi_def_dim(ncid,"time",NC_UNLIMITED,&dt);P(err);
    err=ncmpi_def_dim(ncid,"X",10,&dx);P(err);
    dims[0]=dt; dims[1]=dx;
    err=ncmpi_def_var(ncid,"F",NC_FLOAT,1,&dx,&F);P(err);
    err=ncmpi_def_var_fill(ncid,F,0,&f);P(err);
    err=ncmpi_def_var(ncid,"R",NC_INT,2,dims,&R);P(err);
    err=ncmpi_enddef(ncid);P(err);
    err=ncmpi_redef(ncid);P(err);
    err=ncmpi_def_var(ncid,"H",NC_INT,1,&dx,&H);P(err);
    err=ncmpi_def_var_fill(ncid,H,0,NULL);P(err);
    err=ncmpi_copy_att(ncid,F,"_FillValue",ncid,H);P(err);
    err=ncmpi_enddef(ncid);P(err);
    err=ncmpi_put_vara_int_all(ncid,R,st,ct,(int[10]){1,2,3,4,5,6,7,8,9,10});P(err);
    err=ncmpi_close(ncid);P(err);
    err=ncmpi_open(MPI_COMM_WORLD, fn, NC_NOWRITE, MPI_INFO_NULL, &ncid);P(err);
    if (err==NC_NOERR) ncmpi_close(ncid);
    MPI_Finalize(); return 0; }
