/* fill_var_rec(): a rank whose share of the collective fill write fails returns before the MPI_Allreduce
 * of the record count; the other ranks block there.  Fault injected through the PMPI layer on rank 1. */
#include <stdio.h>
#include <stdlib.h>
#include <mpi.h>
#include <pnetcdf.h>
static int armed=0, myrank=0;
int MPI_File_write_at_all(MPI_File fh, MPI_Offset off, const void *buf, int count, MPI_Datatype t, MPI_Status *st){
  int r=PMPI_File_write_at_all(fh,off,buf,count,t,st);
  if(armed && myrank==1){ printf("rank 1: injected MPI_ERR_IO after MPI_File_write_at_all\n"); fflush(stdout); return MPI_ERR_IO; }
  return r; }
int main(int argc,char**argv){ int ncid,dt,dx,v,err,d2[2];
 MPI_Init(&argc,&argv); MPI_Comm_rank(MPI_COMM_WORLD,&myrank);
 ncmpi_create(MPI_COMM_WORLD,argv[1],NC_CLOBBER,MPI_INFO_NULL,&ncid);
 ncmpi_def_dim(ncid,"t",NC_UNLIMITED,&dt); ncmpi_def_dim(ncid,"x",8,&dx); d2[0]=dt;d2[1]=dx; ncmpi_def_var(ncid,"r",NC_INT,2,d2,&v);
 ncmpi_def_var_fill(ncid,v,0,NULL); ncmpi_enddef(ncid);
 armed=1; err=ncmpi_fill_var_rec(ncid,v,0); armed=0;
 printf("rank %d: fill_var_rec returned %s\n",myrank,ncmpi_strerrno(err)); fflush(stdout);
 ncmpi_close(ncid); MPI_Finalize(); return 0; }
