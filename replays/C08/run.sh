#!/bin/sh
# usage: run.sh <which: zero_path_recvar|fill_var_rec_fault|numrecs_overflow_hcoll> [repo]
W=$1; R=${2:-/repo}; H=$(cd "$(dirname "$0")" && pwd)
mpicc -I$R/src/include $H/$W.c $R/src/libs/.libs/libpnetcdf.a -lm -o /tmp/c08.$$ || exit 2
timeout 30 mpiexec --allow-run-as-root --oversubscribe -n 2 /tmp/c08.$$ /tmp/c08.$$.nc 2>&1 | grep -v '^--\|^$\|mpiexec\|Primary\|non-zero\|job'; rc=$?
timeout 30 mpiexec --allow-run-as-root --oversubscribe -n 2 /tmp/c08.$$ /tmp/c08.$$.nc >/dev/null 2>&1; rc=$?
rm -f /tmp/c08.$$ /tmp/c08.$$.nc; [ $rc = 124 ] && echo "TIMEOUT: some rank never returned (defect manifests)"; echo "exit $rc"; exit $rc
