/* F-C08-1: collective put on a record variable with an argument invalid on one rank only.
 * Every rank must return (the bad rank with its error code); today rank 0 blocks in MPI_Allreduce. */
#include <stdio.h>
#include <stdlib.h>
#include <mpi.h>
#include <pnetcdf.h>
int main(int argc,char**argv){ int rank,ncid,dt,dx,v,err,d2[2]; MPI_Offset s[2],c[2]; int buf[4]={1,2,3,4};
 MPI_Init(&argc,&argv); MPI_Comm_rank(MPI_COMM_WORLD,&rank);
 ncmpi_create(MPI_COMM_WORLD,argv[1],NC_CLOBBER,MPI_INFO_NULL,&ncid);
 ncmpi_def_dim(ncid,"t",NC_UNLIMITED,&dt); ncmpi_def_dim(ncid,"x",4,&dx); d2[0]=dt;d2[1]=dx; ncmpi_def_var(ncid,"r",NC_INT,2,d2,&v); ncmpi_enddef(ncid);
 s[0]=rank; s[1]=(rank==1)?99:0; c[0]=1; c[1]=4;           /* rank 1: start[1] out of bounds */
 err=ncmpi_put_vara_int_all(ncid,v,s,c,buf);
 printf("rank %d: put_vara_int_all returned %s\n",rank,ncmpi_strerrno(err)); fflush(stdout);
 ncmpi_close(ncid); MPI_Finalize(); return 0; }
