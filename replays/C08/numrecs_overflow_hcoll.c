/* ncmpio_write_numrecs(): with header-collective mode (hint romio_no_indep_rw=true) the root returns
 * NC_EINTOVERFLOW before the collective record-count write when numrecs exceeds 2^31-1 in a CDF-1/2 file,
 * while the other ranks have already entered MPI_File_write_at_all. */
#include <stdio.h>
#include <stdlib.h>
#include <mpi.h>
#include <pnetcdf.h>
static int nwall=0;
int MPI_File_write_at_all(MPI_File fh, MPI_Offset off, const void *buf, int count, MPI_Datatype t, MPI_Status *st){ nwall++; return PMPI_File_write_at_all(fh,off,buf,count,t,st); }
int main(int argc,char**argv){ int bad=0; int rank,ncid,dt,v,err; MPI_Offset s[1],c[1]; signed char b=7; MPI_Info info;
 MPI_Init(&argc,&argv); MPI_Comm_rank(MPI_COMM_WORLD,&rank);
 MPI_Info_create(&info); MPI_Info_set(info,"romio_no_indep_rw","true");
 ncmpi_create(MPI_COMM_WORLD,argv[1],NC_CLOBBER|NC_64BIT_OFFSET,info,&ncid);
 ncmpi_def_dim(ncid,"t",NC_UNLIMITED,&dt); ncmpi_def_var(ncid,"r",NC_BYTE,1,&dt,&v); ncmpi_enddef(ncid);
 s[0]=2147483648LL+rank; c[0]=1;                 /* record index 2^31: numrecs becomes 2^31+2 */
 nwall=0; err=ncmpi_put_vara_schar_all(ncid,v,s,c,&b);
 { int n=nwall, all[2]={0,0}; MPI_Gather(&n,1,MPI_INT,all,1,MPI_INT,0,MPI_COMM_WORLD); if(rank==0){ printf("MPI_File_write_at_all calls inside the put: rank0=%d rank1=%d%s\n",all[0],all[1],all[0]!=all[1]?"  <-- collective mismatch":""); bad=(all[0]!=all[1]); } }
 printf("rank %d: put_vara_schar_all returned %s\n",rank,ncmpi_strerrno(err)); fflush(stdout);
 ncmpi_close(ncid); MPI_Bcast(&bad,1,MPI_INT,0,MPI_COMM_WORLD); MPI_Finalize(); return bad; }
