/* two nonblocking gets posted in the order (B, A) where A lies before B in the file and only A's conversion is out of
 * range: wait_all(2, {idB, idA}, st) must give st[0] == NC_NOERR (B) and st[1] == NC_ERANGE (A).  Second case:
 * wait_all(2, {idA, NC_REQ_NULL}) must not complete B. */
#include <stdio.h>
#include <stdlib.h>
#include <mpi.h>
#include <pnetcdf.h>
#define CK(e) do { int _e = (e); if (_e != NC_NOERR) { printf("line %d: %s\n", __LINE__, ncmpi_strerror(_e)); exit(2); } } while (0)
int main(int argc, char **argv)
{
    int ncid, dimid, va, vb, ids[2], st[2], i, bad = 0, v[4], nreqs;
    signed char ra[4], rb[4];
    MPI_Init(&argc, &argv);
    CK(ncmpi_create(MPI_COMM_WORLD, argv[1], NC_CLOBBER, MPI_INFO_NULL, &ncid));
    CK(ncmpi_def_dim(ncid, "x", 4, &dimid));
    CK(ncmpi_def_var(ncid, "a", NC_INT, 1, &dimid, &va));
    CK(ncmpi_def_var(ncid, "b", NC_INT, 1, &dimid, &vb));
    CK(ncmpi_enddef(ncid));
    for (i = 0; i < 4; i++) v[i] = 1000 + i;          /* does not fit a signed char */
    CK(ncmpi_put_var_int_all(ncid, va, v));
    for (i = 0; i < 4; i++) v[i] = i;
    CK(ncmpi_put_var_int_all(ncid, vb, v));
    /* case 1: statuses follow the ids, not the queue */
    CK(ncmpi_iget_var_schar(ncid, vb, rb, &ids[0]));
    CK(ncmpi_iget_var_schar(ncid, va, ra, &ids[1]));
    st[0] = st[1] = 12345;
    ncmpi_wait_all(ncid, 2, ids, st);
    printf("case 1: status of B = %s, status of A = %s\n", ncmpi_strerrno(st[0]), ncmpi_strerrno(st[1]));
    if (st[0] != NC_NOERR || st[1] != NC_ERANGE) bad++;
    /* case 2: a NULL id does not stand for the other pending request */
    CK(ncmpi_iget_var_schar(ncid, vb, rb, &ids[0]));
    CK(ncmpi_iget_var_schar(ncid, vb, rb, &ids[1]));
    i = ids[1]; ids[1] = NC_REQ_NULL;
    ncmpi_wait_all(ncid, 2, ids, st);
    CK(ncmpi_inq_nreqs(ncid, &nreqs));
    printf("case 2: %d request(s) still pending after waiting for one of two (1 expected)\n", nreqs);
    if (nreqs != 1) bad++;
    ids[0] = i;
    st[0] = 0;
    ncmpi_wait_all(ncid, 1, ids, st);
    printf("case 2: waiting for the other request: %s\n", ncmpi_strerrno(st[0]));
    if (st[0] != NC_NOERR) bad++;
    CK(ncmpi_close(ncid));
    MPI_Finalize();
    return bad ? 1 : 0;
}
