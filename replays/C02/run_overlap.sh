#!/bin/bash
# usage: run_overlap.sh <built pnetcdf tree>   (exit 0: holds, 1: violated)
W="${1:-/repo}"; HERE="$(cd "$(dirname "$0")" && pwd)"
TMP="$(mktemp -d /tmp/c02ov.XXXXXX)" || exit 2
trap 'rm -rf "$TMP"' EXIT
mpicc -g -O0 -I"$W/src/include" -o "$TMP/ov" "$HERE/overlap_reads.c" "$W/src/libs/.libs/libpnetcdf.a" -lm || exit 2
# ROMIO is selected because Open MPI 4.1.4's OMPIO returns zeros for the tail of the last record in collective reads with
# differing per-rank file views (seen with non-overlapping requests too, independent of this defect)
for np in 1 3; do
  timeout 300 mpiexec --allow-run-as-root --oversubscribe --mca io romio321 -n $np "$TMP/ov" "$TMP/t.nc" || exit 1
done
exit 0
