#!/bin/sh
# multi-record varn sub-requests: blocking and nonblocking forms must agree with the documented semantics
R=${1:-/repo}; H=$(cd "$(dirname "$0")" && pwd)
mpicc -I$R/src/include $H/varn_rec.c $R/src/libs/.libs/libpnetcdf.a -lm -o /tmp/vr.$$ || exit 2
timeout 60 mpiexec --allow-run-as-root -n 1 /tmp/vr.$$ /tmp/vr.$$.nc; rc=$?; rm -f /tmp/vr.$$ /tmp/vr.$$.nc; echo "exit $rc"; exit $rc
