/* C02: "Every completed request reports its own status" for "all orders of request ids within a wait".
 * Two igets on different variables, posted so that the order of the ids in the wait differs from the order of the
 * pending queue (which is kept sorted by file offset); one of them cannot be represented in the memory type
 * (NC_ERANGE).  The whole-queue shortcut of extract_reqs bound statuses[i] to the i-th queued request, so each request
 * received the other's status. */
#include <stdio.h>
#include <mpi.h>
#include <pnetcdf.h>
#define CHK(e) do { int _e = (e); if (_e != NC_NOERR) { printf("line %d: %s\n", __LINE__, ncmpi_strerror(_e)); MPI_Abort(MPI_COMM_WORLD, 3); } } while (0)
int main(int argc,char**argv){
  int ncid,dimid,va,vb,ids[2],sts[2],err,bad=0,k; int big[4]={1000,2000,3000,4000},small[4]={1,2,3,4}; signed char ga[4],gb[4];
  MPI_Offset st=0,ct=4;
  MPI_Init(&argc,&argv);
  CHK(ncmpi_create(MPI_COMM_WORLD,argv[1],NC_CLOBBER,MPI_INFO_NULL,&ncid));
  CHK(ncmpi_def_dim(ncid,"x",4,&dimid)); CHK(ncmpi_def_var(ncid,"a",NC_INT,1,&dimid,&va)); CHK(ncmpi_def_var(ncid,"b",NC_INT,1,&dimid,&vb));
  CHK(ncmpi_enddef(ncid));
  CHK(ncmpi_put_vara_int_all(ncid,va,&st,&ct,big)); CHK(ncmpi_put_vara_int_all(ncid,vb,&st,&ct,small));
  for(k=0;k<2;k++){
    /* k=0: ids listed in queue order (a, b); k=1: listed the other way round (b, a) */
    int ia=k?1:0, ib=k?0:1;
    CHK(ncmpi_iget_vara_schar(ncid,va,&st,&ct,ga,&ids[ia]));      /* 1000.. does not fit a signed char: NC_ERANGE */
    CHK(ncmpi_iget_vara_schar(ncid,vb,&st,&ct,gb,&ids[ib]));      /* fine */
    err=ncmpi_wait_all(ncid,2,ids,sts);
    printf("ids listed as (%s): wait_all -> %s; status of the request on a: %s; on b: %s\n",k?"b, a":"a, b",ncmpi_strerrno(err),ncmpi_strerrno(sts[ia]),ncmpi_strerrno(sts[ib]));
    if(sts[ia]!=NC_ERANGE||sts[ib]!=NC_NOERR)bad++;
  }
  CHK(ncmpi_close(ncid));
  printf("%s\n",bad?"C02 VIOLATED: a request reported another request's status":"C02 holds");
  MPI_Finalize(); return bad?1:0;}
