/* pre-existing observation (unmodified library): ncmpi_wait_all with a list
 * that holds a valid pending id and an unknown id returns NC_EINVAL_REQUEST but
 * leaves the valid request marked NC_REQ_TO_FREE in the queue (extract_reqs()
 * returns before undoing the marks, req_commit() returns on that error).  The
 * valid request can then not be found by id any more: a later wait on exactly
 * that id returns NC_EINVAL_REQUEST; only NC_REQ_ALL / NC_PUT_REQ_ALL (or
 * close) completes it.  (Observed run: the user buffer itself was intact at
 * every point checked, so this is a request-bookkeeping defect, listed because
 * "the completing wait" of the property cannot be issued by id any more.)
 * exit 0: the valid request can still be completed by id; 1: not */
#include <stdio.h>
#include <stdlib.h>
#include <string.h>
#include <mpi.h>
#include <pnetcdf.h>
#define N 4096  /* 16 KB > in-place swap threshold */
#define E(e) do { if ((e) != NC_NOERR) { printf("line %d: %s\n", __LINE__, ncmpi_strerrno(e)); MPI_Abort(MPI_COMM_WORLD, 3);} } while (0)
int main(int argc, char **argv)
{
    static int buf[N], orig[N];
    int i, err, ncid, dimid, v[2], ids[2], st[2], reqA, reqB, bad = 0;
    MPI_Init(&argc, &argv);
    for (i = 0; i < N; i++) orig[i] = buf[i] = 0x01020304 + i;
    err = ncmpi_create(MPI_COMM_SELF, argc > 1 ? argv[1] : "pre2.nc", NC_CLOBBER, MPI_INFO_NULL, &ncid); E(err);
    err = ncmpi_def_dim(ncid, "X", N, &dimid); E(err);
    err = ncmpi_def_var(ncid, "A", NC_INT, 1, &dimid, &v[0]); E(err);
    err = ncmpi_def_var(ncid, "B", NC_INT, 1, &dimid, &v[1]); E(err);
    err = ncmpi_enddef(ncid); E(err);
    err = ncmpi_iput_var_int(ncid, v[0], buf, &reqA); E(err);
    err = ncmpi_iput_var_int(ncid, v[1], orig, &reqB); E(err);   /* a 2nd pending request */
    ids[0] = reqA; ids[1] = 9998; /* unknown even id */
    err = ncmpi_wait_all(ncid, 2, ids, st);
    printf("wait({A, unknown}) returns %s, st = {%s, %s}, ids = {%d, %d}\n", ncmpi_strerrno(err),
           ncmpi_strerrno(st[0]), ncmpi_strerrno(st[1]), ids[0], ids[1]);
    ids[0] = reqA;
    err = ncmpi_wait_all(ncid, 1, ids, st);
    printf("wait({A}) afterwards returns %s, st = %s\n", ncmpi_strerrno(err), ncmpi_strerrno(st[0]));
    if (err != NC_NOERR || st[0] != NC_NOERR) bad = 1;
    printf("user buffer of A after that wait: %s\n", memcmp(buf, orig, sizeof(buf)) ? "still byte-swapped" : "intact");
    if (memcmp(buf, orig, sizeof(buf))) bad = 1;
    err = ncmpi_wait_all(ncid, NC_REQ_ALL, NULL, NULL); E(err);
    printf("user buffer of A after wait(NC_REQ_ALL): %s\n", memcmp(buf, orig, sizeof(buf)) ? "still byte-swapped" : "intact");
    err = ncmpi_close(ncid); E(err);
    MPI_Finalize();
    return bad;
}
