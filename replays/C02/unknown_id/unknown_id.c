/*
 * Pre-existing behaviour of the UNMODIFIED library (not part of the seeded change).
 *
 * Scenario 1: three iput requests pending (A,B,C).  ncmpi_wait(2, {id_A, bogus})
 *   fails with NC_EINVAL_REQUEST as it should, but extract_reqs() has already
 *   flagged A NC_REQ_TO_FREE before returning.  A is now unreachable by id
 *   (a later wait on id_A reports NC_EINVAL_REQUEST) and the next subset wait
 *   (on B) frees A without ever writing it, and leaves numPutReqs inconsistent.
 *
 * Scenario 2: two iput requests pending (A,B), no gets.  ncmpi_wait(2, {id_A,
 *   bogus}, statuses=NULL) takes the "same as NC_PUT_REQ_ALL" shortcut because only the count
 *   is compared: B, which was not named, is completed, the call returns NC_NOERR
 *   and the bogus id is reset to NC_REQ_NULL.  (With a statuses array the ids
 *   are compared first and the general path reports NC_EINVAL_REQUEST.)
 *
 * Prints what it sees; exit 0 when everything behaves as documented, 1 otherwise.
 */
#include <stdio.h>
#include <stdlib.h>
#include <mpi.h>
#include <pnetcdf.h>

#define CHK(e) do { int e_ = (e); if (e_ != NC_NOERR) { \
    printf("line %d: %s\n", __LINE__, ncmpi_strerror(e_)); \
    MPI_Abort(MPI_COMM_WORLD, 2); } } while (0)

#define N 4
#define BOGUS 998

int main(int argc, char **argv)
{
    int ncid, dimid, varid[3], v, i, err, nreqs, bad = 0;
    int req[3], ids[2], st[2], buf[3][N], rd[N], zero[N] = {0,0,0,0};
    const char *path = (argc > 1) ? argv[1] : "c02_preexist.nc";

    MPI_Init(&argc, &argv);

    /* ---- scenario 1 ---- */
    CHK(ncmpi_create(MPI_COMM_WORLD, path, NC_CLOBBER, MPI_INFO_NULL, &ncid));
    CHK(ncmpi_def_dim(ncid, "x", N, &dimid));
    CHK(ncmpi_def_var(ncid, "A", NC_INT, 1, &dimid, &varid[0]));
    CHK(ncmpi_def_var(ncid, "B", NC_INT, 1, &dimid, &varid[1]));
    CHK(ncmpi_def_var(ncid, "C", NC_INT, 1, &dimid, &varid[2]));
    CHK(ncmpi_enddef(ncid));
    for (v=0; v<3; v++) CHK(ncmpi_put_var_int_all(ncid, varid[v], zero));
    CHK(ncmpi_begin_indep_data(ncid));
    for (v=0; v<3; v++) {
        for (i=0; i<N; i++) buf[v][i] = 100*(v+1) + i;
        CHK(ncmpi_iput_var_int(ncid, varid[v], buf[v], &req[v]));
    }
    ids[0] = req[0]; ids[1] = BOGUS; st[0] = st[1] = 777;
    err = ncmpi_wait(ncid, 2, ids, st);
    CHK(ncmpi_inq_nreqs(ncid, &nreqs));
    printf("S1: wait(A,bogus) -> %s; st={%d,%d} ids={%d,%d} pending=%d\n",
           ncmpi_strerror(err), st[0], st[1], ids[0], ids[1], nreqs);

    ids[0] = req[0]; st[0] = 777;
    err = ncmpi_wait(ncid, 1, ids, st);
    printf("S1: wait(A) afterwards -> %s; st=%d\n", ncmpi_strerror(err), st[0]);
    if (err != NC_NOERR) { printf("S1: A can no longer be completed by id\n"); bad++; }

    ids[0] = req[1]; st[0] = 777;
    err = ncmpi_wait(ncid, 1, ids, st);
    CHK(ncmpi_inq_nreqs(ncid, &nreqs));
    printf("S1: wait(B) -> %s; st=%d pending=%d\n", ncmpi_strerror(err), st[0], nreqs);
    CHK(ncmpi_get_var_int(ncid, varid[0], rd));
    printf("S1: A in file = %d %d %d %d (request data %d..)\n", rd[0], rd[1], rd[2], rd[3], buf[0][0]);
    if (nreqs == 1 && rd[0] != buf[0][0]) {
        printf("S1: A disappeared from the queue without being written\n");
        bad++;
    }
    ncmpi_cancel(ncid, NC_REQ_ALL, NULL, NULL);
    CHK(ncmpi_end_indep_data(ncid));
    CHK(ncmpi_close(ncid));

    /* ---- scenario 2 ---- */
    CHK(ncmpi_create(MPI_COMM_WORLD, path, NC_CLOBBER, MPI_INFO_NULL, &ncid));
    CHK(ncmpi_def_dim(ncid, "x", N, &dimid));
    CHK(ncmpi_def_var(ncid, "A", NC_INT, 1, &dimid, &varid[0]));
    CHK(ncmpi_def_var(ncid, "B", NC_INT, 1, &dimid, &varid[1]));
    CHK(ncmpi_enddef(ncid));
    for (v=0; v<2; v++) CHK(ncmpi_put_var_int_all(ncid, varid[v], zero));
    CHK(ncmpi_begin_indep_data(ncid));
    for (v=0; v<2; v++)
        CHK(ncmpi_iput_var_int(ncid, varid[v], buf[v], &req[v]));
    ids[0] = req[0]; ids[1] = BOGUS;
    err = ncmpi_wait(ncid, 2, ids, NULL); /* statuses == NULL: shortcut taken */
    CHK(ncmpi_inq_nreqs(ncid, &nreqs));
    printf("S2: wait(A,bogus,statuses=NULL) -> %s; ids={%d,%d} pending=%d\n",
           ncmpi_strerror(err), ids[0], ids[1], nreqs);
    if (err == NC_NOERR || nreqs != 2) {
        printf("S2: bogus id accepted; B (not named) was completed too\n");
        bad++;
    }
    ncmpi_cancel(ncid, NC_REQ_ALL, NULL, NULL);
    CHK(ncmpi_end_indep_data(ncid));
    CHK(ncmpi_close(ncid));

    MPI_Finalize();
    return bad ? 1 : 0;
}
