#!/bin/bash
# usage: run.sh [built pnetcdf tree]
# C02 "requests not named in a wait stay unaffected": ncmpi_wait / wait_all with a list that holds a valid pending id and an
# unknown id is refused (NC_EINVAL_REQUEST), but extract_reqs() returned with the valid request still marked NC_REQ_TO_FREE:
# it could no longer be completed by id, and the next subset wait discarded it without writing it (data of request A never
# reached the file).  unknown_id.c / wait_bad_id.c were written by the sub-agents that produced seeded changes C02_j / C13_j.
# Scenario S2 of unknown_id.c (a list as long as the queue, no status array, is taken for the whole queue whatever ids it
# holds) is known finding F-C02-6: its lines are printed, it does not decide the exit status.
# exit 0: request A survives the refused call, 1: it is lost
W="${1:-/repo}"; HERE="$(cd "$(dirname "$0")" && pwd)"
TMP="$(mktemp -d /tmp/c02uid.XXXXXX)" || exit 2
trap 'rm -rf "$TMP"' EXIT
rc=0
mpicc -g -O0 -I"$W/src/include" -o "$TMP/t" "$HERE/unknown_id.c" "$W/src/libs/.libs/libpnetcdf.a" -lm || exit 2
timeout 60 mpiexec --allow-run-as-root --oversubscribe -n 1 "$TMP/t" "$TMP/w.nc" 2>&1 | grep "^S[12]" | tee "$TMP/out"
grep -q "A in file = 100 101 102 103" "$TMP/out" || rc=1
mpicc -g -O0 -I"$W/src/include" -o "$TMP/t2" "$HERE/wait_bad_id.c" "$W/src/libs/.libs/libpnetcdf.a" -lm || exit 2
timeout 60 mpiexec --allow-run-as-root --oversubscribe -n 1 "$TMP/t2" "$TMP/w2.nc" 2>&1 | grep "^wait" | tee "$TMP/out2"
grep -q "afterwards returns NC_NOERR" "$TMP/out2" || rc=1
exit $rc
