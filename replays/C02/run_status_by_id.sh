#!/bin/bash
# usage: run_status_by_id.sh [built pnetcdf tree]
W="${1:-/repo}"; HERE="$(cd "$(dirname "$0")" && pwd)"
TMP="$(mktemp -d /tmp/c02sid.XXXXXX)" || exit 2
trap 'rm -rf "$TMP"' EXIT
mpicc -g -O0 -I"$W/src/include" -o "$TMP/t" "$HERE/status_by_id.c" "$W/src/libs/.libs/libpnetcdf.a" -lm || exit 2
timeout 120 mpiexec --allow-run-as-root --oversubscribe -n 1 "$TMP/t" "$TMP/x.nc" | grep "ids listed\|C02"
exit ${PIPESTATUS[0]}
