/* C02: "reads may overlap each other freely".  Posts random, freely overlapping iget_vara / iget_vars requests
 * (int and double user buffers, fixed and record variables) and completes them with one wait_all; every buffer must
 * hold what the corresponding blocking get returns.  Before fix "overlapping nonblocking reads" the merge of
 * interleaved requests kept each file byte for one request only and the other buffers stayed untouched. */
#include <stdio.h>
#include <stdlib.h>
#include <string.h>
#include <mpi.h>
#include <pnetcdf.h>
#define CHK(c) do{int e_=(c); if(e_!=NC_NOERR){printf("line %d: %s\n",__LINE__,ncmpi_strerror(e_)); bad++;}}while(0)
#define NY 6
#define NX 7
#define NR 4
#define NREQ 9
int main(int argc,char**argv){
  int rank,ncid,dt,dy,dx,vf,vr,dims[3],i,k,bad=0,round;
  MPI_Init(&argc,&argv); MPI_Comm_rank(MPI_COMM_WORLD,&rank);
  int fmt[3]={0,NC_64BIT_OFFSET,NC_64BIT_DATA};
  for(round=0;round<60;round++){
    srand(1000+round*7+rank);
    CHK(ncmpi_create(MPI_COMM_WORLD,argv[1],NC_CLOBBER|fmt[round%3],MPI_INFO_NULL,&ncid));
    CHK(ncmpi_def_dim(ncid,"t",NC_UNLIMITED,&dt)); CHK(ncmpi_def_dim(ncid,"y",NY,&dy)); CHK(ncmpi_def_dim(ncid,"x",NX,&dx));
    dims[0]=dy;dims[1]=dx; CHK(ncmpi_def_var(ncid,"f",NC_INT,2,dims,&vf));
    dims[0]=dt;dims[1]=dx; CHK(ncmpi_def_var(ncid,"r",NC_SHORT,2,dims,&vr));
    CHK(ncmpi_enddef(ncid));
    int wf[NY*NX]; short wr[NR*NX];
    for(i=0;i<NY*NX;i++)wf[i]=1000+i; for(i=0;i<NR*NX;i++)wr[i]=(short)(200+i);
    CHK(ncmpi_put_var_int_all(ncid,vf,wf));
    { MPI_Offset s[2]={0,0},c[2]={NR,NX}; CHK(ncmpi_put_vara_short_all(ncid,vr,s,c,wr)); }
    int reqs[NREQ],sts[NREQ]; double *got[NREQ],*want[NREQ]; int isd[NREQ]; size_t n[NREQ];
    for(k=0;k<NREQ;k++){
      int onrec=rand()%2, rows=onrec?NR:NY, var=onrec?vr:vf;
      MPI_Offset s[2],c[2],st[2];
      st[0]=1+rand()%2; st[1]=1+rand()%2;
      s[0]=rand()%rows; s[1]=rand()%NX;
      c[0]=1+rand()%((rows-s[0]+st[0]-1)/st[0]); c[1]=1+rand()%((NX-s[1]+st[1]-1)/st[1]);
      n[k]=c[0]*c[1]; isd[k]=rand()%2;
      got[k]=malloc(n[k]*sizeof(double)); want[k]=malloc(n[k]*sizeof(double));
      memset(got[k],0xee,n[k]*sizeof(double));
      if(isd[k]){ CHK(ncmpi_get_vars_double_all(ncid,var,s,c,st,want[k])); }
      else      { CHK(ncmpi_get_vars_int_all(ncid,var,s,c,st,(int*)want[k])); }
      if(isd[k]){ CHK(ncmpi_iget_vars_double(ncid,var,s,c,st,got[k],&reqs[k])); }
      else      { CHK(ncmpi_iget_vars_int(ncid,var,s,c,st,(int*)got[k],&reqs[k])); }
    }
    if(round%2){ CHK(ncmpi_wait_all(ncid,NREQ,reqs,sts)); }
    else { CHK(ncmpi_begin_indep_data(ncid)); CHK(ncmpi_wait(ncid,NREQ,reqs,sts)); CHK(ncmpi_end_indep_data(ncid)); }
    for(k=0;k<NREQ;k++){
      if(sts[k]!=NC_NOERR){printf("round %d req %d status %s\n",round,k,ncmpi_strerror(sts[k]));bad++;}
      if(memcmp(got[k],want[k],n[k]*(isd[k]?sizeof(double):sizeof(int)))){
        if(bad<6)printf("rank %d round %d: request %d (%zu elements, %s buffer) differs from the blocking read\n",rank,round,k,n[k],isd[k]?"double":"int");
        bad++; }
      free(got[k]);free(want[k]);
    }
    CHK(ncmpi_close(ncid));
  }
  int tot; MPI_Allreduce(&bad,&tot,1,MPI_INT,MPI_SUM,MPI_COMM_WORLD);
  if(rank==0)printf("%s (%d mismatching requests)\n",tot?"C02 VIOLATED: overlapping nonblocking reads lose data":"C02 holds",tot);
  MPI_Finalize(); return tot?1:0;}
