#include <stdio.h>
#include <stdlib.h>
#include <string.h>
#include <mpi.h>
#include <pnetcdf.h>
#define NR 6
#define NX 4
static int fill(int ncid,int v){ int z[NR*NX]; for(int i=0;i<NR*NX;i++) z[i]=-1; MPI_Offset s[2]={0,0},c[2]={NR,NX}; return ncmpi_put_vara_int_all(ncid,v,s,c,z);}
int main(int argc,char**argv){ MPI_Init(&argc,&argv); int ncid,dt,dx,va,vb,err,bad=0; int d2[2];
 ncmpi_create(MPI_COMM_WORLD,argv[1],NC_CLOBBER,MPI_INFO_NULL,&ncid);
 ncmpi_def_dim(ncid,"t",NC_UNLIMITED,&dt); ncmpi_def_dim(ncid,"x",NX,&dx); d2[0]=dt;d2[1]=dx;
 ncmpi_def_var(ncid,"a",NC_INT,2,d2,&va); ncmpi_def_var(ncid,"b",NC_INT,2,d2,&vb); ncmpi_enddef(ncid);
 fill(ncid,va); fill(ncid,vb);
 /* two sub-requests: records 0..1 (2 records) and record 3..5 (3 records), columns 0..3 / 1..2 */
 MPI_Offset *starts[2],*counts[2]; MPI_Offset s0[2]={0,0},c0[2]={2,4},s1[2]={3,1},c1[2]={3,2}; starts[0]=s0;starts[1]=s1;counts[0]=c0;counts[1]=c1;
 int buf[14]; for(int i=0;i<14;i++) buf[i]=100+i;
 err=ncmpi_put_varn_int_all(ncid,va,2,starts,counts,buf); printf("blocking put_varn: %s\n",ncmpi_strerrno(err));
 int req,st; err=ncmpi_iput_varn_int(ncid,vb,2,starts,counts,buf,&req); printf("iput_varn: %s\n",ncmpi_strerrno(err));
 err=ncmpi_wait_all(ncid,1,&req,&st); printf("wait_all: %s status %s\n",ncmpi_strerrno(err),ncmpi_strerrno(st));
 int ra[NR*NX],rb[NR*NX]; MPI_Offset s[2]={0,0},c[2]={NR,NX};
 ncmpi_get_vara_int_all(ncid,va,s,c,ra); ncmpi_get_vara_int_all(ncid,vb,s,c,rb);
 for(int r=0;r<NR;r++){printf("a[%d]:",r);for(int x=0;x<NX;x++)printf(" %d",ra[r*NX+x]);printf("   b[%d]:",r);for(int x=0;x<NX;x++)printf(" %d",rb[r*NX+x]);printf("\n");}
 for(int i=0;i<NR*NX;i++) if(ra[i]!=rb[i]){ if(bad<8) printf("  differ at [%d][%d]: blocking %d nonblocking %d\n",i/NX,i%NX,ra[i],rb[i]); bad++; }
 /* iget_varn too */
 int g1[14],g2[14]; memset(g1,0,sizeof g1); memset(g2,0,sizeof g2);
 ncmpi_get_varn_int_all(ncid,va,2,starts,counts,g1); ncmpi_iget_varn_int(ncid,va,2,starts,counts,g2,&req); ncmpi_wait_all(ncid,1,&req,&st);
 for(int i=0;i<14;i++) if(g1[i]!=g2[i]){ printf("  iget differs at %d: %d vs %d\n",i,g1[i],g2[i]); bad++; }
 { int exp[NR*NX]; for(int i=0;i<NR*NX;i++) exp[i]=-1; for(int i=0;i<8;i++) exp[i]=100+i; exp[3*NX+1]=108;exp[3*NX+2]=109;exp[4*NX+1]=110;exp[4*NX+2]=111;exp[5*NX+1]=112;exp[5*NX+2]=113;
   for(int i=0;i<NR*NX;i++){ if(ra[i]!=exp[i]){bad++; if(bad<12) printf("  blocking put_varn wrong at [%d][%d]: %d expected %d\n",i/NX,i%NX,ra[i],exp[i]);} if(rb[i]!=exp[i]) bad++; }
   for(int i=0;i<14;i++) if(g1[i]!=100+i||g2[i]!=100+i) bad++; }
 printf("mismatches: %d\n",bad); ncmpi_close(ncid); MPI_Finalize(); return bad!=0; }
