/* collective put_vars on a record variable with a record stride of 2, once with intra-node aggregation off and once
 * with nc_num_aggrs_per_node=1: the two files must have the same content */
#include <stdio.h>
#include <stdlib.h>
#include <string.h>
#include <mpi.h>
#include <pnetcdf.h>
#define CK(e) do { int _e = (e); if (_e != NC_NOERR) { printf("line %d: %s\n", __LINE__, ncmpi_strerror(_e)); MPI_Abort(MPI_COMM_WORLD, 2); } } while (0)
#define NREC 6
#define NX 4
static void run(const char *path, const char *aggr, int rank, int nprocs, int *out)
{
    int ncid, dimid[2], varid, i, buf[3 * 2];
    MPI_Offset start[2], count[2], stride[2];
    MPI_Info info;
    MPI_Info_create(&info);
    MPI_Info_set(info, "nc_num_aggrs_per_node", aggr);
    CK(ncmpi_create(MPI_COMM_WORLD, path, NC_CLOBBER, info, &ncid));
    CK(ncmpi_def_dim(ncid, "t", NC_UNLIMITED, &dimid[0]));
    CK(ncmpi_def_dim(ncid, "x", NX, &dimid[1]));
    CK(ncmpi_def_var(ncid, "v", NC_INT, 2, dimid, &varid));
    CK(ncmpi_def_var_fill(ncid, varid, 0, NULL));
    CK(ncmpi_enddef(ncid));
    for (i = 0; i < NREC; i++) CK(ncmpi_fill_var_rec(ncid, varid, i));
    /* records 0, 2, 4; each rank its own two columns */
    start[0] = 0; start[1] = (rank % 2) * 2; count[0] = 3; count[1] = 2; stride[0] = 2; stride[1] = 1;
    for (i = 0; i < 6; i++) buf[i] = 100 * (rank + 1) + i;
    if (rank >= 2) count[0] = 0;
    CK(ncmpi_put_vars_int_all(ncid, varid, start, count, stride, buf));
    CK(ncmpi_close(ncid));
    MPI_Info_free(&info);
    CK(ncmpi_open(MPI_COMM_WORLD, path, NC_NOWRITE, MPI_INFO_NULL, &ncid));
    CK(ncmpi_inq_varid(ncid, "v", &varid));
    CK(ncmpi_get_var_int_all(ncid, varid, out));
    CK(ncmpi_close(ncid));
}
int main(int argc, char **argv)
{
    int rank, nprocs, a[NREC * NX], b[NREC * NX], i, bad = 0;
    char p1[512], p2[512];
    MPI_Init(&argc, &argv);
    MPI_Comm_rank(MPI_COMM_WORLD, &rank); MPI_Comm_size(MPI_COMM_WORLD, &nprocs);
    snprintf(p1, sizeof p1, "%s.off.nc", argv[1]); snprintf(p2, sizeof p2, "%s.on.nc", argv[1]);
    run(p1, "0", rank, nprocs, a);
    run(p2, "1", rank, nprocs, b);
    if (rank == 0) {
        for (i = 0; i < NREC * NX; i++) if (a[i] != b[i]) { if (bad < 6) printf("rec %d col %d: aggregation off %d, on %d\n", i / NX, i % NX, a[i], b[i]); bad++; }
        printf("%d element(s) differ between the two configurations\n", bad);
    }
    MPI_Bcast(&bad, 1, MPI_INT, 0, MPI_COMM_WORLD);
    MPI_Finalize();
    return bad ? 1 : 0;
}
