#!/bin/sh
R=${1:-/repo}; H=$(cd "$(dirname "$0")" && pwd); T=$(mktemp -d /tmp/aggr.XXXX)
mpicc -g -I$R/src/include $H/aggr_rec_stride.c $R/src/libs/.libs/libpnetcdf.a -lm -o $T/prog || exit 2
timeout 120 mpiexec --allow-run-as-root --oversubscribe -n 2 $T/prog $T/f 2>&1 | grep -v "^\[" | head; 
timeout 120 mpiexec --allow-run-as-root --oversubscribe -n 2 $T/prog $T/f >/dev/null 2>&1; rc=$?
rm -rf $T; echo "exit $rc (0 = same content with and without aggregation)"; exit $rc
