#!/bin/sh
R=${1:-/repo}; H=$(cd "$(dirname "$0")" && pwd); T=/tmp/big.$$; mkdir -p $T
mpicc -g -I$R/src/include $H/big_varm.c $R/src/libs/.libs/libpnetcdf.a -lm -o $T/prog || exit 2
rc=0
for m in put get; do
  mpiexec --allow-run-as-root -n 1 $T/prog $T/t.nc $m 2>&1 | grep -v "^\[\|^--\|^Primary\|^a non\|^mpiexec\|^$\|Process name\|Exit code" ; 
  mpiexec --allow-run-as-root -n 1 $T/prog $T/t.nc $m >/dev/null 2>&1 || rc=1
done
rm -rf $T; echo "exit $rc (0 = nothing lost)"; exit $rc
