#!/bin/sh
# valgrind must not report blocks lost through ncmpi_create / ncmpi_open after NC_ENFILE
R=${1:-/repo}; H=$(cd "$(dirname "$0")" && pwd); T=/tmp/enfile.$$; mkdir -p $T
mpicc -g -I$R/src/include $H/enfile.c $R/src/libs/.libs/libpnetcdf.a -lm -o $T/prog || exit 2
mpiexec --allow-run-as-root -n 1 valgrind -q --leak-check=full --show-leak-kinds=definite --num-callers=12 $T/prog $T > $T/log 2>&1
grep -c "done" $T/log
grep -B2 -A12 "definitely lost" $T/log | grep -A12 "definitely" | grep "ncmpi_create\|ncmpi_open\|definitely" | head -10
n=$(grep -A12 "definitely lost" $T/log | grep -c "by .*: ncmpi_create\|by .*: ncmpi_open\|at .*: ncmpi_create\|at .*: ncmpi_open")
rm -rf $T; echo "lost blocks allocated under ncmpi_create/ncmpi_open: $n (0 expected)"; [ "$n" = 0 ]
