/* C17: a bput_varm with a true imap that is refused with NC_EINSUFFBUF left the MPI datatype built from the imap
 * allocated (ncmpio_igetput_varm jumped to its exit without releasing imaptype). */
#include <stdio.h>
#include <mpi.h>
#include <pnetcdf.h>
int main(int argc,char**argv){
  int ncid,d[2],varid,err,req,i,buf[64],refused=0; MPI_Offset st[2]={0,0},ct[2]={4,4},sd[2]={1,1},im[2]={1,4}; /* transposed */
  MPI_Init(&argc,&argv);
  ncmpi_create(MPI_COMM_WORLD,argv[1],NC_CLOBBER,MPI_INFO_NULL,&ncid);
  ncmpi_def_dim(ncid,"y",4,&d[0]); ncmpi_def_dim(ncid,"x",4,&d[1]); ncmpi_def_var(ncid,"v",NC_INT,2,d,&varid); ncmpi_enddef(ncid);
  for(i=0;i<64;i++)buf[i]=i;
  ncmpi_buffer_attach(ncid,32);                       /* too small for 16 ints */
  for(i=0;i<50;i++){ err=ncmpi_bput_varm_int(ncid,varid,st,ct,sd,im,buf,&req); if(err==NC_EINSUFFBUF)refused++; }
  printf("refused %d of 50\n",refused);
  ncmpi_buffer_detach(ncid); ncmpi_close(ncid); MPI_Finalize(); return 0;}
