#!/bin/bash
# usage: run_bput_varm.sh [built pnetcdf tree]   exit 0: no datatype lost, 1: leak under ncmpii_create_imaptype
W="${1:-/repo}"; HERE="$(cd "$(dirname "$0")" && pwd)"
TMP="$(mktemp -d /tmp/c17imap.XXXXXX)" || exit 2
trap 'rm -rf "$TMP"' EXIT
mpicc -g -O0 -I"$W/src/include" -o "$TMP/t" "$HERE/bput_varm_refused.c" "$W/src/libs/.libs/libpnetcdf.a" -lm || exit 2
timeout 300 mpiexec --allow-run-as-root --oversubscribe -n 1 valgrind -q --leak-check=full --show-leak-kinds=definite,indirect --num-callers=30 --log-file="$TMP/vg.%p" "$TMP/t" "$TMP/t.nc"
if grep -q "ncmpii_create_imaptype" "$TMP"/vg.*; then
  grep -h "lost in loss record\|ncmpii_create_imaptype" "$TMP"/vg.* | grep -B1 ncmpii_create_imaptype | head -6
  echo "C17 VIOLATED: MPI datatypes built from the imap are still allocated at exit"; exit 1
fi
echo "C17 holds (no datatype lost)"; exit 0
