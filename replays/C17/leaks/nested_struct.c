/* flexible put with a buffer type = struct { struct { int, float }, int }: the inner struct mixes element types, the
 * call must fail with NC_EMULTITYPES without losing the arrays the outer decode allocated */
#include <stdio.h>
#include <stdlib.h>
#include <mpi.h>
#include <pnetcdf.h>
#define CK(e) do { int _e = (e); if (_e != NC_NOERR) { printf("line %d: %s\n", __LINE__, ncmpi_strerror(_e)); exit(2); } } while (0)
int main(int argc, char **argv)
{
    int ncid, dimid, varid, err, i;
    int bl[2] = {1, 1};
    MPI_Aint dp[2] = {0, 4};
    MPI_Datatype in_t[2] = {MPI_INT, MPI_FLOAT}, inner, out_t[2], outer;
    MPI_Offset start = 0, count = 3;
    char buf[64] = {0};
    MPI_Init(&argc, &argv);
    MPI_Type_create_struct(2, bl, dp, in_t, &inner); MPI_Type_commit(&inner);
    out_t[0] = inner; out_t[1] = MPI_INT; dp[1] = 8;
    MPI_Type_create_struct(2, bl, dp, out_t, &outer); MPI_Type_commit(&outer);
    CK(ncmpi_create(MPI_COMM_WORLD, argv[1], NC_CLOBBER, MPI_INFO_NULL, &ncid));
    CK(ncmpi_def_dim(ncid, "x", 8, &dimid));
    CK(ncmpi_def_var(ncid, "v", NC_INT, 1, &dimid, &varid));
    CK(ncmpi_enddef(ncid));
    for (i = 0; i < 20; i++) {
        err = ncmpi_put_vara_all(ncid, varid, &start, &count, buf, 1, outer);
        if (err != NC_EMULTITYPES) { printf("put: %s\n", ncmpi_strerror(err)); return 2; }
    }
    CK(ncmpi_close(ncid));
    MPI_Type_free(&outer); MPI_Type_free(&inner);
    MPI_Finalize();
    return 0;
}
