/* put_varm / get_varm of more than 2 GiB (in memory type) with a transposing imap and type conversion: without
 * large-count MPI the call fails with NC_EINTOVERFLOW; the conversion buffer it allocated must be released.
 * mallinfo2().hblkhd (bytes in mmapped chunks) is compared before and after: a lost 2 GiB buffer shows up there. */
#include <stdio.h>
#include <stdlib.h>
#include <string.h>
#include <malloc.h>
#include <mpi.h>
#include <pnetcdf.h>
#define CK(e) do { int _e = (e); if (_e != NC_NOERR) { printf("line %d: %s\n", __LINE__, ncmpi_strerror(_e)); exit(2); } } while (0)
int main(int argc, char **argv)
{
    int ncid, dimid[2], varid, err, i, get = (argc > 2 && !strcmp(argv[2], "get"));
    MPI_Offset M = 32769, N = 16385, start[2] = {0, 0}, count[2], stride[2] = {1, 1}, imap[2];
    size_t before, after;
    int *buf;
    MPI_Init(&argc, &argv);
    count[0] = M; count[1] = N; imap[0] = 1; imap[1] = M;          /* transposed memory layout */
    CK(ncmpi_create(MPI_COMM_WORLD, argv[1], NC_CLOBBER | NC_64BIT_DATA, MPI_INFO_NULL, &ncid));
    CK(ncmpi_def_dim(ncid, "y", M, &dimid[0]));
    CK(ncmpi_def_dim(ncid, "x", N, &dimid[1]));
    CK(ncmpi_def_var(ncid, "v", NC_SHORT, 2, dimid, &varid));
    CK(ncmpi_enddef(ncid));
    buf = (int*) calloc((size_t)M * N, sizeof(int));                /* 2 GiB + a little, untouched */
    before = mallinfo2().hblkhd;
    for (i = 0; i < 2; i++) {
        if (get) err = ncmpi_get_varm_int_all(ncid, varid, start, count, stride, imap, buf);
        else     err = ncmpi_put_varm_int_all(ncid, varid, start, count, stride, imap, buf);
        printf("%s_varm: %s\n", get ? "get" : "put", ncmpi_strerror(err));
        if (err != NC_EINTOVERFLOW) return 2;
    }
    after = mallinfo2().hblkhd;
    printf("mmapped heap before %zu MiB, after %zu MiB\n", before >> 20, after >> 20);
    free(buf);
    CK(ncmpi_close(ncid));
    MPI_Finalize();
    return (after > before + (1u << 30)) ? 1 : 0;
}
