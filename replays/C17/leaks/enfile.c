/* open NC_MAX_NFILES files, then one create and one open more: both must fail with NC_ENFILE without losing memory */
#include <stdio.h>
#include <stdlib.h>
#include <mpi.h>
#include <pnetcdf.h>
int main(int argc, char **argv)
{
    int i, err, ncid[NC_MAX_NFILES], extra;
    char path[256], spare[256], extrap[256];
    MPI_Init(&argc, &argv);
    snprintf(spare, sizeof spare, "%s/spare.nc", argv[1]);
    snprintf(extrap, sizeof extrap, "%s/extra.nc", argv[1]);
    err = ncmpi_create(MPI_COMM_SELF, spare, NC_CLOBBER, MPI_INFO_NULL, &extra);
    if (err == NC_NOERR) err = ncmpi_close(extra);
    if (err != NC_NOERR) { printf("spare: %s\n", ncmpi_strerror(err)); return 2; }
    for (i = 0; i < NC_MAX_NFILES; i++) {
        snprintf(path, sizeof path, "%s/f%04d.nc", argv[1], i);
        err = ncmpi_create(MPI_COMM_SELF, path, NC_CLOBBER, MPI_INFO_NULL, &ncid[i]);
        if (err != NC_NOERR) { printf("create %d: %s\n", i, ncmpi_strerror(err)); return 2; }
    }
    for (i = 0; i < 10; i++) {
        err = ncmpi_create(MPI_COMM_SELF, extrap, NC_CLOBBER, MPI_INFO_NULL, &extra);
        if (err != NC_ENFILE) { printf("extra create: %s\n", ncmpi_strerror(err)); return 2; }
        err = ncmpi_open(MPI_COMM_SELF, spare, NC_NOWRITE, MPI_INFO_NULL, &extra);
        if (err != NC_ENFILE) { printf("extra open: %s\n", ncmpi_strerror(err)); return 2; }
    }
    for (i = 0; i < NC_MAX_NFILES; i++) ncmpi_close(ncid[i]);
    MPI_Finalize();
    printf("done\n");
    return 0;
}
