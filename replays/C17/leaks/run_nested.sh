#!/bin/sh
R=${1:-/repo}; H=$(cd "$(dirname "$0")" && pwd); T=/tmp/nested.$$; mkdir -p $T
mpicc -g -I$R/src/include $H/nested_struct.c $R/src/libs/.libs/libpnetcdf.a -lm -o $T/prog || exit 2
mpiexec --allow-run-as-root -n 1 valgrind -q --leak-check=full --show-leak-kinds=definite --num-callers=14 $T/prog $T/t.nc > $T/log 2>&1
grep -v "^==" $T/log | head -3
n=$(grep -A14 "definitely lost" $T/log | grep -c "ncmpii_dtype_decode")
rm -rf $T; echo "loss-record frames in ncmpii_dtype_decode: $n (0 expected)"; [ "$n" = 0 ]
