#!/bin/bash
# usage: run.sh [built pnetcdf tree]   exit 0: nothing allocated by ncmpi_buffer_attach is lost, 1: leak
W="${1:-/repo}"; HERE="$(cd "$(dirname "$0")" && pwd)"
TMP="$(mktemp -d /tmp/c17abuf.XXXXXX)" || exit 2
trap 'rm -rf "$TMP"' EXIT
mpicc -g -O0 -I"$W/src/include" -o "$TMP/t" "$HERE/abuf_close.c" "$W/src/libs/.libs/libpnetcdf.a" -lm || exit 2
timeout 300 mpiexec --allow-run-as-root --oversubscribe -n 2 valgrind -q --leak-check=full --show-leak-kinds=definite,indirect --log-file="$TMP/vg.%p" "$TMP/t" "$TMP/t.nc" >/dev/null 2>&1
if grep -h -B2 -A12 "definitely lost\|indirectly lost" "$TMP"/vg.* | grep -q "ncmpio_buffer_attach"; then
  grep -h -A6 "lost in loss record" "$TMP"/vg.* | grep "lost in loss record\|ncmpio_buffer_attach" | grep -B1 ncmpio_buffer_attach | head -8
  echo "C17 VIOLATED: the attached buffer is still allocated after the last close"; exit 1
fi
echo "C17 holds (attached buffer released at close)"; exit 0
