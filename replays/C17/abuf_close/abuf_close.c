/* C17: "When the last file is closed the library holds no heap memory ... whatever mixture of successful and failing calls
 * preceded".  ncmpi_buffer_attach allocates the buffer and its slot table inside the library; ncmpi_close without a
 * detach released only the descriptor (ncmpio_free_NC), the two blocks stayed allocated. */
#include <stdio.h>
#include <mpi.h>
#include <pnetcdf.h>
int main(int argc,char**argv){
  int ncid,dimid,varid,err,req,st,v[4]={1,2,3,4}; MPI_Init(&argc,&argv);
  err=ncmpi_create(MPI_COMM_WORLD,argv[1],NC_CLOBBER,MPI_INFO_NULL,&ncid);
  ncmpi_def_dim(ncid,"x",4,&dimid); ncmpi_def_var(ncid,"v",NC_INT,1,&dimid,&varid); ncmpi_enddef(ncid);
  err=ncmpi_buffer_attach(ncid,1000000); if(err)printf("attach: %s\n",ncmpi_strerror(err));
  err=ncmpi_bput_var_int(ncid,varid,v,&req); err=ncmpi_wait_all(ncid,1,&req,&st);
  err=ncmpi_close(ncid); if(err)printf("close: %s\n",ncmpi_strerror(err));
  MPI_Finalize(); return 0;}
