/* F-C17-1: a stale ncid used while another file is open must return NC_EBADID, not crash. */
#include <stdio.h>
#include <stdlib.h>
#include <signal.h>
#include <unistd.h>
#include <mpi.h>
#include <pnetcdf.h>
static void segv(int s){ printf("SIGSEGV on stale id (defect manifests)\n"); fflush(stdout); _exit(1); }
int main(int argc,char**argv){ int a,b,err,nd=-1; MPI_Init(&argc,&argv); signal(SIGSEGV,segv);
 ncmpi_create(MPI_COMM_WORLD,"/tmp/stale_a.nc",NC_CLOBBER,MPI_INFO_NULL,&a);
 ncmpi_create(MPI_COMM_WORLD,"/tmp/stale_b.nc",NC_CLOBBER,MPI_INFO_NULL,&b);
 ncmpi_close(a);                       /* a is stale now, b still open */
 err=ncmpi_inq_ndims(a,&nd); printf("ncmpi_inq_ndims(stale id) -> %s\n",ncmpi_strerrno(err));
 ncmpi_close(b); MPI_Finalize(); return err==NC_EBADID?0:1; }
