/* pre-existing: ncmpi_open() with inconsistent omode AND a failing driver open.
 * Rank 0 passes NC_NOWRITE|NC_MMAP (refused by the driver), rank 1 NC_NOWRITE.
 * Root's omode is used, the driver returns NC_EINVAL_OMODE everywhere, but on
 * rank 1 status is already NC_EMULTIDEFINE_OMODE, so ncmpi_open() carries on
 * with a NULL driver object and crashes in driver->inq().
 * run: mpiexec -n 2 ./pre4 <dir>                                             */
#include <stdio.h>
#include <mpi.h>
#include <pnetcdf.h>
int main(int argc, char **argv) {
    char path[512]; int rank, err, id = -7;
    MPI_Init(&argc, &argv); MPI_Comm_rank(MPI_COMM_WORLD, &rank);
    snprintf(path, sizeof(path), "%s/pre4.nc", argc > 1 ? argv[1] : ".");
    err = ncmpi_create(MPI_COMM_WORLD, path, NC_CLOBBER, MPI_INFO_NULL, &id);
    if (err) { printf("setup: %s\n", ncmpi_strerror(err)); MPI_Abort(MPI_COMM_WORLD, 2); }
    ncmpi_close(id);
    id = -7;
    err = ncmpi_open(MPI_COMM_WORLD, path, rank == 0 ? (NC_NOWRITE|NC_MMAP) : NC_NOWRITE,
                     MPI_INFO_NULL, &id);
    printf("[rank %d] open -> %d (%s), ncid = %d\n", rank, err, ncmpi_strerror(err), id);
    fflush(stdout);
    if (id >= 0) ncmpi_close(id);
    MPI_Finalize();
    return 0;
}
