#!/bin/bash
# usage: run.sh [built pnetcdf tree]   exit 0: a failed create / open hands out no id on any rank
# C17: ncmpi_create / ncmpi_open with an inconsistent mode argument across the ranks (noted as the non-fatal
# NC_EMULTIDEFINE_CMODE / _OMODE) AND a failing driver call: the driver's error was kept only when status was still
# NC_NOERR, so on the rank that had noted the inconsistency the failure was not seen - it skipped the clean-up and
# returned a "valid" id whose driver object is NULL (SIGSEGV in the next call on it; in ncmpi_open already inside).
# (create.c / open.c: reproducers of the sub-agent that produced seeded change C17_g)
W="${1:-/repo}"; HERE="$(cd "$(dirname "$0")" && pwd)"
TMP="$(mktemp -d /tmp/c17md.XXXXXX)" || exit 2
trap 'rm -rf "$TMP"' EXIT
rc=0
for n in create open; do
  mpicc -g -O0 -I"$W/src/include" -o "$TMP/$n" "$HERE/$n.c" "$W/src/libs/.libs/libpnetcdf.a" -lm || exit 2
  out=$(timeout 60 mpiexec --allow-run-as-root --oversubscribe -n 2 "$TMP/$n" "$TMP" 2>&1); r=$?
  echo "$out" | grep "^\[rank"
  ids=$(echo "$out" | grep -c "ncid = -1")
  [ $r -eq 0 ] && [ "$ids" -eq 2 ] || { echo "$n: exit $r, $ids of 2 ranks got ncid = -1"; rc=1; }
done
exit $rc
