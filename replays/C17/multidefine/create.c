/* pre-existing: ncmpi_create() with inconsistent cmode AND a failing driver
 * create.  Rank 0 passes NC_NOCLOBBER on an existing file, rank 1 passes
 * NC_CLOBBER.  Root's cmode is used, the driver fails with NC_EEXIST on all
 * ranks, but on rank 1 status is already NC_EMULTIDEFINE_CMODE so the failure
 * is not seen: rank 1 gets a "valid" id whose driver object is NULL.
 * run: mpiexec -n 2 ./pre1 <dir>      (unmodified tree)                     */
#include <stdio.h>
#include <mpi.h>
#include <pnetcdf.h>
int main(int argc, char **argv) {
    char path[512]; int rank, err, id = -7, fmt;
    MPI_Init(&argc, &argv); MPI_Comm_rank(MPI_COMM_WORLD, &rank);
    snprintf(path, sizeof(path), "%s/pre1.nc", argc > 1 ? argv[1] : ".");
    err = ncmpi_create(MPI_COMM_WORLD, path, NC_CLOBBER, MPI_INFO_NULL, &id);
    if (err) { printf("setup: %s\n", ncmpi_strerror(err)); MPI_Abort(MPI_COMM_WORLD, 2); }
    ncmpi_close(id);
    id = -7;
    err = ncmpi_create(MPI_COMM_WORLD, path, rank == 0 ? NC_NOCLOBBER : NC_CLOBBER,
                       MPI_INFO_NULL, &id);
    printf("[rank %d] create -> %d (%s), ncid = %d\n", rank, err, ncmpi_strerror(err), id);
    fflush(stdout);
    if (id >= 0) {
        err = ncmpi_inq_format(id, &fmt);
        printf("[rank %d] id %d is accepted by ncmpi_inq_format: %s; now ncmpi_abort(id) ...\n",
               rank, id, ncmpi_strerror(err));
        fflush(stdout);
        err = ncmpi_abort(id); /* NULL driver object -> crash */
        printf("[rank %d] abort -> %s\n", rank, ncmpi_strerror(err));
    }
    MPI_Finalize();
    return 0;
}
