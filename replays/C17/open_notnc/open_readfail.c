/* C17: "when the last file is closed the library holds no heap memory ... whatever mixture of successful and failing
 * calls preceded".  ncmpi_open of a valid file whose first header read fails (PMPI interposition: the first
 * MPI_File_read_at / MPI_File_read_at_all of every open reports MPI_ERR_IO) fails; ncmpio_hdr_get_NC() returned on
 * that path without releasing the header read buffer (nc_header_read_chunk_size bytes).  The program creates a small
 * file, then opens it N times with the fault armed and a 1 MiB read chunk and reports the heap growth (mallinfo2).
 * usage: open_readfail <scratch dir>; exit 0 = no growth, 1 = the buffer of every failed open is still allocated */
#include <stdio.h>
#include <stdlib.h>
#include <string.h>
#include <malloc.h>
#include <mpi.h>
#include <pnetcdf.h>
static int armed = 0;
int MPI_File_read_at(MPI_File fh, MPI_Offset off, void *buf, int count, MPI_Datatype t, MPI_Status *st) {
    if (armed) { armed = 0; PMPI_File_read_at(fh, off, buf, 0, t, st); return MPI_ERR_IO; }
    return PMPI_File_read_at(fh, off, buf, count, t, st);
}
int MPI_File_read_at_all(MPI_File fh, MPI_Offset off, void *buf, int count, MPI_Datatype t, MPI_Status *st) {
    if (armed) { armed = 0; PMPI_File_read_at_all(fh, off, buf, 0, t, st); return MPI_ERR_IO; }
    return PMPI_File_read_at_all(fh, off, buf, count, t, st);
}
int main(int argc, char **argv) {
    char path[1024]; int i, err, ncid, dimid, varid, first = 0; MPI_Info info; size_t before, after;
    MPI_Init(&argc, &argv);
    snprintf(path, sizeof(path), "%s/small.nc", argc > 1 ? argv[1] : ".");
    err = ncmpi_create(MPI_COMM_WORLD, path, NC_CLOBBER, MPI_INFO_NULL, &ncid); if (err) return 2;
    ncmpi_def_dim(ncid, "x", 4, &dimid); ncmpi_def_var(ncid, "v", NC_INT, 1, &dimid, &varid);
    ncmpi_enddef(ncid); ncmpi_close(ncid);
    MPI_Info_create(&info); MPI_Info_set(info, "nc_header_read_chunk_size", "1048576");
    for (i = 0; i < 3; i++) { armed = 1; err = ncmpi_open(MPI_COMM_WORLD, path, NC_NOWRITE, info, &ncid); first = err;
                              if (err == NC_NOERR) ncmpi_close(ncid); }   /* warm up */
    before = mallinfo2().uordblks + mallinfo2().hblkhd;
    for (i = 0; i < 50; i++) {
        armed = 1;
        err = ncmpi_open(MPI_COMM_WORLD, path, NC_NOWRITE, info, &ncid);
        if (err == NC_NOERR) { printf("unexpected: open succeeded\n"); ncmpi_close(ncid); }
    }
    armed = 0;
    after = mallinfo2().uordblks + mallinfo2().hblkhd;
    printf("ncmpi_open with a failing header read: %s; heap in use before/after 50 failed opens: %zu / %zu bytes (growth %ld)\n",
           ncmpi_strerror(first), before, after, (long)after - (long)before);
    MPI_Info_free(&info); MPI_Finalize();
    return ((long)after - (long)before > 1048576) ? 1 : 0;
}
