#!/bin/bash
# usage: run.sh [built pnetcdf tree]   exit 0: failed opens release the header buffer, 1: they leak it
W="${1:-/repo}"; HERE="$(cd "$(dirname "$0")" && pwd)"
TMP="$(mktemp -d /tmp/c17notnc.XXXXXX)" || exit 2
trap 'rm -rf "$TMP"' EXIT
mpicc -g -O0 -I"$W/src/include" -o "$TMP/t" "$HERE/open_readfail.c" "$W/src/libs/.libs/libpnetcdf.a" -lm || exit 2
timeout 120 mpiexec --allow-run-as-root --oversubscribe -n 1 "$TMP/t" "$TMP"; r=$?
[ $r -eq 0 ] && echo "C17 holds (no growth)" || echo "C17 VIOLATED: header read buffers of failed opens are never released"
exit $r
