#!/bin/bash
# usage: run.sh [built pnetcdf tree]   exit 0: an abort with a pending nonblocking request releases everything
# C17: "When the last file is closed the library holds no heap memory ... closing with pending nonblocking requests cancels
# them and says so".  ncmpio_abort released the file object without cancelling pending requests: their queues, start
# arrays and conversion buffers stayed allocated (about 115 KB per abort with one pending iput).
# (abort_pending.c: the reproducer of the sub-agent that produced seeded change C17_g; NC_EPENDING from abort is accepted)
W="${1:-/repo}"; HERE="$(cd "$(dirname "$0")" && pwd)"
TMP="$(mktemp -d /tmp/c17ab.XXXXXX)" || exit 2
trap 'rm -rf "$TMP"' EXIT
mpicc -g -O0 -I"$W/src/include" -o "$TMP/t" "$HERE/abort_pending.c" "$W/src/libs/.libs/libpnetcdf.a" -lm || exit 2
timeout 300 mpiexec --allow-run-as-root --oversubscribe -n 1 "$TMP/t" "$TMP" | grep "heap growth\|abort"
exit ${PIPESTATUS[0]}
