/* pre-existing: ncmpi_abort() with pending nonblocking requests does not cancel
 * them (ncmpio_abort never calls ncmpio_cancel; ncmpio_free_NC frees put_list /
 * get_list but not put_lead_list / get_lead_list, the start[] copies, the
 * xbuf of a converted request or the duplicated buftype).  Heap growth is measured with
 * mallinfo2() over N create / iput / abort cycles and compared with
 * create / iput / wait_all / close cycles.   run: mpiexec -n 1 ./pre2 <dir>  */
#include <stdio.h>
#include <stdlib.h>
#include <malloc.h>
#include <mpi.h>
#include <pnetcdf.h>
#define CK(e) do { int e_=(e); if (e_) { printf("line %d: %s\n", __LINE__, ncmpi_strerror(e_)); MPI_Abort(MPI_COMM_WORLD,2);} } while(0)
static size_t used(void) { struct mallinfo2 m = mallinfo2(); return m.uordblks + m.hblkhd; }
static void cycle(const char *path, int do_abort) {
    int id, dim, var, req; double buf[64]; MPI_Offset st = 0, ct = 64; int i;
    for (i = 0; i < 64; i++) buf[i] = i;
    CK(ncmpi_create(MPI_COMM_WORLD, path, NC_CLOBBER, MPI_INFO_NULL, &id));
    CK(ncmpi_def_dim(id, "x", 64, &dim));
    CK(ncmpi_def_var(id, "v", NC_INT, 1, &dim, &var)); /* double->int: xbuf allocated */
    CK(ncmpi_enddef(id));
    CK(ncmpi_iput_vara_double(id, var, &st, &ct, buf, &req));
    if (do_abort) { int e_ = ncmpi_abort(id); if (e_ != NC_NOERR && e_ != NC_EPENDING) { printf("abort: %s\n", ncmpi_strerror(e_)); MPI_Abort(MPI_COMM_WORLD,2);} }
    else { CK(ncmpi_wait_all(id, NC_REQ_ALL, NULL, NULL)); CK(ncmpi_close(id)); }
}
int main(int argc, char **argv) {
    char path[512]; int i, N = 200; size_t a, b, c;
    MPI_Init(&argc, &argv);
    snprintf(path, sizeof(path), "%s/pre2.nc", argc > 1 ? argv[1] : ".");
    for (i = 0; i < 5; i++) cycle(path, 0);       /* warm up */
    a = used(); for (i = 0; i < N; i++) cycle(path, 0);
    b = used(); for (i = 0; i < N; i++) cycle(path, 1);
    c = used();
    printf("heap growth over %d wait+close cycles : %ld bytes\n", N, (long)(b - a));
    printf("heap growth over %d iput+abort cycles : %ld bytes (%ld per cycle)\n",
           N, (long)(c - b), (long)(c - b) / N);
    MPI_Finalize();
    return ((long)(c - b) / N > 64) ? 1 : 0;
}
