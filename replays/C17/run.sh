#!/bin/sh
R=${1:-/repo}; H=$(cd "$(dirname "$0")" && pwd)
mpicc -I$R/src/include $H/stale_id.c $R/src/libs/.libs/libpnetcdf.a -lm -o /tmp/stale_id.$$ || exit 2
timeout 60 mpiexec --allow-run-as-root -n 1 /tmp/stale_id.$$; rc=$?; rm -f /tmp/stale_id.$$ /tmp/stale_a.nc /tmp/stale_b.nc; echo "exit $rc (0 = NC_EBADID returned)"; exit $rc
