/* C17: MPI datatypes built for a request must be released also when the request is then refused with NC_EINTOVERFLOW
 * (this library is built without large-count MPI).  Each scenario repeats one failing call and compares the heap in
 * use (mallinfo2().uordblks) before and after: a datatype lost per call shows as steady growth.
 *   A  put_vara on a fixed variable, count[0] > INT_MAX in the slowest of 3 dimensions (type_create_subarray64 loop)
 *   B  put_vara on a record variable with count[0] > INT_MAX records               (filetype_create_vara, rectype)
 *   C  header extent > 2 GiB: get_varm with a true imap, non-contiguous in the file (get_varm, imaptype)
 *   D  same file: two iput requests with separate buffers, completed in independent mode    (mgetput, buf_type)
 *   E  same file: two interleaved iput requests, completed in independent mode      (req_aggregation, buf_type) */
#include <stdio.h>
#include <stdlib.h>
#include <string.h>
#include <malloc.h>
#include <mpi.h>
#include <pnetcdf.h>
#define CK(e) do { int _e = (e); if (_e != NC_NOERR) { printf("line %d: %s\n", __LINE__, ncmpi_strerror(_e)); exit(2); } } while (0)
#define REP 400
static long heap(void){ struct mallinfo2 m=mallinfo2(); return (long)m.uordblks; }
int main(int argc,char**argv){
  int ncid,d[3],dr[3],vf,vr,vs,err,i,bad=0; long h0,h1; char path[512];
  MPI_Offset BIG=2147483648LL+8, st[3]={0,0,0}, ct[3];
  signed char *buf;
  MPI_Init(&argc,&argv);
  /* ---- A, B ---- */
  snprintf(path,sizeof path,"%s.ab",argv[1]);
  CK(ncmpi_create(MPI_COMM_WORLD,path,NC_CLOBBER|NC_64BIT_DATA,MPI_INFO_NULL,&ncid));
  CK(ncmpi_def_dim(ncid,"a",BIG,&d[0])); CK(ncmpi_def_dim(ncid,"b",2,&d[1])); CK(ncmpi_def_dim(ncid,"c",2,&d[2]));
  CK(ncmpi_def_dim(ncid,"t",NC_UNLIMITED,&dr[0])); dr[1]=d[1]; dr[2]=d[2];
  CK(ncmpi_def_var(ncid,"f",NC_BYTE,3,d,&vf)); CK(ncmpi_def_var(ncid,"r",NC_BYTE,3,dr,&vr));
  CK(ncmpi_enddef(ncid));
  buf=calloc((size_t)BIG,1); ct[0]=2147483648LL+1; ct[1]=1; ct[2]=1;
  for(i=0;i<3;i++) ncmpi_put_vara_schar_all(ncid,vf,st,ct,buf);           /* warm up */
  h0=heap(); for(i=0;i<REP;i++){ err=ncmpi_put_vara_schar_all(ncid,vf,st,ct,buf); if(err!=NC_EINTOVERFLOW){printf("A: %s\n",ncmpi_strerror(err));return 2;} } h1=heap();
  printf("A fixed variable, count[0] > INT_MAX:   NC_EINTOVERFLOW x %d, heap growth %ld bytes\n",REP,h1-h0); if(h1-h0>REP*32)bad++;
  for(i=0;i<3;i++) ncmpi_put_vara_schar_all(ncid,vr,st,ct,buf);
  h0=heap(); for(i=0;i<REP;i++){ err=ncmpi_put_vara_schar_all(ncid,vr,st,ct,buf); if(err!=NC_EINTOVERFLOW){printf("B: %s\n",ncmpi_strerror(err));return 2;} } h1=heap();
  printf("B record variable, count[0] > INT_MAX:  NC_EINTOVERFLOW x %d, heap growth %ld bytes\n",REP,h1-h0); if(h1-h0>REP*32)bad++;
  free(buf); CK(ncmpi_close(ncid));
  /* ---- C, D, E: header extent beyond 2 GiB ---- */
  snprintf(path,sizeof path,"%s.cde",argv[1]);
  CK(ncmpi_create(MPI_COMM_WORLD,path,NC_CLOBBER|NC_64BIT_DATA,MPI_INFO_NULL,&ncid));
  CK(ncmpi_def_dim(ncid,"y",4,&d[0])); CK(ncmpi_def_dim(ncid,"x",4,&d[1]));
  CK(ncmpi_def_var(ncid,"s",NC_INT,2,d,&vs));
  CK(ncmpi__enddef(ncid,2147483648LL+64,4,0,4));
  { int m[16],req[2],sts[2],b1[4],b2[4],gap[64]; MPI_Offset s2[2]={0,0},c2[2]={4,2},sd[2]={1,1},im[2]={1,4};
    for(i=0;i<3;i++) ncmpi_get_varm_int_all(ncid,vs,s2,c2,sd,im,m);
    h0=heap(); for(i=0;i<REP;i++){ err=ncmpi_get_varm_int_all(ncid,vs,s2,c2,sd,im,m); if(err!=NC_EINTOVERFLOW){printf("C: %s\n",ncmpi_strerror(err));return 2;} } h1=heap();
    printf("C get_varm, header extent > 2 GiB:      NC_EINTOVERFLOW x %d, heap growth %ld bytes\n",REP,h1-h0); if(h1-h0>REP*32)bad++;
    CK(ncmpi_begin_indep_data(ncid)); (void)gap;
    { MPI_Offset sa[2]={0,0},ca[2]={2,2},sb[2]={2,0},cb[2]={2,2};
      for(i=0;i<REP+3;i++){ if(i==3)h0=heap();
        CK(ncmpi_iput_vara_int(ncid,vs,sa,ca,b1,&req[0])); CK(ncmpi_iput_vara_int(ncid,vs,sb,cb,b2,&req[1]));
        err=ncmpi_wait(ncid,2,req,sts); if(err!=NC_EINTOVERFLOW){printf("D: %s\n",ncmpi_strerror(err));return 2;} }
      h1=heap(); printf("D independent wait, separate buffers:   NC_EINTOVERFLOW x %d, heap growth %ld bytes\n",REP,h1-h0); if(h1-h0>REP*32)bad++; }
    { MPI_Offset sa[2]={0,0},ca[2]={4,1},sb[2]={0,1},cb[2]={4,1};       /* two columns: interleaved in the file */
      for(i=0;i<REP+3;i++){ if(i==3)h0=heap();
        CK(ncmpi_iput_vara_int(ncid,vs,sa,ca,b1,&req[0])); CK(ncmpi_iput_vara_int(ncid,vs,sb,cb,b2,&req[1]));
        err=ncmpi_wait(ncid,2,req,sts); if(err!=NC_EINTOVERFLOW){printf("E: %s\n",ncmpi_strerror(err));return 2;} }
      h1=heap(); printf("E independent wait, interleaved columns: NC_EINTOVERFLOW x %d, heap growth %ld bytes\n",REP,h1-h0); if(h1-h0>REP*32)bad++; }
    CK(ncmpi_end_indep_data(ncid)); }
  CK(ncmpi_close(ncid));
  printf("%s (%d of 5 scenarios lose memory per failing call)\n",bad?"C17 VIOLATED":"C17 holds",bad);
  MPI_Finalize(); return bad?1:0;}
