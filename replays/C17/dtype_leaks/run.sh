#!/bin/bash
# usage: run.sh [built pnetcdf tree]
W="${1:-/repo}"; HERE="$(cd "$(dirname "$0")" && pwd)"
TMP="$(mktemp -d /tmp/c17dt.XXXXXX)" || exit 2
trap 'rm -rf "$TMP"' EXIT
mpicc -g -O0 -I"$W/src/include" -o "$TMP/t" "$HERE/overflow_types.c" "$W/src/libs/.libs/libpnetcdf.a" -lm || exit 2
timeout 900 mpiexec --allow-run-as-root --oversubscribe -n 1 "$TMP/t" "$TMP/t.nc"
