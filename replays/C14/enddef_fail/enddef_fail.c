/* C14: "each open file is at any time in exactly one of define mode, collective data mode or independent data mode".
 * ncmpio__enddef() finishes the transition (clears NC_MODE_DEF in the driver's NC.flags) also when it returns an error
 * (here: the header write fails once, PMPI interposition); the dispatcher records the transition only when the driver
 * returns NC_NOERR.  After the failed ncmpi_enddef the dispatcher holds the file in define mode and the driver in data
 * mode: ncmpi_put_var_int_all is refused with NC_EINDEFINE (dispatcher) while ncmpi_inq_header_extent-style driver
 * state says data mode; ncmpi_redef is refused with NC_EINDEFINE although ncmpi_enddef reported failure.
 * usage: enddef_fail <file>; exit 0 = layers agree after the failed enddef, 1 = they disagree */
#include <stdio.h>
#include <mpi.h>
#include <pnetcdf.h>
static int armed = 0;
int MPI_File_write_at(MPI_File fh, MPI_Offset off, const void *buf, int count, MPI_Datatype t, MPI_Status *st) {
    if (armed) { armed = 0; PMPI_File_write_at(fh, off, buf, 0, t, st); return MPI_ERR_IO; }
    return PMPI_File_write_at(fh, off, buf, count, t, st);
}
int MPI_File_write_at_all(MPI_File fh, MPI_Offset off, const void *buf, int count, MPI_Datatype t, MPI_Status *st) {
    if (armed) { armed = 0; PMPI_File_write_at_all(fh, off, buf, 0, t, st); return MPI_ERR_IO; }
    return PMPI_File_write_at_all(fh, off, buf, count, t, st);
}
int main(int argc, char **argv) {
    int ncid, d, v, e0, e1, e2, e3, buf[4] = {1, 2, 3, 4}, bad;
    MPI_Init(&argc, &argv);
    ncmpi_create(MPI_COMM_WORLD, argv[1], NC_CLOBBER, MPI_INFO_NULL, &ncid);
    ncmpi_def_dim(ncid, "x", 4, &d); ncmpi_def_var(ncid, "v", NC_INT, 1, &d, &v);
    armed = 1;
    e0 = ncmpi_enddef(ncid);                      /* header write fails */
    armed = 0;
    e1 = ncmpi_put_var_int_all(ncid, v, buf);     /* dispatcher's view: define mode -> NC_EINDEFINE */
    e2 = ncmpi_begin_indep_data(ncid);            /* dispatcher: define mode -> NC_EINDEFINE */
    e3 = ncmpi_redef(ncid);                       /* dispatcher: already in define mode -> NC_EINDEFINE */
    printf("enddef -> %s; then put_var_int_all -> %s, begin_indep_data -> %s, redef -> %s\n",
           ncmpi_strerrno(e0), ncmpi_strerrno(e1), ncmpi_strerrno(e2), ncmpi_strerrno(e3));
    /* a failed enddef that left the file in define mode in both layers lets a second enddef finish the job and the put succeed;
       one that left data mode in both layers lets the put succeed right away */
    bad = (e0 != NC_NOERR) && (e1 == NC_EINDEFINE) && (e3 == NC_EINDEFINE);
    { int e4 = ncmpi_enddef(ncid); int e5 = ncmpi_put_var_int_all(ncid, v, buf);
      printf("second enddef -> %s, put_var_int_all -> %s\n", ncmpi_strerrno(e4), ncmpi_strerrno(e5)); }
    printf("%s\n", bad ? "after the failed enddef the dispatcher is in define mode (put, redef: NC_EINDEFINE) while the driver has left it" : "consistent");
    ncmpi_close(ncid);
    MPI_Finalize(); return bad;
}
