#!/bin/bash
# usage: run.sh [built pnetcdf tree]
# C14: a failing ncmpi_begin_indep_data (the file is unlinked after open, so the MPI_COMM_SELF open fails) must leave the file
# in collective data mode in both layers.  The driver raised NC_MODE_INDEP before the open: afterwards get_vara answered
# NC_ENOTINDEP (dispatcher: collective) and wait_all answered NC_EINDEP (driver: independent).
# begin_indep_fail.c was written by the sub-agent that produced seeded change C14_i.  exit 0: consistent, 1: layers disagree
W="${1:-/repo}"; HERE="$(cd "$(dirname "$0")" && pwd)"
TMP="$(mktemp -d /tmp/c14bi.XXXXXX)" || exit 2
trap 'rm -rf "$TMP"' EXIT
mpicc -g -O0 -I"$W/src/include" -o "$TMP/t" "$HERE/begin_indep_fail.c" "$W/src/libs/.libs/libpnetcdf.a" -lm || exit 2
timeout 60 mpiexec --allow-run-as-root --oversubscribe -n 2 "$TMP/t" "$TMP/x.nc" 2>&1 | grep "^rank\|layers\|consistent"
exit ${PIPESTATUS[0]}
