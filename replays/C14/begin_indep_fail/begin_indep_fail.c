/* Pre-existing (unmodified library): ncmpio_begin_indep_data() raises
 * NC_MODE_INDEP in the driver's NC.flags BEFORE it opens the independent file
 * handle.  When that MPI_File_open(MPI_COMM_SELF) fails, the error is returned
 * and the dispatcher does not set its own NC_MODE_INDEP: the failed call has
 * changed the driver's mode, and the two layers now disagree.
 *
 * Needs >= 2 processes (with 1 process the independent handle is the
 * collective one).  The open is made to fail by unlinking the file after
 * ncmpi_open.
 * exit 0: the rejected call left the file in collective mode in both layers
 * exit 1: layers disagree after the failed ncmpi_begin_indep_data
 */
#include <stdio.h>
#include <unistd.h>
#include <mpi.h>
#include <pnetcdf.h>
int main(int argc, char **argv) {
    const char *path = (argc > 1) ? argv[1] : "pre_begin_indep.nc";
    int rank, ncid, d, v, buf[4] = {1,2,3,4}, e0, e1, e2, e3, bad, any;
    MPI_Offset s[1] = {0}, c[1] = {4};
    MPI_Init(&argc, &argv); MPI_Comm_rank(MPI_COMM_WORLD, &rank);
    ncmpi_create(MPI_COMM_WORLD, path, NC_CLOBBER, MPI_INFO_NULL, &ncid);
    ncmpi_def_dim(ncid, "x", 4, &d); ncmpi_def_var(ncid, "v", NC_INT, 1, &d, &v);
    ncmpi_enddef(ncid); ncmpi_put_var_int_all(ncid, v, buf); ncmpi_close(ncid);
    ncmpi_open(MPI_COMM_WORLD, path, NC_WRITE, MPI_INFO_NULL, &ncid);
    MPI_Barrier(MPI_COMM_WORLD);
    if (rank == 0) unlink(path);
    MPI_Barrier(MPI_COMM_WORLD);
    e0 = ncmpi_begin_indep_data(ncid);            /* fails: file is gone */
    e1 = ncmpi_get_vara_int(ncid, v, s, c, buf);  /* dispatcher's view  */
    e2 = ncmpi_wait(ncid, 0, NULL, NULL);         /* driver's view      */
    e3 = ncmpi_wait_all(ncid, 0, NULL, NULL);     /* driver's view      */
    printf("rank %d: begin_indep_data -> %s; then get_vara_int -> %s, wait -> %s, wait_all -> %s\n",
           rank, ncmpi_strerrno(e0), ncmpi_strerrno(e1), ncmpi_strerrno(e2), ncmpi_strerrno(e3));
    bad = (e0 != NC_NOERR) && !(e1 == NC_ENOTINDEP && e2 == NC_ENOTINDEP && e3 == NC_NOERR);
    MPI_Allreduce(&bad, &any, 1, MPI_INT, MPI_MAX, MPI_COMM_WORLD);
    if (rank == 0) printf("%s\n", any ? "layers DISAGREE after a rejected begin_indep_data" : "consistent");
    if (!any) ncmpi_close(ncid);
    MPI_Finalize();
    return any;
}
