#!/bin/bash
# usage: run.sh [built pnetcdf tree]   exit 0: layers agree after a failed ncmpi_end_indep_data, 1: they disagree (F-C14-3)
W="${1:-/repo}"; HERE="$(cd "$(dirname "$0")" && pwd)"
TMP="$(mktemp -d /tmp/c14ei.XXXXXX)" || exit 2
trap 'rm -rf "$TMP"' EXIT
mpicc -g -O0 -I"$W/src/include" -o "$TMP/t" "$HERE/end_indep_fail.c" "$W/src/libs/.libs/libpnetcdf.a" -lm || exit 2
timeout 60 mpiexec --allow-run-as-root --oversubscribe -n 1 "$TMP/t" "$TMP/x.nc" 2>&1 | grep "^end_indep\|^after\|consistent"
exit ${PIPESTATUS[0]}
