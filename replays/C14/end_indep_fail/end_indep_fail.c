/* C14: ncmpio_end_indep_data() clears NC_MODE_INDEP also when the record-count sync it performs fails (here: the write of
 * numrecs fails once, PMPI interposition); the dispatcher clears its flag only when the driver returns NC_NOERR.  After the
 * failed ncmpi_end_indep_data the dispatcher holds the file in independent mode and the driver in collective mode.
 * usage: end_indep_fail <file>; exit 0 = layers agree after the failed call, 1 = they disagree (known finding F-C14-3) */
#include <stdio.h>
#include <mpi.h>
#include <pnetcdf.h>
static int armed = 0;
int MPI_File_write_at(MPI_File fh, MPI_Offset off, const void *buf, int count, MPI_Datatype t, MPI_Status *st) {
    if (armed) { armed = 0; PMPI_File_write_at(fh, off, buf, 0, t, st); return MPI_ERR_IO; }
    return PMPI_File_write_at(fh, off, buf, count, t, st);
}
int MPI_File_write_at_all(MPI_File fh, MPI_Offset off, const void *buf, int count, MPI_Datatype t, MPI_Status *st) {
    if (armed) { armed = 0; PMPI_File_write_at_all(fh, off, buf, 0, t, st); return MPI_ERR_IO; }
    return PMPI_File_write_at_all(fh, off, buf, count, t, st);
}
int main(int argc, char **argv) {
    int ncid, d, v, e0, e1, e2, e3, val = 7, bad; MPI_Offset s[1] = {2}, c[1] = {1};
    MPI_Init(&argc, &argv);
    ncmpi_create(MPI_COMM_WORLD, argv[1], NC_CLOBBER, MPI_INFO_NULL, &ncid);
    ncmpi_def_dim(ncid, "t", NC_UNLIMITED, &d); ncmpi_def_var(ncid, "v", NC_INT, 1, &d, &v);
    ncmpi_enddef(ncid);
    ncmpi_begin_indep_data(ncid);
    ncmpi_put_vara_int(ncid, v, s, c, &val);          /* three records: the count is dirty */
    armed = 1;
    e0 = ncmpi_end_indep_data(ncid);                  /* the write of numrecs fails */
    armed = 0;
    e1 = ncmpi_put_vara_int_all(ncid, v, s, c, &val); /* dispatcher's view */
    e2 = ncmpi_wait(ncid, 0, NULL, NULL);             /* independent wait: driver's view */
    e3 = ncmpi_wait_all(ncid, 0, NULL, NULL);         /* collective wait: driver's view */
    printf("end_indep_data -> %s; then put_vara_int_all -> %s, wait -> %s, wait_all -> %s\n",
           ncmpi_strerrno(e0), ncmpi_strerrno(e1), ncmpi_strerrno(e2), ncmpi_strerrno(e3));
    bad = (e0 != NC_NOERR) && ((e1 == NC_EINDEP) != (e3 == NC_EINDEP));
    printf("%s\n", bad ? "after the failed end_indep_data the dispatcher is in independent mode and the driver in collective mode" : "consistent");
    if (e1 == NC_EINDEP) ncmpi_end_indep_data(ncid);
    ncmpi_close(ncid);
    MPI_Finalize(); return bad;
}
