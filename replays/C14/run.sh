#!/bin/sh
R=${1:-/repo}; H=$(cd "$(dirname "$0")" && pwd)
mpicc -I$R/src/include $H/fill_var_rec_guard.c $R/src/libs/.libs/libpnetcdf.a -lm -o /tmp/fvr.$$ || exit 2
timeout 60 mpiexec --allow-run-as-root -n 1 /tmp/fvr.$$ /tmp/fvr.$$.nc 2>&1 | grep -v '^--\|^Primary\|^a non\|^mpiexec\|job to be\|^$\|Process name\|Exit code'; rc=${PIPESTATUS:-$?}
timeout 60 mpiexec --allow-run-as-root -n 1 /tmp/fvr.$$ /tmp/fvr.$$.nc >/dev/null 2>&1; rc=$?; rm -f /tmp/fvr.$$ /tmp/fvr.$$.nc; echo "exit $rc"; exit $rc
