/* F-C14-1: ncmpi_fill_var_rec must reject define mode / independent mode / bad varid (no effect, documented error). */
#include <stdio.h>
#include <stdlib.h>
#include <signal.h>
#include <unistd.h>
#include <mpi.h>
#include <pnetcdf.h>
static void segv(int s){ printf("SIGSEGV inside ncmpi_fill_var_rec(bad varid)\n"); fflush(stdout); _exit(1); }
int main(int argc,char**argv){ int ncid,dt,dx,v,err,bad=0,d2[2]; MPI_Init(&argc,&argv); signal(SIGSEGV,segv);
 ncmpi_create(MPI_COMM_WORLD,argv[1],NC_CLOBBER,MPI_INFO_NULL,&ncid);
 ncmpi_def_dim(ncid,"t",NC_UNLIMITED,&dt); ncmpi_def_dim(ncid,"x",4,&dx); d2[0]=dt;d2[1]=dx; ncmpi_def_var(ncid,"r",NC_INT,2,d2,&v);
 err=ncmpi_fill_var_rec(ncid,v,0); printf("in define mode      -> %s (expected NC_EINDEFINE)\n",ncmpi_strerrno(err)); if(err!=NC_EINDEFINE) bad++;
 ncmpi_enddef(ncid); ncmpi_begin_indep_data(ncid);
 err=ncmpi_fill_var_rec(ncid,v,0); printf("in independent mode -> %s (expected NC_EINDEP)\n",ncmpi_strerrno(err)); if(err!=NC_EINDEP) bad++;
 ncmpi_end_indep_data(ncid);
 err=ncmpi_fill_var_rec(ncid,99,0); printf("bad varid           -> %s (expected NC_ENOTVAR)\n",ncmpi_strerrno(err)); if(err!=NC_ENOTVAR) bad++;
 ncmpi_close(ncid); MPI_Finalize(); return bad!=0; }
