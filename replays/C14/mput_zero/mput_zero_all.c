#include <stdio.h>
#include <mpi.h>
#include <pnetcdf.h>
int main(int argc, char **argv) {
    int ncid, d, v, e;
    MPI_Init(&argc, &argv);
    ncmpi_create(MPI_COMM_WORLD, argv[1], NC_CLOBBER, MPI_INFO_NULL, &ncid);
    ncmpi_def_dim(ncid, "x", 4, &d); ncmpi_def_var(ncid, "v", NC_INT, 1, &d, &v);
    e = ncmpi_mput_vara_int_all(ncid, 0, NULL, NULL, NULL, NULL); printf("define mode     : mput_vara_int_all(nvars=0) -> %s\n", ncmpi_strerrno(e));
    ncmpi_enddef(ncid);
    ncmpi_begin_indep_data(ncid);
    e = ncmpi_mput_vara_int_all(ncid, 0, NULL, NULL, NULL, NULL); printf("independent mode: mput_vara_int_all(nvars=0) -> %s\n", ncmpi_strerrno(e));
    ncmpi_end_indep_data(ncid);
    ncmpi_close(ncid);
    ncmpi_open(MPI_COMM_WORLD, argv[1], NC_NOWRITE, MPI_INFO_NULL, &ncid);
    e = ncmpi_mput_vara_int_all(ncid, 0, NULL, NULL, NULL, NULL); printf("read-only       : mput_vara_int_all(nvars=0) -> %s\n", ncmpi_strerrno(e));
    ncmpi_close(ncid);
    MPI_Finalize(); return 0;
}
