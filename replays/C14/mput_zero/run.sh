#!/bin/bash
# usage: run.sh [built pnetcdf tree]
# C14: "every API called in a mode where it is not permitted returns the documented error".  The independent ncmpi_mput_var* /
# ncmpi_mget_var* (325 generated functions) returned NC_NOERR for nvars == 0 before any mode or permission check.
# mput_zero.c was written by the sub-agent that produced seeded change C14_i.  exit 0: documented errors, 1: NC_NOERR
W="${1:-/repo}"; HERE="$(cd "$(dirname "$0")" && pwd)"
TMP="$(mktemp -d /tmp/c14mz.XXXXXX)" || exit 2
trap 'rm -rf "$TMP"' EXIT
mpicc -g -O0 -I"$W/src/include" -o "$TMP/t" "$HERE/mput_zero.c" "$W/src/libs/.libs/libpnetcdf.a" -lm || exit 2
timeout 60 mpiexec --allow-run-as-root --oversubscribe -n 1 "$TMP/t" "$TMP/x.nc" 2>&1 | grep "^rank"; r=${PIPESTATUS[0]}
# the collective forms: define and independent mode were rejected by the driver's wait; a read-only file answered NC_NOERR
mpicc -g -O0 -I"$W/src/include" -o "$TMP/ta" "$HERE/mput_zero_all.c" "$W/src/libs/.libs/libpnetcdf.a" -lm || exit 2
timeout 60 mpiexec --allow-run-as-root --oversubscribe -n 1 "$TMP/ta" "$TMP/y.nc" 2>&1 | grep "mode\|read-only" | tee "$TMP/out"
grep -q "read-only.*NC_EPERM" "$TMP/out" || r=1
exit $r
