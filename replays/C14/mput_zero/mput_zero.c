/* Pre-existing (unmodified library): the independent ncmpi_mput_var* / ncmpi_mget_var*
 * APIs return NC_NOERR for nvars == 0 before any mode / permission check, whereas
 * every other independent put/get and ncmpi_wait(ncid, 0, ...) report
 * NC_EINDEFINE / NC_ENOTINDEP / NC_EPERM in the same state.
 * exit 0: documented error returned in every wrong mode; exit 1 otherwise. */
#include <stdio.h>
#include <mpi.h>
#include <pnetcdf.h>
int main(int argc, char **argv) {
    const char *path = (argc > 1) ? argv[1] : "pre_mput_zero.nc";
    int rank, ncid, d, v, bad = 0, e;
    MPI_Init(&argc, &argv); MPI_Comm_rank(MPI_COMM_WORLD, &rank);
    ncmpi_create(MPI_COMM_WORLD, path, NC_CLOBBER, MPI_INFO_NULL, &ncid);
    ncmpi_def_dim(ncid, "x", 4, &d); ncmpi_def_var(ncid, "v", NC_INT, 1, &d, &v);
    e = ncmpi_mput_vara_int(ncid, 0, NULL, NULL, NULL, NULL);
    printf("rank %d define mode     : mput_vara_int(nvars=0) -> %s (blocking put here: NC_EINDEFINE)\n", rank, ncmpi_strerrno(e));
    bad |= (e != NC_EINDEFINE);
    ncmpi_enddef(ncid);
    e = ncmpi_mput_vara_int(ncid, 0, NULL, NULL, NULL, NULL);
    printf("rank %d collective mode : mput_vara_int(nvars=0) -> %s (independent put here: NC_ENOTINDEP)\n", rank, ncmpi_strerrno(e));
    bad |= (e != NC_ENOTINDEP);
    ncmpi_close(ncid);
    ncmpi_open(MPI_COMM_WORLD, path, NC_NOWRITE, MPI_INFO_NULL, &ncid);
    ncmpi_begin_indep_data(ncid);
    e = ncmpi_mput_vara_int(ncid, 0, NULL, NULL, NULL, NULL);
    printf("rank %d read-only, indep: mput_vara_int(nvars=0) -> %s (any put here: NC_EPERM)\n", rank, ncmpi_strerrno(e));
    bad |= (e != NC_EPERM);
    ncmpi_close(ncid);
    MPI_Finalize();
    return bad;
}
