"""Concrete evaluation of small side-effect-free decision functions (validators) on chosen
integer inputs: used to enumerate the finitely many orderings their comparisons distinguish."""
from facts import strip, strip_pre, const_value, show


class Unsupported(Exception):
    pass


def ev(fn, n, env):
    n = strip_pre(n)
    if not isinstance(n, dict):
        raise Unsupported("empty")
    k = n.get("k")
    if "cv" in n and k != "ref":
        return n["cv"]
    if k == "ref":
        if n["n"] in env:
            return env[n["n"]]
        if "cv" in n:
            return n["cv"]
        raise Unsupported("variable %s" % n["n"])
    if k == "un":
        op = n["op"]
        if op == "*":
            e = strip(n["e"])
            if isinstance(e, dict) and e.get("k") == "ref" and ("*" + e["n"]) in env:
                return env["*" + e["n"]]
            raise Unsupported("deref %s" % show(n))
        v = ev(fn, n["e"], env)
        if op == "!":
            return 0 if v else 1
        if op == "-":
            return -v
        raise Unsupported("unary " + op)
    if k == "cast":
        return ev(fn, n["e"], env)
    if k == "bin":
        op = n["op"]
        if op == "&&":
            return 1 if (ev(fn, n["a"], env) and ev(fn, n["b"], env)) else 0
        if op == "||":
            return 1 if (ev(fn, n["a"], env) or ev(fn, n["b"], env)) else 0
        a, b = ev(fn, n["a"], env), ev(fn, n["b"], env)
        f = {"+": lambda: a + b, "-": lambda: a - b, "*": lambda: a * b, "<": lambda: int(a < b),
             ">": lambda: int(a > b), "<=": lambda: int(a <= b), ">=": lambda: int(a >= b),
             "==": lambda: int(a == b), "!=": lambda: int(a != b), "&": lambda: a & b, "|": lambda: a | b}.get(op)
        if f is None:
            raise Unsupported("operator " + op)
        return f()
    if k == "cond":
        return ev(fn, n["a"], env) if ev(fn, n["c"], env) else ev(fn, n["b"], env)
    raise Unsupported("expression kind %s" % k)


def run(fn, env, max_steps=500):
    """return value of fn for the concrete environment (no calls, no stores except locals)"""
    env = dict(env)
    b = fn.entry
    steps = 0
    while b != fn.exit:
        steps += 1
        if steps > max_steps:
            raise Unsupported("no progress")
        blk = fn.blocks[b]
        for e in blk.elems:
            k = e.get("k")
            if k == "ret":
                return ev(fn, e["e"], env)
            if k == "decl":
                for v in e.get("vars", []):
                    if v.get("init") is not None:
                        env[v["n"]] = ev(fn, v["init"], env)
            elif k == "asg" and e.get("op") == "=":
                l = strip(e["a"])
                if l.get("k") == "ref":
                    env[l["n"]] = ev(fn, e["b"], env)
                else:
                    raise Unsupported("store " + show(e))
            elif k == "call":
                raise Unsupported("call " + show(e)[:40])
        c = blk.cond
        if c is not None and len(blk.succs) == 2:
            b = blk.succs[0] if ev(fn, c, env) else blk.succs[1]
        elif blk.succs:
            b = blk.succs[0]
        else:
            break
        if b is None:
            raise Unsupported("pruned edge")
    return None
