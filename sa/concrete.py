"""Concrete evaluation of small side-effect-free decision functions (validators) on chosen
integer inputs: used to enumerate the finitely many orderings their comparisons distinguish."""
from facts import strip, strip_pre, const_value, show


class Overflow64(Exception):
    """raised under env["$trap64"] when + - * leaves the signed 64-bit range"""


class Unsupported(Exception):
    pass


def ev(fn, n, env):
    n = strip_pre(n)
    if not isinstance(n, dict):
        raise Unsupported("empty")
    k = n.get("k")
    if "cv" in n and k != "ref":
        return n["cv"]
    if k == "ref":
        if n["n"] in env:
            return env[n["n"]]
        if "cv" in n:
            return n["cv"]
        raise Unsupported("variable %s" % n["n"])
    if k == "un":
        op = n["op"]
        if op == "*":
            e = strip(n["e"])
            if isinstance(e, dict) and e.get("k") == "ref" and ("*" + e["n"]) in env:
                return env["*" + e["n"]]
            raise Unsupported("deref %s" % show(n))
        v = ev(fn, n["e"], env)
        if op == "!":
            return 0 if v else 1
        if op == "-":
            return -v
        raise Unsupported("unary " + op)
    if k == "cast":
        return ev(fn, n["e"], env)
    if k == "bin":
        op = n["op"]
        if op == "&&":
            return 1 if (ev(fn, n["a"], env) and ev(fn, n["b"], env)) else 0
        if op == "||":
            return 1 if (ev(fn, n["a"], env) or ev(fn, n["b"], env)) else 0
        a, b = ev(fn, n["a"], env), ev(fn, n["b"], env)
        f = {"+": lambda: a + b, "-": lambda: a - b, "*": lambda: a * b, "<": lambda: int(a < b),
             ">": lambda: int(a > b), "<=": lambda: int(a <= b), ">=": lambda: int(a >= b),
             "==": lambda: int(a == b), "!=": lambda: int(a != b), "&": lambda: a & b, "|": lambda: a | b}.get(op)
        if f is None:
            raise Unsupported("operator " + op)
        return f()
    if k == "cond":
        return ev(fn, n["a"], env) if ev(fn, n["c"], env) else ev(fn, n["b"], env)
    raise Unsupported("expression kind %s" % k)


def run(fn, env, max_steps=500):
    """return value of fn for the concrete environment (no calls, no stores except locals)"""
    env = dict(env)
    b = fn.entry
    steps = 0
    while b != fn.exit:
        steps += 1
        if steps > max_steps:
            raise Unsupported("no progress")
        blk = fn.blocks[b]
        for e in blk.elems:
            k = e.get("k")
            if k == "ret":
                return ev(fn, e["e"], env)
            if k == "decl":
                for v in e.get("vars", []):
                    if v.get("init") is not None:
                        env[v["n"]] = ev(fn, v["init"], env)
            elif k == "asg" and e.get("op") == "=":
                l = strip(e["a"])
                if l.get("k") == "ref":
                    env[l["n"]] = ev(fn, e["b"], env)
                else:
                    raise Unsupported("store " + show(e))
            elif k == "call":
                raise Unsupported("call " + show(e)[:40])
        c = blk.cond
        if c is not None and len(blk.succs) == 2:
            b = blk.succs[0] if ev(fn, c, env) else blk.succs[1]
        elif blk.succs:
            b = blk.succs[0]
        else:
            break
        if b is None:
            raise Unsupported("pruned edge")
    return None


# ---------------------------------------------------------------------------
# slices: concrete evaluation of a region of a function with lvalues named by their
# canonical text (so `ncp->rank`, `count[j]`, `*ip` are all just names in env)
# ---------------------------------------------------------------------------
from facts import canon, walk


def _cdiv(a, b):
    """C integer division (truncation toward zero), exact for integers of any size"""
    if isinstance(a, int) and isinstance(b, int):
        q = abs(a) // abs(b)
        return q if (a >= 0) == (b >= 0) else -q
    return int(a / b)


def lv_name(n):
    n = strip(n)
    if isinstance(n, dict) and n.get("k") == "ref":
        return n["n"]
    return canon(n)


def dyn_name(n, env):
    """lvalue name with array indices evaluated (`a[i]` with i == 2 -> "a[2]"); None when an index is unknown"""
    n = strip(n)
    if not isinstance(n, dict):
        return None
    k = n.get("k")
    if k == "ref":
        return n["n"]
    if k == "mem":
        if n.get("arrow"):
            pv = _ptr_value(n["b"], env)
            if pv is not None:
                return "%s[%d].%s" % (pv[1], pv[2], n["f"])
        b = dyn_name(n["b"], env)
        return None if b is None else b + ("->" if n.get("arrow") else ".") + n["f"]
    if k == "idx":
        pv = _ptr_value(n["b"], env)
        if pv is not None:
            try:
                return "%s[%d]" % (pv[1], pv[2] + evs(n["i"], env, None))
            except (Unsupported, KeyError, TypeError):
                return None
        b = dyn_name(n["b"], env)
        if b is None:
            return None
        try:
            i = evs(n["i"], env, None)
        except (Unsupported, KeyError):
            return None
        return "%s[%s]" % (b, i)
    if k == "un" and n.get("op") == "*":
        pv = _ptr_value(n["e"], env)
        if pv is not None:
            return "%s[%d]" % (pv[1], pv[2])
        b = dyn_name(n["e"], env)
        return None if b is None else "*" + b
    return None


def call_name(c):
    """the callee's name; `driver-><slot>` for a call through a PNC_driver function pointer"""
    if c.get("fn"):
        return c["fn"]
    fx = strip(c.get("fnx"))
    if isinstance(fx, dict) and fx.get("k") == "un" and fx.get("op") == "*":
        fx = strip(fx["e"])
    if isinstance(fx, dict) and fx.get("k") == "mem" and fx.get("rec") == "PNC_driver":
        return "driver->" + fx["f"]
    return None


def _ptr_value(n, env):
    """("P", array, index) when the expression is a variable holding a modelled pointer into an array"""
    n = strip(n)
    if isinstance(n, dict) and n.get("k") == "ref":
        v = env.get(n["n"])
        if isinstance(v, tuple) and len(v) == 3 and v[0] == "P":
            return v
        return None
    if isinstance(n, dict) and n.get("k") in ("mem", "idx") and env.get("$dyn"):
        # a pointer-valued member / element (`reqs[i].start`) holding a modelled pointer
        d = dyn_name(n, env)
        v = env.get(d) if d is not None else None
        if isinstance(v, tuple) and len(v) == 3 and v[0] == "P":
            return v
    return None


def lv_slot(n, env):
    """the env key an lvalue reads / writes: its static canonical text when that is bound, else its dynamic name"""
    nm = lv_name(n)
    if nm in env or not env.get("$dyn"):
        return nm
    d = dyn_name(n, env)
    return d if d is not None else nm


def evs(n, env, events=None):
    if isinstance(n, dict) and n.get("k") == "pre" and isinstance(n.get("e"), dict):
        inner = strip_pre(n["e"])
        # a sub-expression with a side effect was already executed as its own CFG element
        if inner.get("k") == "asg":
            return env[lv_slot(inner["a"], env)]
        if inner.get("k") == "un" and inner.get("op") in ("post++", "post--", "pre++", "pre--"):
            return env[lv_slot(inner["e"], env)]
        if inner.get("k") == "call" and call_name(inner) not in env.get("$impl", {}):
            return env.get("$ret:%s" % call_name(inner), 0)
        if inner.get("k") == "call" and ("$done:" + canon(inner)) in env:
            return env.pop("$done:" + canon(inner))        # its own element ran the $impl already: one call, one effect
    n = strip_pre(n)
    if not isinstance(n, dict):
        raise Unsupported("empty")
    k = n.get("k")
    if "cv" in n and k != "ref":
        return n["cv"]
    if k in ("ref", "mem", "idx") or (k == "un" and n.get("op") == "*"):
        nm = lv_slot(n, env)
        if nm in env:
            return env[nm]
        if "cv" in n:
            return n["cv"]
        raise Unsupported("value of %s" % nm)
    if k == "un":
        op = n["op"]
        if op in ("post++", "post--", "pre++", "pre--"):
            nm = lv_slot(n["e"], env)
            old = env[nm]
            d = 1 if "++" in op else -1
            env[nm] = ("P", old[1], old[2] + d) if isinstance(old, tuple) and old and old[0] == "P" else old + d
            return old if op.startswith("post") else env[nm]
        if op == "&":
            # address of a scalar / element: a token an $impl can store through (env[token[1]] = value)
            return ("A", lv_slot(n["e"], env))
        v = evs(n["e"], env, events)
        if op == "!":
            return 0 if v else 1
        if op == "-":
            return -v
        raise Unsupported("unary " + op)
    if k == "cast":
        return evs(n["e"], env, events)
    if k == "asg":
        try:
            v = evs(n["b"], env, events)
        except Unsupported:
            # structure assignment: copy every bound field
            if n["op"] != "=":
                raise
            src, dst = lv_slot(n["b"], dict(env, **{"$dyn": True})), lv_slot(n["a"], dict(env, **{"$dyn": True}))
            fields = [k2 for k2 in env if isinstance(k2, str) and k2.startswith(src + ".")]
            if not fields:
                raise
            for k2 in fields:
                env[dst + k2[len(src):]] = env[k2]
            return 0
        nm = lv_slot(n["a"], env)
        op = n["op"]
        if op == "=":
            env[nm] = v
        elif isinstance(env.get(nm), tuple) and env[nm] and env[nm][0] == "P" and op in ("+=", "-="):
            old = env[nm]
            env[nm] = ("P", old[1], old[2] + (v if op == "+=" else -v))
        else:
            old = env[nm]
            f = {"+=": lambda: old + v, "-=": lambda: old - v, "*=": lambda: old * v,
                 "/=": lambda: int(old / v) if v else 0, "%=": lambda: old - int(old / v) * v if v else 0,
                 "|=": lambda: old | v, "&=": lambda: old & v, "^=": lambda: old ^ v,
                 "<<=": lambda: old << v if 0 <= v < 128 else None,
                 ">>=": lambda: old >> v if 0 <= v < 128 else None}.get(op)
            env[nm] = f() if f else None
            if env[nm] is None:
                raise Unsupported("assignment " + op)
        return env[nm]
    if k == "bin":
        op = n["op"]
        if op == "&&":
            return 1 if (evs(n["a"], env, events) and evs(n["b"], env, events)) else 0
        if op == "||":
            return 1 if (evs(n["a"], env, events) or evs(n["b"], env, events)) else 0
        if op == ",":
            evs(n["a"], env, events)
            return evs(n["b"], env, events)
        a, b = evs(n["a"], env, events), evs(n["b"], env, events)
        if op in ("/", "%") and b == 0:
            raise Unsupported("division by zero")
        if isinstance(a, tuple) and a and a[0] == "P" and op in ("+", "-") and isinstance(b, int):
            return ("P", a[1], a[2] + (b if op == "+" else -b))
        if isinstance(a, tuple) and isinstance(b, tuple) and a and b and a[0] == "P" and b[0] == "P" and a[1] == b[1] and op == "-":
            return a[2] - b[2]                  # distance between two positions of one modelled array
        if isinstance(a, tuple) and isinstance(b, tuple) and a and b and a[0] == "P" and b[0] == "P" and a[1] == b[1] \
                and op in ("<", ">", "<=", ">="):
            return int({"<": a[2] < b[2], ">": a[2] > b[2], "<=": a[2] <= b[2], ">=": a[2] >= b[2]}[op])
        if isinstance(a, tuple) or isinstance(b, tuple):
            if op in ("==", "!="):
                return int((a == b) == (op == "=="))        # a modelled pointer never equals an integer (NULL)
            raise Unsupported("pointer arithmetic " + op)
        f = {"+": lambda: a + b, "-": lambda: a - b, "*": lambda: a * b, "/": lambda: _cdiv(a, b),
             "%": lambda: a - _cdiv(a, b) * b, "<": lambda: int(a < b), ">": lambda: int(a > b),
             "<=": lambda: int(a <= b), ">=": lambda: int(a >= b), "==": lambda: int(a == b),
             "!=": lambda: int(a != b), "&": lambda: a & b, "|": lambda: a | b}.get(op)
        if f is None:
            raise Unsupported("operator " + op)
        r = f()
        if env.get("$trap64") and op in ("+", "-", "*") and isinstance(r, int) and not (-(1 << 63) <= r < (1 << 63)):
            # the slice computes in signed 64-bit integers: this result does not exist in C (undefined behaviour)
            raise Overflow64("%s (%s %s %s)" % (canon(n)[:60], a, op, b))
        return r
    if k == "cond":
        return evs(n["a"], env, events) if evs(n["c"], env, events) else evs(n["b"], env, events)
    if k == "call":
        args = []
        for a in n.get("args", []):
            try:
                args.append(evs(a, env, events))
            except Unsupported:
                args.append(None)
        if events is not None:
            events.append((n.get("fn"), args, n.get("l")))
        impl = env.get("$impl", {}).get(call_name(n))
        if impl is not None:
            if any(a is None for a in args):
                raise Unsupported("argument of %s" % call_name(n))
            return impl(*args)
        return env.get("$ret:%s" % call_name(n), 0)
    if k == "sizeof":
        return n.get("cv", 0)
    if k == "str":
        return n.get("s", "")
    raise Unsupported("expression kind %s" % k)


def run_region(fn, start, stop_blocks, env, events=None, max_steps=5000, call_hook=None):
    """interpret fn from program point start=(block, idx) until a block in stop_blocks (or the exit);
    calls are recorded as events and return 0 (or call_hook(name, args, env))."""
    b, i = start
    steps = 0
    first = True
    while b != fn.exit and (first or b not in stop_blocks):
        first = False
        steps += 1
        if steps > max_steps:
            raise Unsupported("step budget")
        blk = fn.blocks[b]
        for j in range(i, len(blk.elems)):
            e = blk.elems[j]
            k = e.get("k")
            if k == "ret":
                env["$ret"] = evs(e["e"], env, events) if e.get("e") is not None else None
                return env
            if k == "decl":
                for v in e.get("vars", []):
                    if v.get("init") is not None:
                        ini = v["init"]
                        if isinstance(ini, dict) and ini.get("k") == "init" and env.get("$dyn"):
                            for q, el in enumerate(ini.get("elems", [])):      # int a[3] = {1, 1, 1}
                                try:
                                    env["%s[%d]" % (v["n"], q)] = evs(el, env, events)
                                except Unsupported:
                                    env.pop("%s[%d]" % (v["n"], q), None)
                            continue
                        try:
                            env[v["n"]] = evs(v["init"], env, events)
                        except Unsupported:
                            env.pop(v["n"], None)
            elif k == "call":
                args = []
                for a in e.get("args", []):
                    try:
                        args.append(evs(a, env, None))
                    except Unsupported:
                        args.append(None)
                if events is not None:
                    events.append((e.get("fn"), args, e.get("l")))
                if call_hook:
                    call_hook(e, args, env)
                impl = env.get("$impl", {}).get(call_name(e))
                if impl is not None and not call_hook:
                    if any(a is None for a in args):
                        raise Unsupported("argument of %s" % e.get("fn"))
                    env["$done:" + canon(e)] = impl(*args)
            elif k in ("asg", "un"):
                try:
                    evs(e, env, events)
                except Unsupported:
                    if k == "asg":
                        env.pop(lv_slot(e["a"], env), None)
            # bare expressions / conditions: evaluated at the branch
        i = 0
        c = blk.cond
        if blk.term == "switch" and c is not None:
            v = evs(c, env, None)
            nxt = dflt = None
            for s_ in blk.succs:
                if s_ is None:
                    continue
                lab = fn.blocks[s_].label or {}
                if lab.get("k") == "case" and lab.get("lo") is not None and lab["lo"] <= v <= lab.get("hi", lab["lo"]):
                    nxt = s_
                elif lab.get("k") == "default":
                    dflt = s_
            if nxt is None:
                nxt = dflt
            if nxt is None:
                # no default: control continues after the switch
                cands = [s_ for s_ in blk.succs if s_ is not None and not (fn.blocks[s_].label or {}).get("k") in ("case", "default")]
                if not cands:
                    raise Unsupported("switch without a matching arm")
                nxt = cands[0]
            b = nxt
        elif c is not None and len(blk.succs) == 2:
            b = blk.succs[0] if evs(c, env, None) else blk.succs[1]
        elif blk.succs:
            b = blk.succs[0]
        else:
            break
        if b is None:
            raise Unsupported("pruned edge")
    return env
