"""Front end: from /repo's current working tree to fact files.

 1. read the automake-generated Makefiles (never executed: `make -n` re-runs
    configure through am--refresh) to get source lists, AM_CPPFLAGS and M4FLAGS;
 2. re-expand every .m4 source into a scratch directory with those flags, so a
    stale generated .c in the tree is never trusted;
 3. run the pncx extractor on every unit in parallel, one JSON file per unit.

Nothing is written under /repo or /verif; the scratch directory is removed by
the caller (check.py) on exit.
"""
import os
import re
import shutil
import subprocess
import sys
import tempfile
from concurrent.futures import ThreadPoolExecutor

REPO = os.environ.get("PNC_REPO", "/repo")
HERE = os.path.dirname(os.path.abspath(__file__))
PNCX = os.path.join(os.path.dirname(HERE), "bin", "pncx")


class AnalysisBroken(Exception):
    """exit 2: the analysis could not be carried out (never a pass)."""


# directories analysed: (subdir, extra -D flags, group)
UNIT_DIRS = [
    ("src/dispatchers", [], "lib"),
    ("src/drivers/common", [], "lib"),
    ("src/drivers/ncmpio", [], "lib"),
    ("src/drivers/ncbbio", ["-DENABLE_BURST_BUFFER=1"], "bb"),
    ("src/utils/ncvalidator", [], "util"),
    ("src/utils/ncmpidiff", ["-I" + os.path.join(REPO, "src/utils/ncvalidator")], "util"),
    ("src/utils/ncmpidump", [], "util"),
    ("src/utils/ncoffsets", [], "util"),
]


def parse_makefile(path):
    """variable table of an automake Makefile (no rules are executed)."""
    vars_ = {}
    try:
        text = open(path, errors="replace").read()
    except OSError as e:
        raise AnalysisBroken("cannot read %s: %s" % (path, e))
    text = text.replace("\\\n", " ")
    for line in text.split("\n"):
        if line.startswith("\t") or line.startswith("#"):
            continue
        m = re.match(r"^([A-Za-z_][A-Za-z0-9_]*)\s*(\+?=|:=)\s*(.*)$", line)
        if not m:
            continue
        name, op, val = m.group(1), m.group(2), m.group(3)
        # strip trailing comments ("M4_SRCS = #ncbbio_log_flush.m4")
        val = re.sub(r"(^|\s)#.*$", "", val).strip()
        if op == "+=" and name in vars_:
            vars_[name] += " " + val
        else:
            vars_[name] = val
    return vars_


def expand(vars_, s, depth=0):
    if depth > 20:
        return s

    def repl(m):
        body = m.group(1) or m.group(2)
        sm = re.match(r"^([A-Za-z_][A-Za-z0-9_]*):(.*)=(.*)$", body)
        if sm:
            base = expand(vars_, vars_.get(sm.group(1), ""), depth + 1)
            a, b = sm.group(2), sm.group(3)
            out = []
            for w in base.split():
                out.append(w[: -len(a)] + b if a and w.endswith(a) else w)
            return " ".join(out)
        if body in vars_:
            return expand(vars_, vars_[body], depth + 1)
        return ""

    return re.sub(r"\$\(([^()]*)\)|\$\{([^{}]*)\}", repl, s)


def mpi_includes():
    try:
        out = subprocess.run(["mpicc", "-show"], capture_output=True, text=True,
                             timeout=30).stdout
    except Exception:
        out = ""
    incs = [w for w in out.split() if w.startswith("-I")]
    if not incs:
        for d in ("/usr/lib/x86_64-linux-gnu/openmpi/include",):
            if os.path.isdir(d):
                incs.append("-I" + d)
    return incs


class Unit:
    def __init__(self, name, src, flags, group, origin):
        self.name = name      # e.g. src/drivers/ncmpio/ncmpio_wait.c
        self.src = src        # absolute path actually parsed
        self.flags = flags
        self.group = group
        self.origin = origin  # repo-relative path of the real source (.c or .m4)
        self.facts = None


class FrontEnd:
    def __init__(self, repo=REPO, scratch=None, verbose=False):
        self.repo = repo
        self.own_scratch = scratch is None
        self.scratch = scratch or tempfile.mkdtemp(prefix="pncsa.")
        self.verbose = verbose
        self.units = {}
        self.mpi = mpi_includes()
        self._discover()

    def cleanup(self):
        if self.own_scratch:
            shutil.rmtree(self.scratch, ignore_errors=True)

    # -- discovery ------------------------------------------------------------
    def _discover(self):
        for sub, extra, group in UNIT_DIRS:
            d = os.path.join(self.repo, sub)
            mk = os.path.join(d, "Makefile")
            if not os.path.exists(mk):
                raise AnalysisBroken("no Makefile in %s (tree not configured?)" % d)
            v = parse_makefile(mk)
            v.setdefault("srcdir", ".")
            cpp = expand(v, v.get("AM_CPPFLAGS", "")).split()
            defs = expand(v, v.get("DEFS", "-DHAVE_CONFIG_H")).split()
            m4flags = expand(v, v.get("M4FLAGS", "-DPNETCDF")).split()
            flags = []
            for f in defs + cpp:
                if f.startswith("-I"):
                    p = f[2:]
                    if not os.path.isabs(p):
                        p = os.path.normpath(os.path.join(d, p))
                    flags.append("-I" + p)
                elif f.startswith("-D") or f.startswith("-U"):
                    flags.append(f)
            flags.append("-I" + d)
            c_srcs, m4_srcs = set(), set()
            for key, val in v.items():
                if key.endswith("_SOURCES") and not key.startswith("am__") \
                        and not key.startswith("DIST") and not key.startswith("nodist"):
                    for w in expand(v, val).split():
                        if w.endswith(".c"):
                            c_srcs.add(w)
            for w in expand(v, v.get("M4_SRCS", "")).split():
                if w.endswith(".m4"):
                    m4_srcs.add(w)
            if sub == "src/drivers/ncbbio" and not c_srcs:
                c_srcs = set(f for f in os.listdir(d) if f.endswith(".c"))
            outdir = os.path.join(self.scratch, "gen", sub)
            for m4 in sorted(m4_srcs):
                cname = m4[:-3] + ".c"
                c_srcs.discard(cname)
                name = os.path.join(sub, cname)
                u = Unit(name, os.path.join(outdir, cname),
                         flags + extra + ["-I" + outdir], group,
                         os.path.join(sub, m4))
                u.m4 = (os.path.join(d, m4), [self._m4flag(f, d) for f in m4flags])
                self.units[name] = u
            for c in sorted(c_srcs):
                p = os.path.join(d, c)
                if not os.path.exists(p):
                    continue  # tests of utilities etc. not present
                if c.startswith("tst_"):
                    continue
                name = os.path.join(sub, c)
                u = Unit(name, p, flags + extra, group, name)
                u.m4 = None
                self.units[name] = u
        # the generated header ncx.h is re-expanded as well
        self.ncx_h = (os.path.join(self.repo, "src/drivers/include/ncx_h.m4"),
                      os.path.join(self.scratch, "gen/include/ncx.h"))

    def _m4flag(self, f, d):
        if f.startswith("-I"):
            p = f[2:]
            if not os.path.isabs(p):
                p = os.path.normpath(os.path.join(d, p))
            return "-I" + p
        return f

    # -- generation -------------------------------------------------------------
    def _gen_m4(self, src, flags, out):
        os.makedirs(os.path.dirname(out), exist_ok=True)
        r = subprocess.run(["m4"] + flags + [src], capture_output=True, timeout=300)
        if r.returncode != 0:
            raise AnalysisBroken("m4 failed on %s: %s" % (src, r.stderr.decode()[:500]))
        with open(out, "wb") as f:
            f.write(r.stdout)

    def _extract(self, u):
        out = os.path.join(self.scratch, "facts", u.name.replace("/", "__") + ".json")
        os.makedirs(os.path.dirname(out), exist_ok=True)
        if u.m4:
            self._gen_m4(u.m4[0], u.m4[1], u.src)
        flags = list(u.flags)
        # the freshly expanded ncx.h shadows the one in the tree
        flags = ["-I" + os.path.dirname(self.ncx_h[1])] + flags + self.mpi + \
            ["-std=gnu11", "-UNDEBUG", "-w", "-ferror-limit=5"]
        r = subprocess.run([PNCX, "-o", out, u.src, "--"] + flags,
                           capture_output=True, text=True, timeout=600)
        if r.returncode != 0 or not os.path.exists(out):
            raise AnalysisBroken("extractor failed on %s:\n%s" % (u.name, (r.stderr or r.stdout)[-1500:]))
        u.facts = out
        return u

    def constants(self, names, header="mpi.h"):
        """values of enumerators / macros of a system header, obtained from clang's constant evaluator on a scratch unit"""
        import json
        src = os.path.join(self.scratch, "consts_%d.c" % abs(hash(tuple(names))))
        with open(src, "w") as f:
            f.write("#include <%s>\n" % header)
            for k, n in enumerate(names):
                f.write("long pncx_const_%d = (long)(%s);\n" % (k, n))
        out = src + ".json"
        r = subprocess.run([PNCX, "-o", out, src, "--"] + self.mpi + ["-std=gnu11", "-w"], capture_output=True, text=True, timeout=120)
        if r.returncode != 0 or not os.path.exists(out):
            raise AnalysisBroken("constant evaluation failed: %s" % (r.stderr or r.stdout)[-400:])
        d = json.load(open(out))
        vals = {}
        for g in d.get("globals", []):
            if g["n"].startswith("pncx_const_") and "init" in g:
                init = g["init"]
                v = init.get("cv")
                if v is None and isinstance(init.get("e"), dict):
                    v = init["e"].get("cv")
                vals[names[int(g["n"].split("_")[-1])]] = v
        return vals

    def extract(self, names=None, groups=None):
        """run the extractor on the selected units; returns {name: Unit}."""
        if not os.path.exists(PNCX):
            raise AnalysisBroken("%s missing: run MANIFEST.setup_cmd (make -C /verif/tools)" % PNCX)
        sel = []
        for n, u in self.units.items():
            if names is not None and n not in names and os.path.basename(n) not in names:
                continue
            if groups is not None and u.group not in groups:
                continue
            if u.facts is None:
                sel.append(u)
        if names is not None:
            have = set(self.units) | set(os.path.basename(n) for n in self.units)
            missing = [n for n in names if n not in have]
            if missing:
                raise AnalysisBroken("units vanished from the build: %s" % ", ".join(missing))
        if sel:
            hsrc, hout = self.ncx_h
            if not os.path.exists(hout):
                v = parse_makefile(os.path.join(self.repo, "src/drivers/include/Makefile"))
                d = os.path.dirname(hsrc)
                fl = [self._m4flag(f, d) for f in expand(v, v.get("M4FLAGS", "-DPNETCDF")).split()]
                self._gen_m4(hsrc, fl, hout)
            with ThreadPoolExecutor(max_workers=min(16, os.cpu_count() or 4)) as ex:
                list(ex.map(self._extract, sel))
        out = {}
        for n, u in self.units.items():
            if u.facts is not None:
                if names is not None and n not in names and os.path.basename(n) not in names:
                    continue
                if groups is not None and u.group not in groups:
                    continue
                out[n] = u
        return out


if __name__ == "__main__":
    import time
    t = time.time()
    fe = FrontEnd(verbose=True)
    try:
        us = fe.extract(groups=sys.argv[1:] or None)
        tot = 0
        for n, u in sorted(us.items()):
            sz = os.path.getsize(u.facts)
            tot += sz
            print("%-50s %9d  %s" % (n, sz, u.origin))
        print("units=%d bytes=%d wall=%.1fs" % (len(us), tot, time.time() - t))
    finally:
        fe.cleanup()
