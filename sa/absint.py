"""Shared path-sensitive abstract interpreter over small finite domains.

Abstract values (AVal) are one of
  fin(S)   the value is one of the finitely many integers in S
  cof(S)   the value is any integer not in S          (TOP = cof(∅))
  bits(k1,k0)  bits in k1 are known set, bits in k0 known clear (flag words)
States are persistent maps lvalue-key -> AVal (absent = TOP) plus rule-private
keys starting with '$'.  Exploration is a worklist over (block, state) with
memoisation; infeasible edges (refinement contradiction) are pruned.  No path
formula is built and no solver is called.
"""
from facts import strip, strip_pre, lvalue_key, key_mentions, const_value, walk


class Budget(Exception):
    pass


class AVal:
    __slots__ = ("kind", "s", "k1", "k0", "_h")

    def __init__(self, kind, s=frozenset(), k1=0, k0=0):
        self.kind = kind
        self.s = s
        self.k1 = k1
        self.k0 = k0
        self._h = hash((kind, s, k1, k0))

    def __hash__(self):
        return self._h

    def __eq__(self, o):
        return isinstance(o, AVal) and self.kind == o.kind and self.s == o.s and self.k1 == o.k1 and self.k0 == o.k0

    def __repr__(self):
        if self.kind == "fin":
            return "{%s}" % ",".join(str(x) for x in sorted(self.s))
        if self.kind == "cof":
            return "TOP" if not self.s else "not{%s}" % ",".join(str(x) for x in sorted(self.s))
        return "bits(+%x,-%x)" % (self.k1, self.k0)

    # -- queries
    def is_top(self):
        return (self.kind == "cof" and not self.s) or (self.kind == "bits" and not self.k1 and not self.k0)

    def may_be(self, c):
        if self.kind == "fin":
            return c in self.s
        if self.kind == "cof":
            return c not in self.s
        return (c & self.k1) == self.k1 and (c & self.k0) == 0

    def may_be_zero(self):
        return self.may_be(0)

    def may_be_nonzero(self):
        if self.kind == "fin":
            return any(x != 0 for x in self.s)
        return True

    def must_be(self, c):
        return self.kind == "fin" and self.s == frozenset((c,))

    def single(self):
        if self.kind == "fin" and len(self.s) == 1:
            return next(iter(self.s))
        return None


TOP = AVal("cof")
ZERO = AVal("fin", frozenset((0,)))
ONE = AVal("fin", frozenset((1,)))
BOOL = AVal("fin", frozenset((0, 1)))
NONZERO = AVal("cof", frozenset((0,)))
MAXFIN = 12


def fin(*xs):
    return AVal("fin", frozenset(xs))


def cof(*xs):
    return AVal("cof", frozenset(xs))


def join(a, b):
    if a == b:
        return a
    if a.kind == "bits" or b.kind == "bits":
        if a.kind == "bits" and b.kind == "bits":
            return AVal("bits", k1=a.k1 & b.k1, k0=a.k0 & b.k0)
        return TOP
    if a.kind == "fin" and b.kind == "fin":
        s = a.s | b.s
        return AVal("fin", s) if len(s) <= MAXFIN else TOP
    if a.kind == "cof" and b.kind == "cof":
        return AVal("cof", a.s & b.s)
    f, c = (a, b) if a.kind == "fin" else (b, a)
    return AVal("cof", c.s - f.s)


def meet_eq(a, c):
    """a ∧ (== c); None if impossible."""
    if not a.may_be(c):
        return None
    return fin(c)


def meet_ne(a, c):
    if a.kind == "fin":
        s = a.s - {c}
        return AVal("fin", s) if s else None
    if a.kind == "cof":
        return AVal("cof", a.s | {c})
    if c == 0 or not a.may_be(c):
        return a
    return a


def meet_cmp(a, op, c):
    """a ∧ (a op c) for op in < <= > >= ; only finite sets are narrowed."""
    if a.kind != "fin":
        # cofinite: cannot represent a half line; keep (sound)
        return a
    f = {"<": lambda x: x < c, "<=": lambda x: x <= c, ">": lambda x: x > c, ">=": lambda x: x >= c}[op]
    s = frozenset(x for x in a.s if f(x))
    return AVal("fin", s) if s else None


NEG = {"==": "!=", "!=": "==", "<": ">=", ">=": "<", ">": "<=", "<=": ">"}
SWAP = {"==": "==", "!=": "!=", "<": ">", ">": "<", "<=": ">=", ">=": "<="}


class State:
    """persistent map with cached hash."""
    __slots__ = ("d", "_h")

    def __init__(self, d=None):
        self.d = d or {}
        self._h = None

    def get(self, k, default=TOP):
        return self.d.get(k, default)

    def has(self, k):
        return k in self.d

    def set(self, k, v):
        if v is None or (isinstance(v, AVal) and v.is_top()):
            if k not in self.d:
                return self
            nd = dict(self.d)
            del nd[k]
            return State(nd)
        if self.d.get(k) == v:
            return self
        nd = dict(self.d)
        nd[k] = v
        return State(nd)

    def drop(self, pred):
        ks = [k for k in self.d if pred(k)]
        if not ks:
            return self
        nd = dict(self.d)
        for k in ks:
            del nd[k]
        return State(nd)

    def items(self):
        return self.d.items()

    def __hash__(self):
        if self._h is None:
            self._h = hash(frozenset(self.d.items()))
        return self._h

    def __eq__(self, o):
        return isinstance(o, State) and self.d == o.d

    def __repr__(self):
        from facts import key_str
        return "{" + ", ".join("%s=%r" % (k if isinstance(k, str) else key_str(k), v)
                               for k, v in sorted(self.d.items(), key=lambda kv: str(kv[0]))) + "}"


class ValueDomain:
    """evaluation / transfer / refinement shared by the rules.  Rules subclass
    and override the hooks (tracked, call_value, on_call, on_assign, ...)."""

    assume_mpi_ok = False
    assume_alloc_ok = False
    # operators evaluated on finite sets; + - * are left out by default so that
    # loop counters widen to TOP after one iteration (termination)
    ARITH_OPS = ("|", "^", "<<", ">>")
    COUNTING = False

    def __init__(self, fn):
        self.fn = fn

    # ---- hooks -----------------------------------------------------------------
    def tracked(self, key):
        """which lvalues are worth tracking (others stay TOP)."""
        return True

    def call_value(self, call, state):
        """abstract return value of a call."""
        return TOP

    def on_call(self, call, state, blk, idx):
        """extra effect of a call element; returns state."""
        return state

    def on_assign(self, key, lhs, rhs, val, state, elem):
        """hook after an assignment (val already stored); returns state."""
        return state

    def on_elem(self, elem, state, blk, idx):
        """hook run before the generic transfer; returns state (or list)."""
        return state

    def call_kills(self, call, key):
        """does this call invalidate tracked key `key` (beyond &x arguments)?"""
        return False

    # ---- evaluation ------------------------------------------------------------
    def eval(self, n, st):
        n0 = n
        n = strip_pre(n)
        if not isinstance(n, dict):
            return TOP
        if "cv" in n:
            return fin(n["cv"])
        k = n.get("k")
        if k in ("ref", "mem", "idx"):
            key = lvalue_key(n)
            if key is not None and st.has(key):
                return st.get(key)
            return TOP
        if k == "un":
            op = n["op"]
            if op == "!":
                v = self.eval(n["e"], st)
                z, nz = v.may_be_zero(), v.may_be_nonzero()
                if z and nz:
                    return BOOL
                return ONE if z else ZERO
            if op == "*":
                key = lvalue_key(n)
                if key is not None and st.has(key):
                    return st.get(key)
                return TOP
            if op == "-":
                v = self.eval(n["e"], st)
                if v.kind == "fin":
                    return AVal("fin", frozenset(-x for x in v.s))
                return TOP
            return TOP
        if k == "cast":
            ck = n.get("ck")
            if ck in ("IntegralCast", "NoOp", "BitCast", "NullToPointer", "IntegralToPointer",
                      "PointerToIntegral", "LValueToRValue"):
                return self.eval(n["e"], st)
            if ck in ("IntegralToBoolean", "PointerToBoolean"):
                v = self.eval(n["e"], st)
                z, nz = v.may_be_zero(), v.may_be_nonzero()
                return BOOL if (z and nz) else (ZERO if z else ONE)
            return TOP
        if k == "bin":
            return self.eval_bin(n, st)
        if k == "cond":
            c = self.eval(n["c"], st)
            out = None
            if c.may_be_nonzero():
                sa = self.refine(n["c"], st, True)
                if sa is not None:
                    out = self.eval(n["a"], sa)
            if c.may_be_zero():
                sb = self.refine(n["c"], st, False)
                if sb is not None:
                    vb = self.eval(n["b"], sb)
                    out = vb if out is None else join(out, vb)
            return out if out is not None else TOP
        if k == "call":
            return self.call_value(n, st)
        if k == "asg":
            if n["op"] == "=":
                return self.eval(n["b"], st)
            return TOP
        return TOP

    def eval_bin(self, n, st):
        op = n["op"]
        if op in ("==", "!=", "<", ">", "<=", ">="):
            a = self.eval(n["a"], st)
            b = self.eval(n["b"], st)
            ca, cb = a.single(), b.single()
            if ca is not None and cb is not None:
                r = {"==": ca == cb, "!=": ca != cb, "<": ca < cb, ">": ca > cb,
                     "<=": ca <= cb, ">=": ca >= cb}[op]
                return ONE if r else ZERO
            if cb is None and ca is not None:
                a, b, ca, cb, op = b, a, cb, ca, SWAP[op]
            if cb is not None:
                if op == "==":
                    if not a.may_be(cb):
                        return ZERO
                elif op == "!=":
                    if not a.may_be(cb):
                        return ONE
                elif a.kind == "fin":
                    t = meet_cmp(a, op, cb)
                    f = meet_cmp(a, NEG[op], cb)
                    if t is None:
                        return ZERO
                    if f is None:
                        return ONE
            return BOOL
        if op == "&&":
            a = self.eval(n["a"], st)
            if not a.may_be_nonzero():
                return ZERO
            b = self.eval(n["b"], st)
            if not b.may_be_nonzero():
                return ZERO
            if not a.may_be_zero() and not b.may_be_zero():
                return ONE
            return BOOL
        if op == "||":
            a = self.eval(n["a"], st)
            b = self.eval(n["b"], st)
            if not a.may_be_zero() or not b.may_be_zero():
                return ONE
            if not a.may_be_nonzero() and not b.may_be_nonzero():
                return ZERO
            return BOOL
        if op == "&":
            a = self.eval(n["a"], st)
            b = self.eval(n["b"], st)
            mb = b.single()
            if mb is None and a.single() is not None:
                a, b, mb = b, a, a.single()
            if mb is not None:
                if a.kind == "bits":
                    if (a.k0 & mb) == mb:
                        return ZERO
                    if a.k1 & mb:
                        return NONZERO
                    return TOP
                if a.kind == "fin":
                    return AVal("fin", frozenset(x & mb for x in a.s))
            return TOP
        if op in self.ARITH_OPS:
            a = self.eval(n["a"], st)
            b = self.eval(n["b"], st)
            if a.kind == "fin" and b.kind == "fin" and len(a.s) * len(b.s) <= MAXFIN:
                try:
                    f = {"+": lambda x, y: x + y, "-": lambda x, y: x - y, "*": lambda x, y: x * y,
                         "|": lambda x, y: x | y, "^": lambda x, y: x ^ y,
                         "<<": lambda x, y: x << y if 0 <= y < 64 else 0,
                         ">>": lambda x, y: x >> y if 0 <= y < 64 else 0,
                         "/": lambda x, y: int(x / y), "%": lambda x, y: x - int(x / y) * y}[op]
                    return AVal("fin", frozenset(f(x, y) for x in a.s for y in b.s))
                except ZeroDivisionError:
                    return TOP
            return TOP
        if op == ",":
            return self.eval(n["b"], st)
        return TOP

    # ---- refinement ------------------------------------------------------------
    def refine(self, c, st, truth):
        """state on the edge where condition c has the given truth; None if
        infeasible."""
        c = strip_pre(c)
        if not isinstance(c, dict):
            return st
        if "cv" in c:
            return st if bool(c["cv"]) == truth else None
        k = c.get("k")
        if k == "cast":
            return self.refine(c["e"], st, truth)
        if k == "un" and c["op"] == "!":
            return self.refine(c["e"], st, not truth)
        if k == "bin":
            op = c["op"]
            if op == "&&":
                if truth:
                    s1 = self.refine(c["a"], st, True)
                    return None if s1 is None else self.refine(c["b"], s1, True)
                s1 = self.refine(c["a"], st, False)
                s2 = self.refine(c["a"], st, True)
                s2 = None if s2 is None else self.refine(c["b"], s2, False)
                return self._join_states(s1, s2)
            if op == "||":
                if not truth:
                    s1 = self.refine(c["a"], st, False)
                    return None if s1 is None else self.refine(c["b"], s1, False)
                s1 = self.refine(c["a"], st, True)
                s2 = self.refine(c["a"], st, False)
                s2 = None if s2 is None else self.refine(c["b"], s2, True)
                return self._join_states(s1, s2)
            if op in NEG:
                if not truth:
                    op = NEG[op]
                return self._refine_cmp(c["a"], op, c["b"], st)
            if op == "&":
                return self._refine_mask(c, st, truth)
        if k == "asg" and c.get("op") == "=":
            # if ((x = f()) != 0) style: the assignment already executed
            return self._refine_cmp(c["a"], "!=" if truth else "==", None, st, const=0)
        # plain value used as a truth value
        v = self.eval(c, st)
        if truth and not v.may_be_nonzero():
            return None
        if not truth and not v.may_be_zero():
            return None
        key = lvalue_key(c)
        if key is not None and self.tracked(key):
            nv = meet_ne(v, 0) if truth else meet_eq(v, 0)
            if nv is None:
                return None
            return st.set(key, nv)
        return st

    def _join_states(self, s1, s2):
        if s1 is None:
            return s2
        if s2 is None:
            return s1
        if s1 == s2:
            return s1
        nd = {}
        for k, v in s1.items():
            if isinstance(k, str):
                continue
            if s2.has(k):
                j = join(v, s2.get(k)) if isinstance(v, AVal) else (v if v == s2.get(k) else None)
                if j is not None and not (isinstance(j, AVal) and j.is_top()):
                    nd[k] = j
        for k, v in s1.items():
            if isinstance(k, str):
                nd[k] = v
        return State(nd)

    def _refine_cmp(self, a, op, b, st, const=None):
        va = self.eval(a, st)
        vb = fin(const) if b is None else self.eval(b, st)
        ca, cb = va.single(), vb.single()
        if ca is not None and cb is not None:
            r = {"==": ca == cb, "!=": ca != cb, "<": ca < cb, ">": ca > cb, "<=": ca <= cb, ">=": ca >= cb}[op]
            return st if r else None
        out = st
        for (x, vx, cy, o) in ((a, va, cb, op), (b, vb, ca, SWAP[op])):
            if x is None or cy is None:
                continue
            if o == "==":
                nv = meet_eq(vx, cy)
            elif o == "!=":
                nv = meet_ne(vx, cy)
            else:
                nv = meet_cmp(vx, o, cy)
            if nv is None:
                return None
            key = lvalue_key(x)
            if key is None:
                sx = strip(x)
                if isinstance(sx, dict) and sx.get("k") == "asg" and sx.get("op") == "=":
                    key = lvalue_key(sx["a"])
            if key is not None and self.tracked(key):
                out = out.set(key, nv)
        return out

    def _refine_mask(self, c, st, truth):
        a, b = c["a"], c["b"]
        m = const_value(b)
        x = a
        if m is None:
            m = const_value(a)
            x = b
        if m is None:
            return st
        v = self.eval(x, st)
        key = lvalue_key(x)
        if v.kind == "fin":
            s = frozenset(y for y in v.s if bool(y & m) == truth)
            if not s:
                return None
            if key is not None and self.tracked(key):
                return st.set(key, AVal("fin", s))
            return st
        k1, k0 = (v.k1, v.k0) if v.kind == "bits" else (0, 0)
        if truth:
            if (k0 & m) == m:
                return None
            if bin(m).count("1") == 1:
                k1 |= m
        else:
            if k1 & m:
                return None
            k0 |= m
        if key is not None and self.tracked(key):
            return st.set(key, AVal("bits", k1=k1, k0=k0))
        return st

    # ---- transfer --------------------------------------------------------------
    def kill(self, st, key):
        return st.drop(lambda k: not isinstance(k, str) and key_mentions(k, key))

    def assign(self, lhs, val, st, rhs=None, elem=None):
        key = lvalue_key(lhs)
        if key is None:
            return st
        st = st.drop(lambda k: not isinstance(k, str) and k != key and key_mentions(k, key))
        if self.tracked(key):
            st = st.set(key, val)
        else:
            st = st.set(key, None)
        return self.on_assign(key, lhs, rhs, val, st, elem)

    def transfer_expr(self, n, st, blk, idx):
        """effects of one expression tree (not entering pre sub-elements)."""
        n = n if not (isinstance(n, dict) and n.get("k") == "pre") else None
        if not isinstance(n, dict):
            return st
        k = n.get("k")
        if k == "asg":
            st = self.transfer_expr(n["b"], st, blk, idx)
            st = self._lhs_effects(n["a"], st, blk, idx)
            op = n["op"]
            if op == "=":
                return self.assign(n["a"], self.eval(n["b"], st), st, n["b"], n)
            key = lvalue_key(n["a"])
            old = st.get(key) if key is not None else TOP
            m = const_value(n["b"])
            new = TOP
            if op == "|=" and m is not None:
                if old.kind == "fin":
                    new = AVal("fin", frozenset(x | m for x in old.s))
                else:
                    k1, k0 = (old.k1, old.k0) if old.kind == "bits" else (0, 0)
                    new = AVal("bits", k1=k1 | m, k0=k0 & ~m)
            elif op == "&=" and m is not None:
                if old.kind == "fin":
                    new = AVal("fin", frozenset(x & m for x in old.s))
                else:
                    k1, k0 = (old.k1, old.k0) if old.kind == "bits" else (0, 0)
                    clr = ~m & 0xFFFFFFFF
                    new = AVal("bits", k1=k1 & m, k0=(k0 | clr))
            elif op in ("+=", "-=") and m is not None and old.kind == "fin" and self.COUNTING:
                new = AVal("fin", frozenset((x + m) if op == "+=" else (x - m) for x in old.s))
            return self.assign(n["a"], new, st, n["b"], n)
        if k == "un" and n["op"] in ("post++", "post--", "pre++", "pre--"):
            st = self._lhs_effects(n["e"], st, blk, idx)
            key = lvalue_key(n["e"])
            old = st.get(key) if key is not None else TOP
            new = TOP
            if old.kind == "fin" and self.COUNTING:
                d = 1 if "++" in n["op"] else -1
                new = AVal("fin", frozenset(x + d for x in old.s))
            return self.assign(n["e"], new, st, None, n)
        if k == "call":
            for a in n.get("args", []):
                st = self.transfer_expr(a, st, blk, idx)
            if n.get("fnx"):
                st = self.transfer_expr(n["fnx"], st, blk, idx)
            # &x arguments: callee may write x
            for a in n.get("args", []):
                sa = strip(a)
                if isinstance(sa, dict) and sa.get("k") == "un" and sa.get("op") == "&":
                    key = lvalue_key(sa["e"])
                    if key is not None and not self.keep_addr_arg(n, key, st):
                        st = self.kill(st, key)
            st2 = st.drop(lambda kk: not isinstance(kk, str) and self.call_kills(n, kk))
            return self.on_call(n, st2, blk, idx)
        if k == "decl":
            for v in n.get("vars", []):
                key = ("v", v["id"], v["n"]) if "id" in v else None
                if v.get("init") is not None:
                    st = self.transfer_expr(v["init"], st, blk, idx)
                    if key is not None:
                        val = self.eval(v["init"], st)
                        st = self.kill(st, key)
                        if self.tracked(key):
                            st = st.set(key, val)
                        st = self.on_assign(key, None, v["init"], val, st, n)
                elif key is not None:
                    st = self.kill(st, key)
            return st
        if k == "ret":
            return self.transfer_expr(n.get("e"), st, blk, idx) if n.get("e") else st
        # generic: children in order
        from facts import children
        for ch in children(n):
            st = self.transfer_expr(ch, st, blk, idx)
        return st

    def keep_addr_arg(self, call, key, st=None):
        """is `&key` passed to `call` left unchanged by the callee?"""
        name = call.get("fn")
        args = call.get("args", [])
        if name == "MPI_Bcast" and st is not None and len(args) >= 4:
            # the root's buffer is not modified: keep it where this path is the root
            root = self.eval(args[3], st).single()
            if root is not None:
                for k, v in st.items():
                    if isinstance(k, tuple) and ((k[0] == "v" and k[2] == "rank") or (k[0] == "m" and k[2] == "rank")):
                        if isinstance(v, AVal) and v.single() == root:
                            return True
            return False
        if name in ("MPI_Allreduce", "MPI_Reduce") and args:
            # the send buffer (first argument) is read only
            sa = strip(args[0])
            if isinstance(sa, dict) and sa.get("k") == "un" and sa.get("op") == "&" and lvalue_key(sa["e"]) == key:
                ra = strip(args[1]) if len(args) > 1 else None
                if isinstance(ra, dict) and ra.get("k") == "un" and lvalue_key(ra.get("e")) == key:
                    return False
                return True
        return False

    def _lhs_effects(self, lhs, st, blk, idx):
        l = strip(lhs)
        if isinstance(l, dict):
            if l.get("k") == "idx":
                st = self.transfer_expr(l["i"], st, blk, idx)
                st = self._lhs_effects(l["b"], st, blk, idx)
            elif l.get("k") in ("mem",):
                st = self._lhs_effects(l["b"], st, blk, idx)
            elif l.get("k") == "un":
                st = self._lhs_effects(l["e"], st, blk, idx)
        return st

    def transfer(self, blk, idx, elem, st):
        r = self.on_elem(elem, st, blk, idx)
        if r is None:
            return []
        if isinstance(r, list):
            out = []
            for s in r:
                out.append(self.transfer_expr(elem, s, blk, idx))
            return out
        return [self.transfer_expr(elem, r, blk, idx)]

    # ---- branching -------------------------------------------------------------
    def branch(self, blk, st):
        """[(succ, state)] for the out-edges of blk in state st."""
        succs = blk.succs
        if blk.term == "switch":
            return self._switch(blk, st)
        c = blk.cond
        if c is not None and len(succs) == 2:
            out = []
            t = self.refine(c, st, True)
            if t is not None and succs[0] is not None:
                out.append((succs[0], t))
            f = self.refine(c, st, False)
            if f is not None and succs[1] is not None:
                out.append((succs[1], f))
            return out
        return [(s, st) for s in succs if s is not None]

    def _switch(self, blk, st):
        c = blk.cond
        v = self.eval(c, st) if c is not None else TOP
        key = lvalue_key(c) if c is not None else None
        out = []
        cases = []
        default = None
        for s in blk.succs:
            if s is None:
                continue
            lab = self.fn.blocks[s].label
            if lab and lab.get("k") == "case" and "lo" in lab:
                cases.append((s, lab["lo"], lab.get("hi", lab["lo"])))
            else:
                default = s
        covered = set()
        for s, lo, hi in cases:
            if hi - lo > 64:
                out.append((s, st))
                continue
            vals = [x for x in range(lo, hi + 1) if v.may_be(x)]
            covered.update(range(lo, hi + 1))
            if not vals:
                continue
            s2 = st
            if key is not None and self.tracked(key):
                s2 = st.set(key, AVal("fin", frozenset(vals)))
            out.append((s, s2))
        if default is not None:
            if v.kind == "fin":
                rest = v.s - covered
                if rest:
                    s2 = st
                    if key is not None and self.tracked(key):
                        s2 = st.set(key, AVal("fin", frozenset(rest)))
                    out.append((default, s2))
            else:
                s2 = st
                if key is not None and self.tracked(key) and v.kind == "cof" and len(covered) <= 64:
                    s2 = st.set(key, AVal("cof", v.s | frozenset(covered)))
                out.append((default, s2))
        return out


class Explorer:
    """worklist exploration of one function under a domain."""

    def __init__(self, fn, dom, max_states=400000):
        self.fn = fn
        self.dom = dom
        self.max_states = max_states
        self.visited = 0
        self.exits = []      # (state, last block id)
        self.seen = set()
        self.parent = {}     # (block, idx, state) -> predecessor key (for path reports)

    def path_to(self, key, limit=200):
        """block-id sequence of one explored path ending at key."""
        out = []
        while key is not None and len(out) < limit:
            out.append(key[0])
            key = self.parent.get(key)
        out.reverse()
        return out

    def describe_path(self, key):
        """human-readable branch decisions along one path to key."""
        blocks = self.path_to(key)
        fn = self.fn
        from facts import show
        out = []
        for a, b in zip(blocks, blocks[1:]):
            blk = fn.blocks[a]
            c = blk.cond
            if c is not None and len(blk.succs) == 2 and blk.succs[0] != blk.succs[1]:
                t = "true" if blk.succs[0] == b else "false"
                out.append("line %s: (%s) is %s" % (blk.tl, show(c)[:90], t))
            elif blk.term == "switch":
                lab = fn.blocks[b].label or {}
                out.append("line %s: switch -> %s" % (blk.tl, lab.get("m") or lab.get("lo") or lab.get("k")))
        return out[-40:]

    def run(self, init, start_block=None, start_idx=0, on_exit=None, stop_at=None):
        fn = self.fn
        sb = fn.entry if start_block is None else start_block
        work = [(sb, start_idx, init, None)]
        while work:
            b, i, st, frm = work.pop()
            key = (b, i, st)
            if key in self.seen:
                continue
            self.seen.add(key)
            self.parent[key] = frm
            self.visited += 1
            if self.visited > self.max_states:
                raise Budget("state budget exceeded in %s" % fn.name)
            if b == fn.exit:
                self.exits.append((st, key))
                if on_exit:
                    on_exit(st, key)
                continue
            blk = fn.blocks[b]
            states = [st]
            for j in range(i, len(blk.elems)):
                new = []
                for s in states:
                    if stop_at is not None and stop_at(blk, j, s):
                        continue
                    new.extend(self.dom.transfer(blk, j, blk.elems[j], s))
                states = new
                if not states:
                    break
            for s in states:
                if blk.noreturn:
                    continue
                for succ, s2 in self.dom.branch(blk, s):
                    work.append((succ, 0, s2, key))
        return self


class InlineDomain(ValueDomain):
    """ValueDomain that evaluates calls to selected (side-effect free) helper
    functions by exploring the callee in the caller's abstract context:
    constant arguments are bound to the parameters and facts about fields of a
    pointer argument are carried over to the parameter.  Results are memoised."""

    INLINE = ()
    MAX_DEPTH = 2
    _cache = {}

    def __init__(self, fn, prog, depth=0):
        super().__init__(fn)
        self.prog = prog
        self.depth = depth

    def sub_domain(self, callee):
        return type(self)(callee, self.prog, self.depth + 1)

    def call_value(self, call, st):
        name = call.get("fn")
        if name in self.INLINE and self.depth < self.MAX_DEPTH:
            callee = self.prog.resolve_call(self.fn, name)
            if callee is not None and callee.blocks:
                return self.inline(call, callee, st)
        return self.extern_value(call, st)

    def extern_value(self, call, st):
        return TOP

    def inline(self, call, callee, st):
        init = {}
        args = call.get("args", [])
        for p, a in zip(callee.params, args):
            pk = ("v", p["id"], p["n"])
            v = self.eval(a, st)
            if not v.is_top():
                init[pk] = v
            ak = lvalue_key(a)
            if ak is not None and ak[0] == "v":
                for k, val in st.items():
                    if isinstance(k, tuple) and k[0] == "m" and k[1] == ak:
                        init[("m", pk, k[2])] = val
        s0 = State(init)
        ck = (type(self).__name__, callee.unit.name, callee.name, s0)
        if ck in InlineDomain._cache:
            return InlineDomain._cache[ck]
        dom = self.sub_domain(callee)
        rets = []

        class _D(type(dom)):
            pass
        orig = dom.on_elem

        def on_elem(elem, s, blk, idx, orig=orig, dom=dom):
            s = orig(elem, s, blk, idx)
            if isinstance(s, State) and elem.get("k") == "ret":
                s = s.set("$iret", dom.eval(elem.get("e"), s) if elem.get("e") is not None else None)
            return s
        dom.on_elem = on_elem
        dom.tracked_all = True
        ex = Explorer(callee, dom, max_states=50000).run(s0)
        out = None
        for s, _ in ex.exits:
            v = s.get("$iret")
            if not isinstance(v, AVal):
                v = TOP
            out = v if out is None else join(out, v)
        if out is None:
            out = TOP
        InlineDomain._cache[ck] = out
        return out


def allreduce_min_effect(dom, call, st):
    """MPI_Allreduce(&x, &y, 1, MPI_INT, MPI_MIN, comm): NC error codes are negative, so
    the MIN over ranks of a failing status is failing: y != 0 whenever x != 0."""
    from facts import macro_of
    a = call.get("args", [])
    if call.get("fn") == "MPI_Allreduce" and len(a) >= 5 and macro_of(a[4]) == "MPI_MIN" and const_value(a[2]) == 1:
        s0, r0 = strip(a[0]), strip(a[1])
        if isinstance(s0, dict) and isinstance(r0, dict) and s0.get("k") == "un" and s0.get("op") == "&" \
                and r0.get("k") == "un" and r0.get("op") == "&":
            sv = dom.eval(s0["e"], st)
            rk = lvalue_key(r0["e"])
            if rk is not None and not sv.may_be_zero() and dom.tracked(rk):
                return st.set(rk, NONZERO)
    return st
