"""CFG utilities on facts.Function: dominators, post-dominators, reachability."""


def _dom(nodes, entry, preds_of):
    """iterative dominator sets (functions here are small enough)."""
    nodes = list(nodes)
    full = set(nodes)
    dom = {n: set(full) for n in nodes}
    dom[entry] = {entry}
    changed = True
    order = nodes
    while changed:
        changed = False
        for n in order:
            if n == entry:
                continue
            ps = [p for p in preds_of(n) if p in dom]
            if ps:
                new = set(dom[ps[0]])
                for p in ps[1:]:
                    new &= dom[p]
            else:
                new = set()
            new.add(n)
            if new != dom[n]:
                dom[n] = new
                changed = True
    return dom


def reachable_from(fn, start):
    seen = set()
    st = [start]
    while st:
        b = st.pop()
        if b in seen:
            continue
        seen.add(b)
        for s in fn.blocks[b].succs:
            if s is not None:
                st.append(s)
    return seen


def dominators(fn):
    if getattr(fn, "_dom", None) is None:
        reach = reachable_from(fn, fn.entry)
        order = sorted(reach, reverse=True)
        fn._dom = _dom(order, fn.entry, lambda n: [p for p in fn.blocks[n].preds if p in reach])
    return fn._dom


def postdominators(fn):
    if getattr(fn, "_pdom", None) is None:
        reach = reachable_from(fn, fn.entry)
        order = sorted(reach)
        fn._pdom = _dom(order, fn.exit,
                        lambda n: [s for s in fn.blocks[n].succs if s is not None and s in reach])
    return fn._pdom


def pos_dominates(fn, a, b):
    """does program point a=(block,idx) dominate point b=(block,idx)?"""
    (ba, ia), (bb, ib) = a, b
    if ba == bb:
        return ia <= ib
    return ba in dominators(fn).get(bb, ())


def can_reach(fn, a, b):
    """is block b reachable from block a (a != b or via a cycle)?"""
    seen = set()
    st = [s for s in fn.blocks[a].succs if s is not None]
    while st:
        x = st.pop()
        if x == b:
            return True
        if x in seen:
            continue
        seen.add(x)
        st.extend(s for s in fn.blocks[x].succs if s is not None)
    return False


def find_elems(fn, pred):
    """[(block, idx, elem)] of CFG elements satisfying pred."""
    out = []
    for b, i, e in fn.elements():
        if pred(e):
            out.append((b, i, e))
    return out
