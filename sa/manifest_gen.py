#!/usr/bin/env python3
"""regenerates /verif/MANIFEST.json from the table below (keeps it schema-valid)."""
import json
import os

ROOT = os.path.dirname(os.path.dirname(os.path.abspath(__file__)))

CLAIMED = {
    "C11": {
        "technique": "path-sensitive abstract interpretation (finite/cofinite value sets) over clang CFGs: "
                     "fault-injected error-propagation rule at every MPI-IO call site and every call site of an "
                     "I/O-error-returning function, closed over the call graph incl. PNC_driver slots",
        "text": "Decides, for every MPI_File read/write/sync call site and every call site of a function that can "
                "return such an error (about 900 sites, enumerated from the current source), that on all CFG paths "
                "after a failing return (any error class) the enclosing function returns a non-zero status, up to "
                "the public ncmpi_* wrapper. This is the structural clause 'no I/O failure is dropped'; it does not "
                "decide which NC code is returned nor faults inside open/close/set_view.",
        "note": "Assumes allocations and MPI communication calls succeed; NC error codes negative (MPI_MIN "
                "reductions keep failures); a zero-length participation in a collective is a site like any other "
                "(found and fixed: F-C11-14..17); callee summaries: "
                "ncmpii_error_mpi2nc is non-zero (re-verified by rule R1.map).",
        "design_ref": "DESIGN.md section 3 / C11, rule R1",
    },
    "C09": {
        "technique": "exhaustive cell-wise decision of the generated conversion primitives: comparison flip points "
                     "located by bisection under C conversion semantics (constants from clang's evaluator), each "
                     "cell compared with an independent type-range model; plus AST table-agreement rules on the "
                     "type-dispatch chains and switches",
        "text": "Decides for ALL values of every source type of every one of the ~250 generated conversion steps "
                "(ncmpix_{put,get}_NC_<X>_<I> and the inlined NC_BYTE/NC_UBYTE loop steps) that NC_ERANGE is returned "
                "exactly when the value is not representable, that the C conversion result is stored otherwise, and "
                "that the fill (user fill pointer, else NC_FILL_<X>) replaces an out-of-range element; that the "
                "N-element loops keep the first error and convert every element; that the itype/xtype dispatch "
                "calls the name-matched converter, is total, applies the NC_BYTE/uchar exemption exactly for "
                "format < 5, and that ncmpio_pack_xbuf passes the variable's own fill value. The code's behaviour is "
                "piecewise constant between compared constants, so this is exhaustive, not sampled. Known deviations "
                "(NaN, +-Inf, 2^63/2^64) are listed findings. For 'all other elements of the same call are still "
                "transferred': at each of the ~265 sites where a write is packed or posted (ncmpio_pack_xbuf, the iput/bput "
                "entry points, driver slots) the function is explored once with the status NC_NOERR and once with NC_ERANGE; "
                "the possible next calls / exits (with the constants stored on the way) must be the same. The fill substitution is followed to the external byte order: a user fill value copied into the staging word must go through put_ix_*, one copied straight into the external buffer must be byte-swapped in place (R8.prim). Flexible APIs: after a user buffer type is decoded, its element type reaches the conversion layer or a queued request only behind the text/numeric test (R10.echar; the converters assert that NC_ECHAR was ruled out).",
        "note": "Analysed build only (LP64, little endian, ERANGE_FILL). Same-type fast paths (memcpy/byte swap) are "
                "not value-checked. 'Representable' is defined by the checker from the netCDF type table and IEEE-754.",
        "design_ref": "DESIGN.md section 3 / C09, rules R8, R10",
    },
    "C17": {
        "technique": "path-sensitive nullness / typestate abstract interpretation over clang CFGs: PNC_check_id "
                     "contract, use-after-check in all ~900 callers, id-table pairing and scan-range rules, "
                     "queue-emptied-before-free typestate in ncmpio_close; interprocedural heap-ownership analysis "
                     "(symbolic pointer values, per-return-class summaries of what each callee releases, captures, "
                     "returns or hands out)",
        "text": "Decides five structural clauses: (1) PNC_check_id returns NC_NOERR only with *pncp loaded from a slot "
                "tested non-NULL; (2) each of the ~900 callers uses the PNC pointer only after testing the result; "
                "(3) the id table: NC_ENFILE test dominates a scan over the whole table, slot store/counter/id "
                "hand-out are paired, deletion clears and decrements; (4) ncmpio_close tests each request queue "
                "empty or cancels it before freeing the file object and returns non-zero when requests were pending; "
                "(5) in every function reachable from the public API, each heap object allocated there (directly, or "
                "returned / handed out by a callee) is released, returned or stored in a longer-lived structure on "
                "every explored path, failure paths included; (6) every MPI datatype created into a local variable is "
                "released, handed on or stored on every path (typestate over the datatype variables only, so no function is "
                "excluded); (7) destructors release a field unconditionally or under that field's own NULL test, "
                "release-on-empty tests see the count after the removal, and the sites that release one kind of object "
                "release the same owned parts; (8) the id handed to del_from_PNCList is the one the table handed out, a failed "
                "driver create / open gives the slot back and returns the error on every path, and close as well as abort "
                "cancel pending requests before the file object is released. Not decided: communicators, info objects and file handles as resources, "
                "leaks that need an allocation or MPI failure, the 16 functions over R3.leak's state budget (frozen list; "
                "treated as capturing), isolation between files. Objects held in a member of a local structure (getbuf.base) are owned by the function like those held in a local pointer.",
        "note": "Single-threaded build. R3.leak assumes allocation and MPI calls succeed; four reports are discharged by "
                "reasoned predicates whose side conditions are re-tested (DESIGN 10.5a). Found and fixed: F-C17-2..14.",
        "design_ref": "DESIGN.md section 3 / C17, rule R3 (clauses 1, 4, 5)",
    },
    "C05": {
        "technique": "typestate / dominance rules on every store to NC.numrecs and every ncmpio_write_numrecs call "
                     "(path-sensitive abstract interpretation with event flags), call-graph reachability of the "
                     "synchronisation points, loop-range pairing of the request queues",
        "text": "Decides eight structural necessary conditions: after each header update of the record count every "
                "path makes the in-memory count >= the written value on all ranks; the written value is "
                "Allreduce(MAX)-derived when nprocs > 1 (incl. the do_io[3] slot of the wait path); each of the ~13 "
                "stores to NC.numrecs is guarded old<new / MAX-reduced / a listed initialisation (monotone); growth "
                "without a header write marks NC_NDIRTY; a put ending with NC_ERANGE still grows the count; "
                "end_indep_data/sync/redef/close reach ncmpio_sync_numrecs; the newnumrecs scan covers the whole "
                "pending queue; the header snapshot of a redefinition is taken after the record count has been "
                "synchronised; the MPI_MAX reduction of the wait path covers the array slot the record count travels in; "
                "NC_lead_req.max_rec (what the new count is derived from) accumulates with MAX inside per-segment loops, its "
                "closed forms equal highest record + 1 (evaluated on a small grid) and req_commit folds it with MAX; a record "
                "count derived from a request's geometry is computed only under nelems > 0 (a request that transferred data). "
                "Equality of the count across ranks at run time and the on-disk value are not decided.",
        "note": "assume_mpi_ok for communication calls; field NC.numrecs identified by struct/field identity from clang.",
        "design_ref": "DESIGN.md section 3 / C05",
    },
    "C02": {
        "technique": "loop-range / alias analysis of every loop over the request queues, definite-assignment "
                     "abstract interpretation of the enqueue functions over struct fields, call-precondition and "
                     "id-parity table rules (clang CFG + AST); bounded analyser-side evaluation of two integer slices",
        "text": "Decides six structural necessary conditions of wait/cancel equivalence: every one of the ~48 loops "
                "that index a request queue ranges over that queue's own length field (aliases resolved); no read "
                "through a stale element pointer inside a queue-compaction loop; every field of an enqueued "
                "NC_lead_req/NC_req is assigned on all successful paths of both enqueue functions; callers of "
                "ncmpio_add_record_requests divide nelems by the record count first; request-id parity is consistent "
                "between assigners and classifiers; in the sorted queue insertion of both enqueue functions the amount the "
                "non-lead queue grows by, the shift of its elements and the nonlead_off adjustment of the displaced lead "
                "requests are one expression. Two bounded rules evaluate slices in the analyser: extract_reqs selects "
                "exactly the lead requests named by the non-NULL ids (small queues and id lists, NC_REQ_NULL "
                "included); the interleave flag computed by req_aggregation equals a pairwise overlap model on small "
                "sorted offset lists; ncmpio_add_record_requests, evaluated whole, yields one sub-request per record at "
                "start + r*stride with its own buffer slice; merge_requests in its read form leaves every get request's "
                "bytes in that request's buffer after the read and the copies it records (overlapping reads), and its caller "
                "carries the copies out after ncmpio_read_write. It does not decide equality of file contents with blocking "
                "execution. A wait list that names an id which is not pending is refused and leaves no request marked (R8.extract, unknown ids).",
        "note": "assume_mpi_ok; queue fields identified by struct NC field identity; the sorted-insert exception for "
                "nonlead_off is path-conditioned, not blanket.",
        "design_ref": "DESIGN.md section 3 / C02, rules R5, R6",
    },
    "C14": {
        "technique": "mode-injected path-sensitive abstract interpretation (bit-vector domain for the flag words, "
                     "helper functions inlined in context) of every public API wrapper; who-may-write rule on the "
                     "mode bits; layer-agreement and effect-before-rejection typestate rules",
        "text": "Decides seven structural clauses: (1) the mode bits of PNC.flag/NC.flags are written only by the listed "
                "mode-changing functions; (2) the dispatcher changes a mode bit only after its driver call returned "
                "NC_NOERR; (3) on every successful exit of the driver's mode-changing function the bit has the value "
                "the dispatcher records (layers agree); (4) each of ~810 public APIs, explored with every mode in which "
                "it is not permitted injected into the flag word (1626 API x mode instances), never reaches its driver "
                "call, never returns NC_NOERR and can return the documented code; (5) the driver-level guards of "
                "wait/sync/sync_numrecs/begin/end_indep reject before any communication or I/O; (6) no path returning "
                "a mode error has already modified header state; (7) precedence: in sanity_check, "
                "check_start_count_stride, sanity_check_put and sanity_check_get the tests producing the documented "
                "error codes come in the documented order (NC_EPERM, NC_EINDEFINE, NC_ENOTVAR, NC_ECHAR, "
                "NC_EINVALCOORDS, NC_EEDGE, NC_ESTRIDE ...), and each of the ~650 put/get wrappers runs id check, "
                "sanity check, start/count check and the driver's data call in that order. The full product automaton "
                "over call histories, and precedence among errors produced inside the driver, are not decided. Writability is derived from the NC_WRITE bit alone in every layer: each test of the open mode in the open functions is evaluated on mode words and may depend on no other bit (R4.rdonly). Driver mode functions do not change a mode bit on an exit that certainly fails (R11.layers, failing exits). The multi-variable APIs are explored with the number of variables left open (zero included): a call in a forbidden mode is rejected also when it names no variable.",
        "note": "classic-format files; multi-variable APIs examined with nvars >= 1; MPI communication succeeds; "
                "bit and error values are re-read from the macro table on every run.",
        "design_ref": "DESIGN.md section 3 / C14, rule R11",
    },
    "C08": {
        "technique": "collective-sequence language analysis: path-sensitive abstract interpretation with a "
                     "rank-uniformity taint (explicit + implicit flows), languages of MPI-collective sequences as "
                     "reduced ordered decision diagrams over rank-uniform atoms, computed bottom-up over the call "
                     "graph with context-sensitive callee expansion; safe-mode return-uniformity taint rule; "
                     "zero-request effect rule",
        "text": "Decides, for each of 29 collective entry points of the ncmpio driver (file, define-mode, attribute, "
                "blocking data *_all and wait_all forms) and every function they reach, that under every valuation "
                "of the rank-uniform predicates the sequence of MPI collectives (communicator and collective-handle "
                "file operations) is the same whatever the rank-varying data (rank, data-API arguments, NC_REQ_ZERO, "
                "request queues, values derived from them) make the varying branches do; that loops containing "
                "collectives have rank-uniform trip conditions; that with safe mode on every non-zero return after a "
                "collective in the dispatcher's metadata wrappers is Allreduce/Bcast-derived; and that the "
                "NC_REQ_ZERO path never touches start/count/stride/buf/varid. Known divergences are listed findings "
                "(F-C08-1, F-C08-2). It does not decide deadlocks inside MPI-IO, point-to-point aggregation traffic, "
                "or behaviour under MPI communication failures.",
        "note": "nprocs > 1; MPI calls return MPI_SUCCESS (I/O faults are C11's subject) and allocations succeed; "
                "replicated header state (struct NC/PNC fields other than the frozen varying list) and NC.numrecs in "
                "collective mode are rank-uniform (C05 is the side condition); two reasoned predicates are used only "
                "while their side conditions (rule R2.reasoned) hold; path sensitivity is bounded by per-block state "
                "widening (12 states), which can only add paths.",
        "design_ref": "DESIGN.md section 3 / C08, rule R2",
    },
    "C13": {
        "technique": "typestate abstract interpretation of the put pipelines (swap / swap-back pairing with argument "
                     "identity, flag-iff-alias rule), structural guard rules at the three retire sites, sibling "
                     "agreement of a decision tree, allocator-accounting typestate and who-may-write rule",
        "text": "Decides six structural clauses: blocking puts (put_varm, getput_vard) undo every in-place byte swap "
                "of the user buffer with the identical element count and size on every path to a return; the "
                "nonblocking posts record NC_REQ_BUF_BYTE_SWAP exactly when the user buffer itself is handed on with a "
                "swap pending; the three retire sites test that flag and swap back (buf, nelems, varp->xsz) of the same "
                "request; the four put paths decide in-place swapping by the same tree (hint off / on / size threshold); "
                "attached-buffer accounting (NC_EINSUFFBUF test dominates allocation, failed pack releases the slot, "
                "every release reaches abuf_coalesce, size_used has only the listed writers, usage counter and "
                "table tail are reset together; usage equals the sum of the pending slots - the last clause fails on "
                "today's tree and is listed as known finding F-C13-1); every MPI type constructor that can leave gaps between elements is "
                "decoded as non-contiguous by ncmpii_dtype_decode (otherwise pack/unpack are skipped and the gaps of the "
                "caller's buffer are read or overwritten). It does not decide in general that a read touches exactly "
                "the selected bytes. Index fields that use -1 for none (the attached-buffer slot of a request) are compared with constants only in ways that tell -1 from slot 0 (R10.sentinel).",
        "note": "MPI calls and allocations succeed; read requests never own attached-buffer space (bget does not exist).",
        "design_ref": "DESIGN.md section 3 / C13",
    },
    "C19": {
        "technique": "typestate taint of untrusted header words (raw / converted-to-signed / bounded) over clang CFGs, "
                     "dominance rule for buffer refill width, guard rule on hint-derived table sizes, queue loop-range "
                     "pairing; interprocedural double-release / use-after-release analysis with symbolic pointer values "
                     "and per-return-class callee summaries; cell-wise decision of the type-code validator",
        "text": "Decides six structural necessary conditions of 'malformed input fails cleanly / no freed memory is used': each of the 22 "
                "integers read from a file header is upper-bounded as a raw word, or sign-tested after conversion to a "
                "signed type, before its first non-comparison use (or is a listed field that is dead / validated "
                "later, which is re-verified); the 4- and 8-byte header reads are dominated by a refill test of the "
                "same width; hash-table sizes taken from hints are rejected unless >= 1; loops over the request queues "
                "stay inside the queue; a type code from the header is accepted exactly for 1..6 (CDF-1/2) or 1..11 "
                "(CDF-5); and, over ~960 library functions with interprocedural release summaries per return-value "
                "class, no heap object is released twice or dereferenced after release on any explored path; no "
                "scalar local is read across a goto taken before its initialisation (a bound "
                "on a word already converted to a signed or narrower type does not count as a bound on the word); the "
                "object pointer arrays the destructors walk are zero-initialised or counted cell by cell; every attribute "
                "element count the reader accepts has an external size below 2^63 (hdr_get_NC_attr evaluated for every "
                "version x type x a dictionary of extreme words); the intra-node aggregation groups and the copy of their "
                "rank ids stay inside the node's rank list (bounded); the header chunk reader turns a read of nothing into an "
                "error and agrees on the read status whenever there is more than one process; compute_var_shape, evaluated "
                "under an overflow trap on headers with extreme begin / length values, performs no sum that leaves the signed "
                "64-bit range. It "
                "does not decide absence of undefined behaviour in general, typed access to byte-sliced buffers, or "
                "resource proportionality; 7 oversized functions are outside the release analysis (frozen list). Every sprintf/strcpy/strcat of the library into a character array of constant size is bounded below the size of the array (format widths by C type, %s by the bound of its argument) (R9.msgbuf). Element counts read from the header are not rounded up or incremented in 32-bit signed arithmetic (R9a.intround).",
        "note": "field identities from clang; LATER table: NC_var.len (dead), NC_var.begin (ncmpio_NC_check_voffs).",
        "design_ref": "DESIGN.md section 3 / C19, rule R9a",
    },
    "C15": {
        "technique": "fault-style abstract interpretation of every data API wrapper with the validator forced to "
                     "reject (request-mode bit tracking to the driver call), argument-wiring rule, and enumeration of "
                     "the orderings distinguished by the pure comparison validator check_EINVALCOORDS",
        "text": "Decides: each of ~660 public data APIs that take start/count/stride passes its own arguments and the "
                "right direction constant to check_start_count_stride, and a request the validator rejects reaches "
                "the driver only with NC_REQ_ZERO set (collective) or not at all (independent); the zero-length path "
                "transfers (NULL, 0); check_EINVALCOORDS agrees with the documented strict/relaxed rule on every "
                "ordering of its inputs and its call sites are index-aligned; check_EEDGE agrees with the documented "
                "rule on a bounded grid that includes strides and shapes up to 2^63-1, evaluated under a signed-64-bit overflow "
                "trap (bounded only - it uses arithmetic); vars_flatten turns a request into "
                "exactly the byte ranges of the addressed elements in packed-buffer order, and merge_requests keeps "
                "exactly the requested bytes, sorted and disjoint, first request winning (both bounded, against "
                "independent models), and a request classified contiguous by is_request_contiguous is one run of "
                "consecutive elements (every request of six small shapes); ncmpio_add_record_requests splits a multi-record "
                "request into exactly the records start + r*stride (whole function, bounded), and where the record dimension "
                "is dropped every per-dimension array handed on is advanced: writes stay inside the requested region. Offset arithmetic of accepted requests "
                "beyond these slices is not decided. NC_EIOMISMATCH is raised under an inequality of the buffer's and the request's element counts at every site (R10.iomismatch).",
        "note": "mput/mget examined with nvars >= 1; nprocs > 1 on the collective zero-length branch.",
        "design_ref": "DESIGN.md section 3 / C15",
    },
    "C07": {
        "technique": "paired-update typestate rules (abstract interpretation over clang CFGs), argument-identity rules on "
                     "every lookup-table call site, dominance / ordering rule on the bucket compaction, taint-free "
                     "name-normalisation rule",
        "text": "Decides seven structural necessary conditions of 'lookup by name agrees with lookup by id and changes "
                "persist': every lookup-table call passes buckets and bucket count of the same object; each of the 8 "
                "metadata mutators changes an object array together with its name table on every successful path; "
                "the bucket compaction in ncmpio_hash_delete runs over the current length; the dispatcher's mirrors "
                "change only after driver success; user names are UTF-8 normalised before lookup/insert in the 13 "
                "name-taking driver entries; ncmpio_copy_att tests the mode of and rewrites the header of the "
                "destination file; data-mode rename/put_att/copy_att pass through ncmpio_write_header on every "
                "successful changing path; every cached name_len is the length of the stored name; the data-mode "
                "in-place tests (NC_ENOTINDEFINE on rename / put_att / copy_att) compare a field the header size function "
                "reads (name_len, xsz) with the value that replaces it. Hash arithmetic, id renumbering and value "
                "conversion are not decided. Name comparisons in the lookups are whole-string (R10.nameeq). NC_MAX_NAME holds for the NFC-normalised name: the name gate is evaluated with normalised lengths around the limit, and every dispatcher path that hands a user-supplied name to a name-storing driver slot has passed the gate (R8.normlen).",
        "note": "MPI calls and allocations succeed; object kinds identified by clang record identity.",
        "design_ref": "DESIGN.md section 3 / C07",
    },
    "C16": {
        "technique": "table agreement (byte tables vs constants evaluated by clang), switch/arm agreement, dominance "
                     "rules on the fill loops, object-provenance rule (old vs new header), bounded enumeration of the "
                     "per-rank partition slice, guard-shape rule for _FillValue",
        "text": "Decides seven structural clauses of the fill semantics: the 11 FILL_<T> byte tables equal the big-endian "
                "encodings of NC_FILL_<T>; the fill type switches are total and each arm uses its own table; a variable "
                "enters the aggregated fill request only after its no_fill flag was tested; redefinition fills only "
                "variables with id >= old->vars.ndefined; offsets to fill come from the new layout (the old header is "
                "used for counts only); the per-rank shares tile each variable exactly (bounded: nprocs <= 5); the "
                "_FillValue attribute guards (type, single element, late fill) are in place; ncmpio__enddef reaches the fill "
                "step exactly when the file has at least one variable, whatever their kinds (the guard evaluated for 0..3 "
                "fixed-size x 0..3 record variables). Values read back are not decided. A dataset-level fill-mode change is stored for every variable: set-for-all loops over a header array cover [0, ndefined) (R5.setall). The fill step hands the write exactly the bytes its file view selects, one block per request whose fill buffer was prepared (R8.fillbatch, bounded); ncmpi_copy_att makes put_att's three _FillValue checks (R4.fillatt).",
        "note": "R8.partition is a bounded enumeration of an arithmetic slice, not an exhaustive argument.",
        "design_ref": "DESIGN.md section 3 / C16",
    },
    "C18": {
        "technique": "table agreement on the per-format limits (constants evaluated by clang), structural rule on the "
                     "'one too-large variable, last' passes, dominance rule on the CDF-1 offset test, type-based "
                     "narrowing-cast rule with guard recognition over the geometry functions, comparator rule",
        "text": "Decides seven structural clauses: the per-format maximum variable sizes (2^63-4, 2^32-4, 2^31-4) and their "
                "guards in ncmpio_NC_check_vlens; the 'at most one too-large variable and it must be last' structure "
                "of both passes; that in both passes of NC_begins the value stored as a variable's offset is itself "
                "tested against 2^31-1 for CDF-1; the ncmpi_def_dim limits; that every 64->32 bit conversion in 30 "
                "offset/geometry functions is range-guarded (limit test on the right edge, round-trip test, flag from "
                "an NC_MAX_INT scan, clamp, or a listed reasoned site); that qsort comparators do not return a truncated "
                "64-bit difference; that type_create_subarray64, interpreted with the MPI type constructors "
                "replaced by their definitions over explicit type maps, builds exactly the type map, lower bound and "
                "extent of MPI_Type_create_subarray when a dimension exceeds 2^31-1 (bounded family of requests). "
                "Two whole-function bounded evaluations: ncmpio_NC_check_vlens decides every list of up to 4 variables (fixed / "
                "record, small / too large, 3 formats) as the format rule does, and every layout NC_begins accepts for lists "
                "of up to 3 variables with lengths up to 2^63-8 (unbounded integers in the analyser) has non-negative, "
                "representable, ordered, non-overlapping begins. Data placement at run time is not decided; the intra-node "
                "aggregation layer is outside the narrowing rule. A 64-bit file offset is refused for exceeding 2^31-1 only where the function goes on to put that value into 32 bits (R12.offlimit).",
        "note": "LP64 build; guard recognition is syntactic-structural (dominating comparison on the same expression text). "
                "Found and fixed: F-C18-1 (63-bit overflow of the running offset in NC_begins).",
        "design_ref": "DESIGN.md section 3 / C18, rules R10, R12",
    },
    "C10": {
        "technique": "table and dominance rules over the hint parser's CFG: per-hint accepted-domain extraction "
                     "(repair tests after the parse) compared with a consumer-domain table, must-pass-through rule "
                     "for the report-back calls, reaching-definition rule on the reported string; for the intra-node "
                     "aggregation layer: parallel-array co-update rule, bounded evaluation of the flattening and merge "
                     "slices against element-wise models",
        "text": "Decides the hint-table clauses and structural clauses of the aggregation layer: for every hint parsed in ncmpio_set_pnetcdf_hints the values "
                "the parser lets through lie inside the domain its consumers are total on (hash sizes >= 1, alignments "
                "and aggregator counts >= 0), so that no hint value can change an error code or crash; every hint key "
                "read is written to info_used on every path; and the string reported (there and in ncmpio_inq_misc) "
                "is printed from the field holding the value in force. For intra-node write aggregation (a "
                "configuration that must not change results): offsets/lengths/buffer-address arrays are swapped and "
                "compacted together; flatten_subarray and the record loop of flatten_req address exactly the elements "
                "of a (start,count,stride) request, and the overlap merge keeps exactly the requested bytes with the "
                "first request winning (bounded grids, compared with independent models); where the record dimension "
                "is dropped (ndims--) every per-dimension array handed on with the reduced count is advanced. Equality of file content / "
                "read data / error codes across configurations in general is differential and is NOT decided; independence of the collective "
                "structure from safe mode and process count is decided under C08.",
        "note": "The consumer-domain table is hand-confirmed from the consumers (hash & (size-1), D_RNDUP, "
                "nprocs / num_aggrs_per_node); a parsed hint with no table entry is reported. Found and fixed: "
                "F-C10-1 (record stride ignored by the aggregator).",
        "design_ref": "DESIGN.md section 3 / C10",
    },
    "C06": {
        "technique": "dominance / reachability rules and branch-structure decision-table enumeration on ncmpio__enddef's "
                     "CFG, last-assignment typestate by path-sensitive abstract interpretation of compute_var_shape, and "
                     "bounded evaluation of the integer slices of move_file_block / move_record_vars / move_fixed_vars by "
                     "the analyser's own interpreter over the extracted CFG (block moves replayed on a labelled byte map)",
        "text": "Decides structural clauses of 'redefinition preserves existing data': every data move precedes the header "
                "write and the fill of new variables, the record section moves before the fixed-size variables; the "
                "decision table of the move triggers (extent grew / record start grew / record size grew) has the needed "
                "move on every path; NC_begins keeps the never-shrink repairs; after open begin_rec/begin_var mirror "
                "the file's own offsets on every successful path; and, for bounded configurations (1..5 processes, "
                "block sizes around multiples of nprocs and of the 64 MiB unit; small record/fixed layouts), the chunk "
                "partition of move_file_block tiles the block, goes tail first with one displacement, never overlaps "
                "unmoved data, is collectively consistent, and the move sequences put every old byte at its new offset. "
                "For abort: no header/data writer is reachable from ncmpio_abort in the call graph (only the record-count "
                "write-back) and a file under creation is deleted. Value preservation over all layouts/histories and "
                "byte-for-byte equality after abort are NOT decided.",
        "note": "The two R8 rules are bounded (not exhaustive) evaluations of arithmetic slices, not executions of the "
                "library; MPI-IO is assumed to deliver the requested counts.",
        "design_ref": "DESIGN.md section 3 / C06",
    },
    "C03": {
        "technique": "effect summaries over clang CFGs: per format version, the set of token sequences (4/8-byte words, "
                     "byte runs, nested productions, loops) each hdr_put_NC_* function writes on its successful paths, "
                     "compared with the specification grammar written down independently and with the additive terms of "
                     "the hdr_len_NC_* size functions; constant-table and decision-atom path rules",
        "text": "Decides the grammar clause of 'files conform to CDF-1/2/5': for every header production (name, dim, "
                "dim_list, attr, att_list, var, var_list, header) and each version the encoder writes exactly the "
                "fields the specification lists, in order, with NON_NEG widths 4/4/8 and OFFSET widths 4/8/8; the "
                "size function (reported header size, buffer size, start of data) adds up exactly those fields with "
                "the widths handed to the right parameters; list tags / ABSENT / magic constants and the vsize "
                "saturation constant are the specified ones; a clobbering create unlinks or truncates an existing "
                "file before opening; every cached name_len - which the size function and the encoder read instead of the "
                "string - is the length of the string stored as the object's name (13 store sites incl. the callers of the "
                "two constructors). Which values go into the fields, the data areas and the layout invariants "
                "under arbitrary schemas are NOT decided here (limits: C18; moves: C06; data-mode rewrite: C07).",
        "note": "Version branches are decided per version; error-status branches take the success side; RUNs and loops may "
                "be empty. Byte-level padding arithmetic is not part of the token abstraction.",
        "design_ref": "DESIGN.md section 3 / C03, rule R7",
    },
    "C04": {
        "technique": "the same CFG effect summaries for the hdr_get_NC_* decoder compared with the specification grammar "
                     "and with the encoder's; dominance rule for window refills; must-pass-through rule for the vsize "
                     "recomputation; last-assignment typestate for begin_rec/begin_var; bounded evaluation of hdr_fetch's "
                     "integer slice",
        "text": "Decides structural clauses of 'any valid file is read back': the decoder consumes exactly the "
                "specification's fields per production and version (so it does not depend on the writer's dialect), "
                "and agrees with the encoder; every fixed-width read from the sliding header window is preceded by a "
                "refill test of at least that width; hdr_fetch keeps the unread tail and continues at the following "
                "file offset for every fill level of a 40-byte window (bounded); vsize from the file is recomputed "
                "from the dimensions on every successful open path; begin_rec / begin_var are taken from the file's "
                "own offsets (gaps honoured). Equality of all inquiry results and data with the encoded content is "
                "NOT decided. No field of the header object that the decoder derives is read (by it or the functions it hands the object to) before the write that derives it (R4.decodeorder). The decode of the record count is required to recognise the specification's STREAMING word (R7.streaming; it does not: listed finding F-C04-1). The reader's record size is evaluated for lists of up to 3 variables against the format rule: packed for a single record variable, the sum of the padded lengths otherwise (R8.recsize). The pieces of a name that straddles read-window boundaries tile the name buffer (R8.namecopy, bounded).",
        "note": "The hint nc_header_read_chunk_size is inert in this snapshot (parsed into a local, never stored), so chunk "
                "sizes other than the default are unreachable through the API; the rules are independent of the chunk size.",
        "design_ref": "DESIGN.md section 3 / C04, rules R7, R9a, R8.fetch",
    },
    "C20": {
        "technique": "CFG effect summaries of ncvalidator's own header parser compared with the specification grammar; "
                     "must-pass-through rule (every mismatch branch that reports DIFF increments a counter on all its "
                     "paths), def-use closure from the counters to the exit status, exhaustiveness of the type "
                     "dispatches (switches and if-chains), bounded partition-slice rule",
        "text": "Decides structural clauses for ncvalidator, ncmpidiff and cdfdiff: the validator parses exactly the "
                "specification's header grammar for CDF-1/2/5 (the same grammar C03/C04 establish for the library's "
                "encoder and decoder, so it accepts the library's headers field for field); in both diff tools every "
                "reported difference increments a difference counter on all paths of its mismatch branch (also when "
                "output is suppressed), every counter reaches the exit status, every value/attribute type dispatch "
                "covers all 11 external types, and ncmpidiff's division of a variable among processes tiles the "
                "dimension (bounded); ncoffsets' own parser also equals the specification grammar; the validator "
                "accepts a type code exactly when the format version allows it, and a non-zero verdict (fatal or "
                "NC_ENULLPAD) of any of its parser/check functions reaches the exit status even if a later "
                "iteration succeeds; a modulo / division by an object count (attributes, dimensions, variables of the other "
                "file) is reached only with a positive count; a diff tool that reads numrecs from the headers compares the two "
                "counts; record r of a variable is addressed at begin + r * (the file's record size) in the tools and the "
                "library (7 sites). NOT decided: the validator's other semantic checks, ncmpidump/ncmpigen output, "
                "tolerance arithmetic. The tools' private header decoders obey the same derive-before-read order (R4.decodeorder); cdfdiff's per-variable comparison of dimension lengths lets the record dimension stand for the number of records (R10.reccount); ncmpidiff counts floating-point values as different only when their bit patterns differ (R10.bitequal). Message buffers of ncvalidator and ncoffsets are bounded (R9.msgbuf). ncvalidator's per-variable length is the element size times the product of the non-record dimensions, rounded to 4 (R8.valshape, bounded).",
        "note": "Found and fixed: ncmpidiff had no NC_BYTE case in its three dispatches (F-C20-1..3); cdfdiff SIGFPE and "
                "missing record-count comparison (F-C20-4, -5).",
        "design_ref": "DESIGN.md section 3 / C20",
    },
    "C12": {
        "technique": "path-sensitive must-pass-through rule (abstract interpretation with the log initialised) on the "
                     "burst-buffer entry points, control-dependence rule for the log removal, sibling bookkeeping "
                     "agreement between the two log-append functions, bounded evaluation of the shared-log block-mapping "
                     "slices; sources parsed with -DENABLE_BURST_BUFFER=1",
        "text": "Decides structural clauses of burst-buffer transparency on src/drivers/ncbbio (not compiled by the baseline "
                "build): get_var/get_varn/get_vard, wait, sync, flush, redef and close reach the log flush (or the flushing "
                "log close) before forwarding to the ncmpio driver on every path with the log initialised; both log files "
                "are unlinked at close exactly under the delete-on-close hint; ncbbio_log_put_var and _put_varn maintain "
                "the same bookkeeping and the largest-entry size tracks the amount the data log grows by (the flush buffer "
                "is sized from it); for bounded (channels, offset, count) the shared-log pread/pwrite move every logical "
                "byte once at its mapped offset and agree with each other; the gathering part of a flush round, evaluated on "
                "small logs with reads and seeks acting on a modelled file position, fills the flush buffer with exactly the "
                "data of the valid entries of its batch (cancelled entries skipped after what precedes them was read); a "
                "schema-derived field of the driver object that inquiries consult (recdimid) is derived from the file at open; "
                "no ordering comparison sets an unsigned value against a negative constant (driver, library and tools); a "
                "pointer parameter the driver tests against NULL is not used unprotected where the NULL side of such a test can "
                "reach. Equality of the final file with the default driver's and read-your-writes for all programs are NOT "
                "decided. A failing log-file operation reaches the return value of every calling driver function (R1.logret); ncbbio_wait completes each named request once in the driver that owns it and attributes statuses by list position (R8.bbwait, bounded); flexible puts reach the log only behind the text/numeric test (R10.echar).",
        "note": "R8.shared and R8.flushbatch are bounded evaluations. Found and fixed: F-C12-1..3 (replayed in a tree configured "
                "with --enable-burst-buffering). Observed, outside the property: in ncbbio_log_flush_core the per-request "
                "status loop resets j to 0 in every iteration, so every put request of a batch is given stats[0].",
        "design_ref": "DESIGN.md section 3 / C12",
    },
}

NA_REASON = {
    "C01": "round-trip value equality over all shapes/strides/datatypes/decompositions quantifies over run-time data "
           "and MPI-IO behaviour; no sound static argument in reach; its structural sub-clauses are decided under "
           "C09, C13, C15, C08 (DESIGN.md section 3/C01)",
}


def main():
    props = [json.loads(l) for l in open(os.path.join(ROOT, "properties.jsonl"))]
    checks = []
    for p in props:
        pid = p["id"]
        if pid not in CLAIMED:
            continue
        c = CLAIMED[pid]
        checks.append({
            "property_id": pid,
            "quick_cmd": "python3 sa/check.py %s --tier quick" % pid,
            "thorough_cmd": "python3 sa/check.py %s --tier thorough" % pid,
            "evidence_file": "evidence/%s.json" % pid,
            "replay_cmd_template": "python3 sa/check.py --explain {path}",
            "engine": "pncx+sa",
            "level_claimed": {"category": "other", "text": c["text"], "design_ref": c["design_ref"]},
            "level_note": c["note"],
            "technique": c["technique"],
        })
    na = []
    for p in props:
        pid = p["id"]
        if pid in CLAIMED:
            continue
        na.append({"property_id": pid,
                   "reason": NA_REASON.get(pid, "designed (DESIGN.md section 3), static rule not built yet — "
                                                "not claimed rather than claimed through a proxy")})
    m = {
        "version": 1,
        "setup_cmd": "make -C /verif/tools",
        "hooks": {
            "guard": "PNETCDF_VERIF",
            "enable": "none needed: every rule reads the unmodified source of /repo (no instrumentation)",
            "baseline_off_cmd": "cd /repo && make -s check",
            "source_commits": [],
            "add_only": True,
        },
        "engines": [{
            "name": "pncx+sa",
            "path": "sa/check.py",
            "serves_properties": sorted(CLAIMED),
            "kind_free_text": "static analysis: clang-14 libTooling fact extractor (tools/pncx.cc: per-function CFG, "
                              "resolved expression trees, constant values, macro provenance) run on /repo's current "
                              "sources (m4 re-expanded), and Python rule engines (sa/): path-sensitive abstract "
                              "interpretation over finite domains, dominators, call graph through PNC_driver slots",
        }],
        "checks": checks,
        "not_applicable": na,
        "notes": "Exit codes: 0 held / only listed known findings; 1 unlisted violation (VIOLATION line); 2 analysis "
                 "broken (anchor vanished, instance count below the hand-confirmed minimum). known_findings.json is "
                 "read-only at run time.",
    }
    with open(os.path.join(ROOT, "MANIFEST.json"), "w") as f:
        json.dump(m, f, indent=1)
    print("MANIFEST.json: %d checks, %d not applicable" % (len(checks), len(na)))


if __name__ == "__main__":
    main()
