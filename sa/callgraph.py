"""Call graph: direct calls plus PNC_driver function-pointer slots resolved
through the driver tables' initialisers."""
from facts import walk, strip, strip_pre


def driver_tables(prog):
    """{table_name: {slot: function_name}} for every file-scope PNC_driver."""
    out = {}
    for u in prog.units.values():
        rec = u.records.get("PNC_driver")
        if not rec:
            continue
        fields = [f["n"] for f in rec["fields"]]
        for g in u.globals.values():
            t = u.types[g["t"]] if 0 <= g["t"] < len(u.types) else {}
            if t.get("rec") != "PNC_driver" or "init" not in g:
                continue
            init = g["init"]
            if init.get("k") != "init":
                continue
            slots = {}
            for name, e in zip(fields, init.get("elems", [])):
                e = strip(e)
                if isinstance(e, dict) and e.get("k") == "ref" and e.get("dk") == "func":
                    slots[name] = e["n"]
            out[g["n"]] = slots
    return out


def slot_of_call(call):
    """slot name if the call goes through a PNC_driver function pointer."""
    fx = call.get("fnx")
    fx = strip(fx)
    if isinstance(fx, dict) and fx.get("k") == "un" and fx.get("op") == "*":
        fx = strip(fx["e"])
    if isinstance(fx, dict) and fx.get("k") == "mem" and fx.get("rec") == "PNC_driver":
        return fx["f"]
    return None


class CallGraph:
    def __init__(self, prog):
        self.prog = prog
        self.tables = driver_tables(prog)
        self.calls = {}      # fn -> [(blk, idx, callnode, [callee names])]
        self.callers = {}    # callee name -> [(fn, blk, idx, callnode)]
        for fn in prog.all_functions():
            lst = []
            for b, i, e in fn.elements():
                for c in walk(e):
                    if c.get("k") != "call":
                        continue
                    names = []
                    if c.get("fn"):
                        names = [c["fn"]]
                    else:
                        s = slot_of_call(c)
                        if s:
                            names = sorted({t[s] for t in self.tables.values() if s in t})
                    lst.append((b, i, c, names))
                    for n in names:
                        self.callers.setdefault(n, []).append((fn, b, i, c))
            self.calls[fn] = lst

    def callees(self, fn):
        out = set()
        for _, _, _, names in self.calls.get(fn, []):
            out.update(names)
        return out

    def reach(self, roots):
        """set of function names reachable from the given function names."""
        seen = set()
        st = list(roots)
        while st:
            n = st.pop()
            if n in seen:
                continue
            seen.add(n)
            for f in self.prog.fns(n):
                st.extend(self.callees(f))
        return seen

    def can_reach(self, name, targets, _memo=None):
        """can function `name` reach any function in `targets` (names)?"""
        memo = _memo if _memo is not None else {}
        seen = set()
        st = [name]
        while st:
            n = st.pop()
            if n in targets:
                return True
            if n in seen:
                continue
            seen.add(n)
            for f in self.prog.fns(n):
                st.extend(self.callees(f))
        return False
