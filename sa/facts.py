"""Loader for pncx fact files: functions, CFG blocks, expression trees."""
import json
import os


class Block:
    __slots__ = ("id", "elems", "term", "tl", "succs", "label", "preds", "noreturn", "goto")

    def __init__(self, d):
        self.id = d["id"]
        self.elems = d["elems"]
        self.term = d.get("term")
        self.tl = d.get("tl")
        self.succs = d["succs"]
        self.label = d.get("label")
        self.noreturn = d.get("noreturn", False)
        self.goto = d.get("goto")
        self.preds = []

    @property
    def cond(self):
        """branch condition (last element) for 2-way terminators / switch."""
        if self.term in ("if", "for", "while", "do", "land", "lor", "cond", "switch") and self.elems:
            return self.elems[-1]
        return None


class Function:
    def __init__(self, d, unit):
        self.name = d["n"]
        self.unit = unit
        self.file = d.get("file", "")
        self.line = d.get("line", 0)
        self.endline = d.get("endline", 0)
        self.static = d.get("static", False)
        self.ret = d.get("ret", -1)
        self.params = d.get("params", [])
        self.locals = d.get("locals", [])
        self.entry = d.get("entry")
        self.exit = d.get("exit")
        self.blocks = {}
        for b in d.get("blocks", []):
            self.blocks[b["id"]] = Block(b)
        for b in self.blocks.values():
            for s in b.succs:
                if s is not None:
                    self.blocks[s].preds.append(b.id)
        self._resolve_pre()
        self.vars = {}
        for v in self.params + self.locals:
            self.vars[v["id"]] = v

    def _resolve_pre(self):
        blocks = self.blocks

        def fix(n):
            if isinstance(n, dict):
                if n.get("k") == "pre":
                    try:
                        n["e"] = blocks[n["b"]].elems[n["i"]]
                    except (KeyError, IndexError):
                        n["e"] = None
                    return
                for v in n.values():
                    if isinstance(v, (dict, list)):
                        fix(v)
            elif isinstance(n, list):
                for v in n:
                    fix(v)

        for b in blocks.values():
            for e in b.elems:
                fix(e)

    def relfile(self):
        return self.unit.relpath(self.file)

    def where(self, line=None):
        return "%s:%s" % (self.relfile(), line if line is not None else self.line)

    def type(self, idx):
        return self.unit.types[idx] if idx is not None and 0 <= idx < len(self.unit.types) else {"s": "?", "c": "?", "k": "other"}

    def param_index(self, name):
        for i, p in enumerate(self.params):
            if p["n"] == name:
                return i
        return None

    def elements(self):
        for bid in sorted(self.blocks, reverse=True):
            b = self.blocks[bid]
            for i, e in enumerate(b.elems):
                yield b, i, e


class UnitFacts:
    def __init__(self, unit, repo, scratch):
        self.unit = unit
        self.name = unit.name
        self.repo = repo
        self.scratch = scratch
        with open(unit.facts) as f:
            d = json.load(f)
        self.types = d["types"]
        self.macros = d["macros"]
        self.records = {r["n"]: r for r in d["records"] if r["n"]}
        self.globals = {}
        for g in d["globals"]:
            if g["n"] not in self.globals or "init" in g:
                self.globals[g["n"]] = g
        self.protos = {p["n"]: p for p in d["protos"]}
        self.functions = {}
        for fd in d["functions"]:
            fn = Function(fd, self)
            self.functions[fn.name] = fn

    def relpath(self, p):
        gen = os.path.join(self.scratch, "gen") + os.sep
        if p.startswith(gen):
            return p[len(gen):] + " (generated from %s)" % self.unit.origin if p.endswith(os.path.basename(self.unit.src)) else p[len(gen):]
        if p.startswith(self.repo + os.sep):
            return p[len(self.repo) + 1:]
        return p


class Program:
    """all loaded units; function lookup by name (static functions by unit)."""

    def __init__(self, fe, units):
        self.fe = fe
        self.units = {}
        self.by_name = {}
        for n, u in units.items():
            uf = UnitFacts(u, fe.repo, fe.scratch)
            self.units[n] = uf
            for fname, fn in uf.functions.items():
                # functions defined in headers (static inline) appear in many units
                self.by_name.setdefault(fname, [])
                if not any(o.file == fn.file and o.line == fn.line for o in self.by_name[fname]):
                    self.by_name[fname].append(fn)

    def unit(self, name):
        for n, u in self.units.items():
            if n == name or os.path.basename(n) == name:
                return u
        return None

    def fn(self, name, unit=None):
        """unique function of that name (optionally within a unit), else None."""
        if unit is not None:
            u = self.unit(unit)
            return u.functions.get(name) if u else None
        c = self.by_name.get(name, [])
        if len(c) == 1:
            return c[0]
        nonstatic = [f for f in c if not f.static]
        if len(nonstatic) == 1:
            return nonstatic[0]
        return None

    def fns(self, name):
        return self.by_name.get(name, [])

    def all_functions(self):
        for c in self.by_name.values():
            for f in c:
                yield f

    def resolve_call(self, caller, name):
        """callee Function for a direct call by name from `caller`."""
        c = self.by_name.get(name, [])
        if not c:
            return None
        for f in c:
            if f.unit is caller.unit:
                return f
        nonstatic = [f for f in c if not f.static]
        if nonstatic:
            return nonstatic[0]
        return None


# ---------------------------------------------------------------------------
# expression helpers
# ---------------------------------------------------------------------------

CHILD_KEYS = ("fnx", "args", "b", "i", "e", "a", "c", "elems", "ch", "vars", "init")


def children(n):
    k = n.get("k")
    if k == "pre":
        return
    for key in CHILD_KEYS:
        v = n.get(key)
        if v is None:
            continue
        if isinstance(v, dict):
            yield v
        elif isinstance(v, list):
            for x in v:
                if isinstance(x, dict):
                    yield x


def walk(n, into_pre=False):
    """pre-order walk; sub-expressions that are their own CFG element ("pre")
    are not entered unless into_pre."""
    if not isinstance(n, dict):
        return
    stack = [n]
    while stack:
        x = stack.pop()
        yield x
        if x.get("k") == "pre":
            if into_pre and isinstance(x.get("e"), dict):
                stack.append(x["e"])
            continue
        ch = list(children(x))
        ch.reverse()
        stack.extend(ch)


def strip(n):
    """remove pre wrappers and value-preserving casts."""
    while isinstance(n, dict):
        k = n.get("k")
        if k == "pre":
            n = n.get("e")
        elif k == "cast" and n.get("ck") in ("IntegralCast", "BitCast", "NoOp", "NullToPointer",
                                             "IntegralToPointer", "PointerToIntegral",
                                             "IntegralToBoolean", "PointerToBoolean", "ToVoid"):
            n = n.get("e")
        else:
            break
    return n


def strip_pre(n):
    while isinstance(n, dict) and n.get("k") == "pre":
        n = n.get("e")
    return n


def calls(n, into_pre=False):
    for x in walk(n, into_pre):
        if x.get("k") == "call":
            yield x


def call_name(n):
    n = strip_pre(n)
    if isinstance(n, dict) and n.get("k") == "call":
        return n.get("fn")
    return None


def is_macro(n, name):
    while isinstance(n, dict):
        if name in n.get("m", ()):
            return True
        if n.get("k") == "pre":
            n = n.get("e")
        else:
            break
    return False


def macro_of(n):
    """outermost macro whose expansion this expression is (through casts)."""
    while isinstance(n, dict):
        if n.get("m"):
            return n["m"][-1]
        k = n.get("k")
        if k in ("pre", "cast"):
            n = n.get("e")
        else:
            break
    return None


def const_value(n):
    n = strip(n)
    if isinstance(n, dict) and "cv" in n:
        return n["cv"]
    return None


def lvalue_key(n):
    """canonical hashable key for an lvalue expression, or None."""
    n = strip(n)
    if not isinstance(n, dict):
        return None
    k = n.get("k")
    if k == "ref":
        dk = n.get("dk")
        if dk in ("local", "param") and "id" in n:
            return ("v", n["id"], n["n"])
        if dk == "global":
            return ("g", n["n"])
        return None
    if k == "mem":
        b = lvalue_key(n.get("b"))
        if b is None:
            return None
        return ("m", b, n["f"])
    if k == "un" and n.get("op") == "*":
        b = lvalue_key(n.get("e"))
        if b is None:
            return None
        return ("d", b)
    if k == "idx":
        b = lvalue_key(n.get("b"))
        if b is None:
            return None
        iv = const_value(n.get("i"))
        if iv is None:
            ik = lvalue_key(n.get("i"))
            return ("i", b, ik if ik is not None else "?")
        return ("i", b, iv)
    return None


def key_mentions(key, base):
    """does lvalue key `key` depend on variable key `base`?"""
    if key == base:
        return True
    if isinstance(key, tuple):
        for x in key[1:]:
            if isinstance(x, tuple) and key_mentions(x, base):
                return True
    return False


def key_str(key):
    if key is None:
        return "?"
    t = key[0]
    if t == "v":
        return key[2]
    if t == "g":
        return key[1]
    if t == "m":
        b = key[1]
        sep = "->" if b[0] in ("v", "g", "i") else "."
        return key_str(b) + "->" + key[2] if sep == "->" else key_str(b) + "." + key[2]
    if t == "d":
        return "*" + key_str(key[1])
    if t == "i":
        return "%s[%s]" % (key_str(key[1]), key_str(key[2]) if isinstance(key[2], tuple) else key[2])
    return str(key)


def canon(n, depth=0):
    """structural rendering: macro names only for constants (stable under macro re-wrapping)"""
    if n is None:
        return ""
    if not isinstance(n, dict):
        return str(n)
    if depth > 12:
        return "..."
    k = n.get("k")
    d = depth + 1
    if k == "pre":
        if n.get("m") and isinstance(n.get("e"), dict) and ("cv" in n["e"] or "fv" in n["e"]):
            return n["m"][-1]
        return canon(n.get("e"), d)
    if ("cv" in n or "fv" in n) and k != "ref":
        return n["m"][-1] if n.get("m") else str(n.get("cv", n.get("fv")))
    if k == "ref":
        return n["n"]
    if k == "mem":
        return canon(n["b"], d) + ("->" if n.get("arrow") else ".") + n["f"]
    if k == "idx":
        return "%s[%s]" % (canon(n["b"], d), canon(n["i"], d))
    if k == "un":
        return n["op"] + canon(n["e"], d)
    if k in ("bin", "asg"):
        return "%s %s %s" % (canon(n["a"], d), n["op"], canon(n["b"], d))
    if k == "cond":
        return "(%s ? %s : %s)" % (canon(n["c"], d), canon(n["a"], d), canon(n["b"], d))
    if k == "cast":
        return canon(n["e"], d)
    if k == "call":
        return "%s(%s)" % (n.get("fn") or "(*fp)", ", ".join(canon(a, d) for a in n.get("args", [])))
    return show(n, depth)


def show(n, depth=0):
    """compact source-like rendering of an expression tree."""
    if n is None:
        return ""
    if not isinstance(n, dict):
        return str(n)
    if depth > 12:
        return "..."
    k = n.get("k")
    d = depth + 1
    if n.get("m") and k in ("int", "un", "cast", "bin", "char", "float", "pre"):
        return n["m"][-1]
    if k == "pre":
        return show(n.get("e"), d)
    if k == "ref":
        return n["n"]
    if k in ("int", "char"):
        return str(n.get("cv"))
    if k == "float":
        return str(n.get("fv"))
    if k == "str":
        return json.dumps(n.get("s", ""))
    if k == "mem":
        return show(n["b"], d) + ("->" if n.get("arrow") else ".") + n["f"]
    if k == "idx":
        return "%s[%s]" % (show(n["b"], d), show(n["i"], d))
    if k == "un":
        op = n["op"]
        if op.startswith("post"):
            return show(n["e"], d) + op[4:]
        if op.startswith("pre"):
            return op[3:] + show(n["e"], d)
        return op + show(n["e"], d)
    if k in ("bin", "asg"):
        return "%s %s %s" % (show(n["a"], d), n["op"], show(n["b"], d))
    if k == "cond":
        return "(%s ? %s : %s)" % (show(n["c"], d), show(n["a"], d), show(n["b"], d))
    if k == "cast":
        if n.get("impl"):
            return show(n["e"], d)
        return "(cast)" + show(n["e"], d)
    if k == "call":
        f = n.get("fn") or "(*%s)" % show(n.get("fnx"), d)
        return "%s(%s)" % (f, ", ".join(show(a, d) for a in n.get("args", [])))
    if k == "ret":
        return "return %s" % show(n.get("e"), d)
    if k == "decl":
        out = []
        for v in n.get("vars", []):
            out.append(v["n"] + (" = " + show(v["init"], d) if v.get("init") else ""))
        return "decl " + ", ".join(out)
    if k == "sizeof":
        return "sizeof(..)"
    if k == "init":
        return "{...}"
    return "<%s>" % k


def line_of(n):
    n = strip_pre(n)
    if isinstance(n, dict):
        return n.get("l", 0)
    return 0
