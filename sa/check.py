#!/usr/bin/env python3
"""check.py <Cxx> [--tier quick|thorough]   — decide one property statically.

exit 0  every obligation discharged (or only listed known findings failed)
exit 1  unlisted violation(s); one `VIOLATION property=<id> replay=<path>` each
exit 2  analysis broken (anchor vanished, extractor failed, instance count
        below the hand-confirmed minimum, canary silent) — never a pass
"""
import argparse
import importlib
import json
import os
import sys
import time
import traceback

HERE = os.path.dirname(os.path.abspath(__file__))
ROOT = os.path.dirname(HERE)
sys.path.insert(0, HERE)

from frontend import FrontEnd, AnalysisBroken  # noqa: E402
import facts  # noqa: E402


class Finding:
    def __init__(self, prop, rule, function, site, what, file="", line=0, detail=None):
        self.prop, self.rule, self.function, self.site = prop, rule, function, site
        self.what, self.file, self.line, self.detail = what, file, line, detail or {}

    def key(self):
        return (self.prop, self.rule, self.function, self.site)


class Ctx:
    def __init__(self, prop, tier, seed, repo=None, quiet=False):
        self.prop = prop
        self.tier = tier
        self.seed = seed
        self.quiet = quiet
        self.fe = FrontEnd(repo=repo) if repo else FrontEnd()
        self._progs = {}
        self.findings = []
        self.obligations = 0
        self.discharged = 0
        self.instances = {}      # rule -> set(instance ids)
        self.nontrivial = set()
        self.samples = []
        self.assumptions = []
        self.rules_text = []
        self.states = 0
        self.units_used = set()
        self.functions_analysed = set()
        self.notes = []
        self.canaries = []

    # ---- program access ---------------------------------------------------------
    def program(self, names=None, groups=None):
        key = (tuple(sorted(names)) if names else None, tuple(sorted(groups)) if groups else None)
        if key not in self._progs:
            us = self.fe.extract(names=names, groups=groups)
            self.units_used.update(us)
            self._progs[key] = facts.Program(self.fe, us)
        return self._progs[key]

    # ---- bookkeeping -------------------------------------------------------------
    def rule(self, rid, text):
        self.rules_text.append("%s: %s" % (rid, text))

    def assume(self, text):
        if text not in self.assumptions:
            self.assumptions.append(text)

    def require(self, cond, msg):
        if not cond:
            raise AnalysisBroken(msg)
        return cond

    def need_fn(self, prog, name, unit=None):
        f = prog.fn(name, unit)
        if f is None or not f.blocks:
            raise AnalysisBroken("anchor function %s%s not found in the analysed units"
                                 % (name, " in " + unit if unit else ""))
        self.functions_analysed.add((f.unit.name, f.name))
        return f

    def instance(self, rule, inst, nontrivial=False):
        self.instances.setdefault(rule, set()).add(inst)
        if nontrivial:
            self.nontrivial.add((rule, inst))

    def ok(self, rule, inst, how=None, nontrivial=True):
        """one obligation discharged."""
        self.obligations += 1
        self.discharged += 1
        self.instance(rule, inst, nontrivial)
        if how is not None and len(self.samples) < 12 and not any(s.get("rule") == rule for s in self.samples[-2:]):
            self.samples.append({"rule": rule, "instance": inst, "discharged_by": how})

    def fail(self, rule, function, site, what, fn=None, line=0, detail=None, inst=None):
        """one obligation failed -> finding."""
        self.obligations += 1
        self.instance(rule, inst or "%s:%s" % (function, site), True)
        file = fn.relfile() if fn is not None else ""
        f = Finding(self.prop, rule, function, site, what, file, line, detail)
        if not any(o.key() == f.key() for o in self.findings):
            self.findings.append(f)
        return f

    def min_instances(self, rule, n):
        have = len(self.instances.get(rule, ()))
        if have < n:
            raise AnalysisBroken("rule %s matched %d instance(s), fewer than the %d confirmed by hand: "
                                 "the rule no longer sees the code it was written for" % (rule, have, n))

    def note(self, s):
        self.notes.append(s)
        if not self.quiet:
            print("note: " + s)


def load_known():
    p = os.path.join(ROOT, "known_findings.json")
    if not os.path.exists(p):
        return []
    with open(p) as f:
        return json.load(f).get("findings", [])


def match_known(f, known):
    for k in known:
        if k.get("status") != "known":
            continue
        if k["property"] == f.prop and k["rule"] == f.rule and k["function"] == f.function \
                and k["site"] == f.site:
            return k
    return None


def run_canaries(prop):
    """thorough tier: the kept seeded changes this check is recorded to catch (seeded/MATRIX.json) are applied to a
    scratch copy of /repo (outside /repo and /verif, removed afterwards) and the rules are run on it; each must be
    reported again.  A rule that stays silent on its own canary has lost its teeth: analysis broken, not a pass."""
    import shutil, subprocess, tempfile
    mpath = os.path.join(ROOT, "seeded", "MATRIX.json")
    if not os.path.exists(mpath):
        return []
    matrix = json.load(open(mpath))
    seeds = sorted(s for s, v in matrix.items() if isinstance(v, dict) and prop in v and v[prop].get("exit") == 1)
    out = []
    for sd in seeds:
        patch = os.path.join(ROOT, "seeded", sd, "patch.diff")
        if not os.path.exists(patch):
            continue
        tmp = tempfile.mkdtemp(prefix="pnc_canary.")
        try:
            r = subprocess.run(["rsync", "-a", "--exclude", ".git", "--exclude", "*.o", "--exclude", "*.lo", "--exclude", "*.a",
                                "--exclude", ".libs", "--exclude", "*.nc", "/repo/", tmp + "/"], capture_output=True, text=True)
            if r.returncode != 0:
                out.append({"seed": sd, "fired": False, "note": "scratch copy failed: " + r.stderr[-200:]})
                continue
            r = subprocess.run(["patch", "-p1", "-s", "-d", tmp, "-i", patch], capture_output=True, text=True)
            if r.returncode != 0:
                # the seeded change no longer applies to the current tree (the code it touched was edited): not a verdict
                out.append({"seed": sd, "fired": None, "note": "patch does not apply to the current tree"})
                continue
            st, lines, ev, broken, ctx = run_property(prop, "quick", 0, repo=tmp, quiet=True, write=False)
            rules = sorted({u["rule"] for u in ev["coverage"]["unlisted_findings"]})
            out.append({"seed": sd, "fired": bool(rules), "rules": rules, "exit": st})
        finally:
            shutil.rmtree(tmp, ignore_errors=True)
    return out


def run_property(prop, tier, seed, repo=None, quiet=False, write=True):
    t0 = time.time()
    mod = importlib.import_module("rules.%s" % prop.lower())
    ctx = Ctx(prop, tier, seed, repo=repo, quiet=quiet)
    status = 0
    broken = None
    try:
        try:
            mod.run(ctx)
        except AnalysisBroken as e:
            broken = str(e)
        except Exception:
            broken = "internal error in the analysis:\n" + traceback.format_exc()
    finally:
        ctx.fe.cleanup()
    known = load_known()
    unlisted, listed = [], []
    for f in ctx.findings:
        k = match_known(f, known)
        (listed if k else unlisted).append((f, k))
    out_lines = []
    for f, k in listed:
        out_lines.append("KNOWN-FINDING: property=%s %s [%s %s:%s] %s" % (
            f.prop, k.get("id", ""), f.rule, f.function, f.site, f.what))
    replay_dir = os.path.join(ROOT, "out", "replay")
    if write and os.path.isdir(replay_dir):
        for old in os.listdir(replay_dir):
            if old.startswith(prop + "-"):
                os.unlink(os.path.join(replay_dir, old))
    if unlisted and write:
        os.makedirs(replay_dir, exist_ok=True)
    for n, (f, _) in enumerate(unlisted):
        path = os.path.join(replay_dir, "%s-%d.json" % (prop, n))
        if write:
            with open(path, "w") as fp:
                json.dump({"property": f.prop, "rule": f.rule, "function": f.function, "site": f.site,
                           "file": f.file, "line": f.line, "what": f.what, "detail": f.detail}, fp, indent=1)
        out_lines.append("VIOLATION property=%s replay=%s" % (prop, path))
        out_lines.append("  %s:%s  rule %s  in %s(), site %s: %s" % (f.file, f.line, f.rule, f.function, f.site, f.what))
    if broken:
        status = 2
    elif unlisted:
        status = 1
    wall = time.time() - t0
    ninst = sum(len(v) for v in ctx.instances.values())
    ev = {
        "property_id": prop,
        "tier": tier,
        "seed": seed,
        "level": "other",
        "coverage": {
            "explanation": " | ".join(ctx.rules_text) or "static rules, see DESIGN.md",
            "rule": "instances are enumerated from the current source (functions, call sites, stores, "
                    "branches named by each rule); an instance is non-trivial when deciding it needed "
                    "path exploration, dominance or table comparison rather than mere presence",
            "evaluations": max(ninst, 0),
            "distinct_nontrivial": len(ctx.nontrivial),
            "obligations": ctx.obligations,
            "discharged": ctx.discharged,
            "instances_per_rule": {r: len(v) for r, v in sorted(ctx.instances.items())},
            "units": sorted(ctx.units_used),
            "functions_analysed": len(ctx.functions_analysed),
            "abstract_states_explored": ctx.states,
            "samples": ctx.samples or [{"note": "no sample recorded"}],
            "exhaustive": broken is None,
            "known_findings_reported": [list(f.key()) for f, _ in listed],
            "unlisted_findings": [{"rule": f.rule, "function": f.function, "site": f.site, "what": f.what,
                                   "file": f.file, "line": f.line} for f, _ in unlisted],
            "canaries": ctx.canaries,
            "notes": ctx.notes,
            "checker_cmd": "python3 sa/check.py %s --tier %s" % (prop, tier),
        },
        "assumptions": ctx.assumptions,
        "wall_s": round(wall, 3),
        "violations": len(unlisted),
    }
    if tier == "thorough" and repo is None and broken is None:
        can = run_canaries(prop)
        ev["coverage"]["canaries"] = list(ctx.canaries) + can
        dead = [c["seed"] for c in can if c.get("fired") is False]
        if dead:
            broken = "canary: the seeded change(s) %s recorded as caught by this check are no longer reported" % ", ".join(dead)
            status = 2
        ev["wall_s"] = round(time.time() - t0, 3)
    if broken:
        ev["coverage"]["analysis_broken"] = broken
        ev["coverage"]["exhaustive"] = False
    if write:
        os.makedirs(os.path.join(ROOT, "evidence"), exist_ok=True)
        with open(os.path.join(ROOT, "evidence", "%s.json" % prop), "w") as fp:
            json.dump(ev, fp, indent=1, sort_keys=False)
    return status, out_lines, ev, broken, ctx


def main():
    ap = argparse.ArgumentParser()
    ap.add_argument("prop", nargs="?")
    ap.add_argument("--tier", default=os.environ.get("VERIF_TIER", "quick"))
    ap.add_argument("--explain")
    ap.add_argument("--repo")
    ap.add_argument("--no-write", action="store_true", help="do not write evidence / replay files (development aid)")
    a = ap.parse_args()
    seed = int(os.environ.get("VERIF_SEED", "0") or 0)
    if a.explain:
        with open(a.explain) as f:
            r = json.load(f)
        print(json.dumps(r, indent=1))
        a.prop = r["property"]
    if not a.prop:
        ap.error("property id required")
    tier = a.tier if a.tier in ("quick", "thorough") else "quick"
    # watchdog: an analysis that does not finish is "analysis broken", not a hang
    import signal
    limit = int(os.environ.get("VERIF_TIME_LIMIT", "1200" if tier == "quick" else "3600"))

    def on_alarm(signum, frame):
        raise AnalysisBroken("time limit of %d s exceeded (VERIF_TIME_LIMIT)" % limit)
    signal.signal(signal.SIGALRM, on_alarm)
    signal.alarm(limit)
    status, lines, ev, broken, ctx = run_property(a.prop.upper(), tier, seed, repo=a.repo, write=not a.no_write)
    for l in lines:
        print(l)
    c = ev["coverage"]
    print("%s tier=%s: %d rule instances, %d obligations, %d discharged, %d unlisted violation(s), "
          "%d known finding(s), %.1fs" % (a.prop.upper(), tier, c["evaluations"], c["obligations"],
                                           c["discharged"], ev["violations"],
                                           len(c["known_findings_reported"]), ev["wall_s"]))
    if broken:
        print("ANALYSIS-BROKEN property=%s: %s" % (a.prop.upper(), broken))
    sys.exit(status)


if __name__ == "__main__":
    main()
