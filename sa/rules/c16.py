"""C16 — fill-value semantics: tables and guards.

 R10.fillbytes  the big-endian byte tables FILL_<T> equal the encodings of NC_FILL_<T>.
 R10.filltab    the type switches of fill_var_buf / ncmpio_inq_default_fill_value cover all 11 types and
                each arm uses the table / constant of its own type.
 R4.nofill      in the fill routines a variable is added to the fill request only after its no_fill
                setting was tested.
 R4.newvars     at redefinition the fill loops start at the first NEW variable (old->vars.ndefined).
 R4.newlayout   offsets of the region to fill are computed from the NEW layout (ncp->recsize, varp->begin):
                the old header object is used only for counts (ndefined, numrecs).
 R8.partition   per-rank shares of a variable tile it exactly (bounded enumeration of the slice).
 R4.fillatt     _FillValue attribute rules: type equality, single element, NC_ELATEFILL guard.
"""
import struct

from facts import walk, strip, strip_pre, const_value, show, canon, lvalue_key, macro_of
from frontend import AnalysisBroken
import cfg
import patterns
from rules import r8part

TYPES = {"CHAR": ("b", 1), "BYTE": ("b", 1), "SHORT": ("h", 2), "INT": ("i", 4), "FLOAT": ("f", 4), "DOUBLE": ("d", 8),
         "UBYTE": ("B", 1), "USHORT": ("H", 2), "UINT": ("I", 4), "INT64": ("q", 8), "UINT64": ("Q", 8)}


def check_bytes(ctx, prog):
    u = prog.unit("ncmpio_fill.c")
    ctx.require(u is not None, "ncmpio_fill.c missing")
    fn = ctx.need_fn(prog, "ncmpio_inq_default_fill_value")
    consts = {}
    for b, i, e in fn.elements():
        if e.get("k") == "asg":
            m = macro_of(e["b"])
            if m and m.startswith("NC_FILL_"):
                r = strip_pre(e["b"])
                r = strip(r)
                v = r.get("cv") if "cv" in r else (float(r["fv"]) if "fv" in r else None)
                # look through casts for the constant
                if v is None:
                    for x in walk(e["b"], into_pre=True):
                        if "cv" in x:
                            v = x["cv"]
                            break
                        if "fv" in x:
                            v = float(x["fv"])
                            break
                consts[m[len("NC_FILL_"):]] = v
    ctx.require(len(consts) >= 11, "ncmpio_inq_default_fill_value: expected 11 NC_FILL_* constants, found %s" % sorted(consts))
    for t, (fmt, size) in TYPES.items():
        g = u.globals.get("FILL_" + t)
        inst = "FILL_" + t
        if g is None or g.get("init", {}).get("k") != "init":
            ctx.fail("R10.fillbytes", "ncmpio_fill.c", inst, "byte table FILL_%s not found" % t, line=0)
            continue
        got = bytes((const_value(x) or 0) & 0xFF for x in g["init"]["elems"])
        v = consts.get(t)
        try:
            if fmt in "fd":
                want = struct.pack(">" + fmt, v)
            else:
                lo, hi = (-(1 << (8 * size - 1)), (1 << (8 * size - 1)) - 1) if fmt.islower() else (0, (1 << (8 * size)) - 1)
                vv = v
                if not (lo <= vv <= hi):
                    vv = vv % (1 << (8 * size))
                    if fmt.islower() and vv > hi:
                        vv -= 1 << (8 * size)
                want = struct.pack(">" + fmt, vv)
        except (struct.error, TypeError):
            want = None
        if want == got:
            ctx.ok("R10.fillbytes", inst, "%s = big-endian NC_FILL_%s (%r)" % (got.hex(), t, v))
        else:
            ctx.fail("R10.fillbytes", "ncmpio_fill.c", inst, "FILL_%s = %s but NC_FILL_%s (%r) encodes as %s: variables "
                     "are pre-filled with a value that reads back as something else than the default fill value"
                     % (t, got.hex(), t, v, want.hex() if want else "?"), line=g.get("line", 0))


def check_tables(ctx, prog):
    fn = ctx.need_fn(prog, "fill_var_buf")
    sw = [s for s in patterns.switches(fn) if len([a for a in s[2] if isinstance(a, str) and a.startswith("NC_")]) >= 8]
    ctx.require(sw, "fill_var_buf: type switch not found")
    blk, cond, arms, default = sw[0]
    missing = [("NC_" + t) for t in TYPES if ("NC_" + t) not in arms]
    if missing:
        ctx.fail("R10.filltab", fn.name, "totality", "no case for %s" % ",".join(missing), fn=fn, line=blk.tl or fn.line)
    for lab, succ in sorted(arms.items(), key=str):
        if not (isinstance(lab, str) and lab.startswith("NC_")):
            continue
        reg = patterns.arm_region(fn, blk, succ)
        used = set()
        for b in reg:
            for e in fn.blocks[b].elems:
                for x in walk(e, into_pre=True):
                    if x.get("k") == "ref" and x.get("n", "").startswith("FILL_"):
                        used.add(x["n"])
        want = "FILL_" + lab[3:]
        inst = "fill_var_buf:" + lab
        if used == {want}:
            ctx.ok("R10.filltab", inst, "uses " + want, nontrivial=False)
        else:
            ctx.fail("R10.filltab", fn.name, lab, "case %s copies %s, expected %s" % (lab, sorted(used), want), fn=fn,
                     line=blk.tl or fn.line, inst=inst)
    fn2 = ctx.need_fn(prog, "ncmpio_inq_default_fill_value")
    for blk, cond, arms, default in patterns.switches(fn2):
        for lab, succ in sorted(arms.items(), key=str):
            if not (isinstance(lab, str) and lab.startswith("NC_")):
                continue
            ms = {macro_of(e["b"]) for e in fn2.blocks[succ].elems if e.get("k") == "asg"}
            inst = "ncmpio_inq_default_fill_value:" + lab
            if ms == {"NC_FILL_" + lab[3:]}:
                ctx.ok("R10.filltab", inst, "stores NC_FILL_" + lab[3:], nontrivial=False)
            else:
                ctx.fail("R10.filltab", fn2.name, lab, "case %s stores %s" % (lab, sorted(str(m) for m in ms)), fn=fn2,
                         line=blk.tl or fn2.line, inst=inst)
        missing = [("NC_" + t) for t in TYPES if ("NC_" + t) not in arms]
        if missing:
            ctx.fail("R10.filltab", fn2.name, "totality", "no case for %s" % ",".join(missing), fn=fn2, line=fn2.line)


def check_nofill(ctx, prog):
    fn = ctx.need_fn(prog, "fillerup_aggregate")
    n = 0
    for lp in patterns.loops(fn):
        # loops over variables that compute a share (store into count[...] / offset[...])
        stores = [(blk, i, e) for blk, i, e in lp.body_elems(ext=False)
                  if e.get("k") == "asg" and strip(e["a"]).get("k") == "idx" and
                  canon(strip(e["a"])["b"]) in ("count", "offset", "blocklengths")]
        if not stores or lp.var is None or lp.var != "i":
            continue
        n += 1
        guard = None
        for b in lp.body:
            c = fn.blocks[b].cond
            if c is not None and "noFill" in canon(c):
                guard = fn.blocks[b]
        ok = guard is not None and all(guard.id in cfg.dominators(fn).get(blk.id, ()) for blk, i, e in stores)
        inst = "fillerup_aggregate:loop@%d" % n
        if ok:
            ctx.ok("R4.nofill", inst, "the noFill[] test dominates every share computation of the loop")
        else:
            ctx.fail("R4.nofill", fn.name, "noFill#%d" % n, "a loop adds variables to the fill request without testing "
                     "noFill[]: no-fill variables get pre-filled", fn=fn, line=lp.head.tl or fn.line, inst=inst)
    ctx.require(n >= 3, "fillerup_aggregate: expected >= 3 variable loops computing shares, found %d" % n)
    # noFill[] is loaded from the variables' no_fill field
    src = any(e.get("k") == "asg" and "noFill" in canon(e["a"]) and "no_fill" in canon(e["b"]) for b, i, e in fn.elements())
    if src:
        ctx.ok("R4.nofill", "fillerup_aggregate:noFill<-no_fill", "noFill[] copied from NC_var.no_fill", nontrivial=False)
    else:
        ctx.fail("R4.nofill", fn.name, "source", "noFill[] is no longer loaded from NC_var.no_fill", fn=fn, line=fn.line)


def check_newvars(ctx, prog):
    fn = ctx.need_fn(prog, "fillerup_aggregate")
    ok = False
    for b, i, e in fn.elements():
        if e.get("k") == "asg" and canon(e["a"]) == "start_vid" and canon(e["b"]) == "old_ncp->vars.ndefined":
            # under old_ncp != NULL
            for d in cfg.dominators(fn).get(b.id, ()):
                c = fn.blocks[d].cond
                if c is not None and "old_ncp" in canon(c):
                    ok = True
    inits = [canon(lp.init) for lp in patterns.loops(fn) if lp.var == "i" and lp.init is not None]
    if ok and inits and all(x == "start_vid" for x in inits):
        ctx.ok("R4.newvars", "fillerup_aggregate", "%d variable loops start at start_vid = old->vars.ndefined" % len(inits))
    else:
        ctx.fail("R4.newvars", fn.name, "start_vid", "variable loops start at %s (start_vid from old header: %s): variables "
                 "that existed before the redefinition are filled again" % (sorted(set(inits)), ok), fn=fn, line=fn.line)


def check_newlayout(ctx, prog):
    for name in ("fillerup_aggregate", "fill_added", "fill_added_recs"):
        fn = prog.fn(name)
        if fn is None or not fn.blocks:
            continue
        bad = None
        uses = 0
        for b, i, e in fn.elements():
            for x in walk(e, into_pre=True):
                if x.get("k") == "mem" and x.get("rec") == "NC" and canon(x.get("b")).startswith("old"):
                    uses += 1
                    if x.get("f") not in ("vars", "numrecs"):
                        bad = bad or x
                    elif x.get("f") == "vars":
                        pass
                if x.get("k") == "mem" and x.get("f") in ("begin", "len", "recsize", "begin_rec", "begin_var") and \
                        canon(x).startswith("old"):
                    bad = bad or x
        if bad is not None:
            ctx.fail("R4.newlayout", name, canon(bad), "`%s` of the OLD header is used while computing what to fill: "
                     "offsets must come from the new layout" % canon(bad), fn=fn, line=bad.get("l", fn.line))
        else:
            ctx.ok("R4.newlayout", name, "old header used only for counts (%d uses)" % uses)


def check_fillatt(ctx, prog):
    # every driver function that stores an attribute value into a variable's attribute array under a caller-supplied name:
    # the typed and untyped put (one generated function) and the copy
    for fname in ("ncmpio_put_att", "ncmpio_copy_att"):
        _check_fillatt_fn(ctx, ctx.need_fn(prog, fname))


def _check_fillatt_fn(ctx, fn):
    found = {}
    for b, i, e in fn.elements():
        if e.get("k") == "asg":
            m = macro_of(e["b"])
            if m in ("NC_EBADTYPE", "NC_EINVAL", "NC_ELATEFILL"):
                # the dominating conditions
                conds = [canon(fn.blocks[d].cond) for d in cfg.dominators(fn).get(b.id, ()) if fn.blocks[d].cond is not None]
                txt = " ; ".join(conds)
                if "_FillValue" in txt:
                    found.setdefault(m, []).append(txt)
    for m, need in (("NC_EBADTYPE", "xtype"), ("NC_EINVAL", "nelems"), ("NC_ELATEFILL", "")):
        ok = any(need in t for t in found.get(m, []))
        if ok:
            ctx.ok("R4.fillatt", fn.name + ":" + m, "raised under the _FillValue name test", nontrivial=False)
        else:
            ctx.fail("R4.fillatt", fn.name, m, "%s is no longer raised for a _FillValue attribute (%s rule)" % (m, need or "late fill"),
                     fn=fn, line=fn.line)


def check_fillreach(ctx, eprog):
    """ncmpio__enddef reaches the fill step whenever the file has a variable at all.  Which variables are filled is decided
    inside ncmpio_fill_vars (fill mode per variable; new variables; new variables' share of existing records): a guard at
    the call that looks at the *kind* of the variables (e.g. only when there are fixed-size ones) silently skips record
    variables added by a redefinition.  The guard is evaluated by the analyser for 0..3 fixed-size and 0..3 record
    variables; it may read only the two counts and the status words."""
    import concrete
    fn = ctx.need_fn(eprog, "ncmpio__enddef")
    sites = patterns.call_sites(fn, lambda n: n == "ncmpio_fill_vars")
    ctx.require(len(sites) == 1, "ncmpio__enddef: expected one call of ncmpio_fill_vars, found %d" % len(sites))
    b, i, c = sites[0]
    pd = cfg.postdominators(fn)

    def direct(x):
        out = set()
        for d, blk in fn.blocks.items():
            if blk.cond is None or len(blk.succs) != 2 or d == x or x in pd.get(d, set()) or blk.term in ("for", "while", "do"):
                continue
            succs = [s_ for s_ in blk.succs if s_ is not None]
            if any(fn.blocks[s_].noreturn for s_ in succs):
                continue
            if any(s_ == x or x in pd.get(s_, set()) for s_ in succs):
                out.add(d)
        return out
    ctrl, todo = set(), [b.id]
    while todo:
        x = todo.pop()
        for d in direct(x):
            # an earlier test whose other side leaves the function (`if (err) return err`, CHECK_ERROR) is not a guard of
            # the fill step: its immediate post-dominator is the exit
            if d not in ctrl and patterns.ipdom(fn, d) not in (None, fn.exit):
                ctrl.add(d)
                todo.append(d)
    inst = "ncmpio__enddef:fill"
    if not ctrl:
        ctx.ok("R8.fillreach", inst, "ncmpio_fill_vars is called unconditionally")
        return
    doms = cfg.dominators(fn)
    top = [d for d in ctrl if all(d in doms.get(o, set()) for o in ctrl)]
    ctx.require(len(top) == 1, "ncmpio__enddef: the guards of the fill step are not nested (%s)" % sorted(ctrl))
    start = (top[0], len(fn.blocks[top[0]].elems))
    join = patterns.ipdom(fn, top[0])
    bad = None
    cells = 0
    for nf in range(0, 4):
        for nr in range(0, 4):
            reached = []
            env = {"$dyn": True, "ncp->vars.ndefined": nf + nr, "ncp->vars.num_rec_vars": nr, "status": 0, "err": 0}

            def hook(e, args, env_, reached=reached):
                if e.get("fn") == "ncmpio_fill_vars":
                    reached.append(1)
            try:
                concrete.run_region(fn, start, {join} if join is not None else set(), env, max_steps=200, call_hook=hook)
            except concrete.Unsupported as u:
                raise AnalysisBroken("ncmpio__enddef: the guard of the fill step is no longer interpretable from the variable counts: %s" % u)
            except KeyError as u:
                raise AnalysisBroken("ncmpio__enddef: the guard of the fill step reads %s, which this rule does not model" % u)
            cells += 1
            want = (nf + nr) > 0
            if bool(reached) != want and bad is None:
                bad = (nf, nr, bool(reached))
    if bad:
        ctx.fail("R8.fillreach", fn.name, "fill", "with %d fixed-size and %d record variable(s) the fill step is %s: new variables in fill mode "
                 "(and their share of the existing records) are then never filled" % (bad[0], bad[1], "reached" if bad[2] else "skipped"),
                 fn=fn, line=c.get("l", 0), inst=inst)
    else:
        ctx.ok("R8.fillreach", inst, "%d (fixed, record) variable counts: the fill step is reached exactly when the file has a variable" % cells)


def run(ctx):
    ctx.rule("R8.fillreach", "ncmpio__enddef reaches ncmpio_fill_vars exactly when the file has at least one variable (bounded)")
    ctx.rule("R10.fillbytes", "FILL_<T> byte tables equal the big-endian encodings of NC_FILL_<T>")
    ctx.rule("R10.filltab", "fill type switches total over 11 types, each arm uses its own table/constant")
    ctx.rule("R4.nofill", "no_fill tested before a variable enters the fill request")
    ctx.rule("R4.newvars", "redefinition fills only variables with id >= old->vars.ndefined")
    ctx.rule("R4.newlayout", "fill offsets come from the new layout; the old header is used for counts only")
    ctx.rule("R8.partition", "per-rank shares tile the variable (bounded enumeration of the arithmetic slice)")
    ctx.rule("R4.fillatt", "_FillValue attribute: type, single element and late-fill guards")
    ctx.assume("values read back are not decided; R8.partition is bounded (nprocs <= 5)")
    prog = ctx.program(names=["ncmpio_fill.c", "ncmpio_attr.c"])
    check_bytes(ctx, prog)
    check_tables(ctx, prog)
    check_nofill(ctx, prog)
    check_newvars(ctx, prog)
    check_newlayout(ctx, prog)
    n = 0
    for name in ("fill_var_rec", "fillerup_aggregate"):
        n += r8part.check_fn(ctx, ctx.need_fn(prog, name))
    ctx.require(n >= 3, "expected >= 3 partition slices in the fill routines, found %d" % n)
    check_fillatt(ctx, prog)
    check_fillreach(ctx, ctx.program(names=["ncmpio_enddef.c"]))
    from rules import r5setall
    ctx.rule("R5.setall", "a loop that stores one value into the same member of every element of a header object array (the fill mode "
             "of every variable in ncmpi_set_fill) covers [0, ndefined)")
    r5setall.check(ctx, ctx.program(groups=["lib"]), "R5.setall", 2)
    from rules import r8fillbatch
    ctx.rule("R8.fillbatch", "fillerup_aggregate hands the write exactly the bytes its file view selects, one block per request whose "
             "fill buffer was prepared (bounded: up to 3 new variables, fill buffers prepared or refused, 1-2 processes, 0/2 records)")
    nf = r8fillbatch.check(ctx, ctx.need_fn(ctx.program(names=["ncmpio_fill.c"]), "fillerup_aggregate"), "R8.fillbatch")
    ctx.require(nf >= 1000, "R8.fillbatch: only %d schemas evaluated" % nf)
