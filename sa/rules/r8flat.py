"""R8.flatten — "flatten a (start, count, stride) subarray request into (file offset, length) pairs".

Two sibling implementations: vars_flatten() (nonblocking request merge, ncmpio_wait.c) and flatten_subarray() (intra-node
aggregation, ncmpio_intra_node.c).  Each is evaluated by the analyser's interpreter on a bounded family of 1-, 2- and
3-dimensional requests and compared with an independent model: the pairs cover exactly the bytes of the addressed
elements (element (k_0..k_{n-1}) lies at begin + sum_d (start_d + k_d*stride_d) * prod_{e>d} dimlen_e * el_size), each once,
the number of pairs is the reported one, and (vars_flatten) consecutive pairs are consecutive in the packed buffer.
Bounded, not exhaustive."""
import itertools
import concrete
from frontend import AnalysisBroken


def requests(deep=False):
    out = []
    el = (4,) if not deep else (4, 2)
    for nd in (1, 2, 3):
        dims_opts = {1: [(7,)], 2: [(5, 7), (4, 3)], 3: [(3, 4, 5), (4, 4, 3)]}[nd]
        for dimlen in dims_opts:
            for start in itertools.product((0, 1), repeat=nd):
                for count in itertools.product((1, 2, 3), repeat=nd):
                    for stride in itertools.product((1, 2), repeat=nd):
                        if all(start[d] + (count[d] - 1) * stride[d] < dimlen[d] for d in range(nd)):
                            if not deep and nd == 3 and (start[0] or stride[2] == 2 and count[2] == 3 and count[0] == 1):
                                continue
                            for e in el:
                                out.append((nd, e, dimlen, start, count, stride))
    return out


def model(begin, nd, el, dimlen, start, count, stride):
    want = set()
    for ks in itertools.product(*[range(c) for c in count]):
        off = 0
        for d in range(nd):
            mult = 1
            for e in range(d + 1, nd):
                mult *= dimlen[e]
            off += (start[d] + ks[d] * stride[d]) * mult
        for b in range(el):
            want.add(begin + off * el + b)
    return want


def check(ctx, fn, rule, kind):
    """kind: "arrays" (offsets[]/lengths[] out-parameters) or "segs" (array of {off,len,buf_addr} walked by pointer)"""
    deep = getattr(ctx, "tier", "quick") == "thorough"
    begin = 1000
    bad = None
    n = 0
    pn = [p["n"] for p in fn.params]
    for nd, el, dimlen, start, count, stride in requests(deep):
        env = {"$dyn": True, "ndim": nd, "el_size": el}
        env[pn[2]] = begin                      # var_begin / offset
        for d in range(nd):
            env["dimlen[%d]" % d] = dimlen[d]
            env["start[%d]" % d] = start[d]
            env["count[%d]" % d] = count[d]
            env["stride[%d]" % d] = stride[d]
        if kind == "segs":
            env["buf_addr"] = 5000
            env["stride"] = 1                   # non-NULL
            env["seg"] = ("P", "seg", 0)
            cnt_name = "*nseg"
        else:
            cnt_name = "*npairs"
        try:
            concrete.run_region(fn, (fn.entry, 0), set(), env, events=None, max_steps=20000)
        except concrete.Unsupported as u:
            raise AnalysisBroken("%s is no longer interpretable: %s" % (fn.name, u))
        except KeyError as u:
            raise AnalysisBroken("%s reads an unbound location %s" % (fn.name, u))
        n += 1
        npairs = env.get(cnt_name)
        got = {}
        why = None
        prev_addr_end = None
        for k in range(npairs or 0):
            if kind == "segs":
                o, l, a = env.get("seg[%d].off" % k), env.get("seg[%d].len" % k), env.get("seg[%d].buf_addr" % k)
            else:
                o, l, a = env.get("offsets[%d]" % k), env.get("lengths[%d]" % k), None
            if o is None or l is None or l <= 0:
                why = "pair %d is (%s, %s)" % (k, o, l)
                break
            if a is not None:
                if prev_addr_end is not None and a != prev_addr_end:
                    why = "pair %d takes its data from buffer offset %d, the packed buffer continues at %d" % (k, a - 5000, prev_addr_end - 5000)
                    break
                prev_addr_end = a + l
            for b in range(o, o + l):
                if b in got:
                    why = "file byte %d is covered twice" % b
                got[b] = k
        if why is None:
            want = model(begin, nd, el, dimlen, start, count, stride)
            if set(got) != want:
                extra, miss = sorted(set(got) - want), sorted(want - set(got))
                why = ("file offsets %s are produced although the request does not address them" % extra[:6]) if extra else \
                    ("file offsets %s addressed by the request are missing" % miss[:6])
        if why and bad is None:
            bad = (dimlen, start, count, stride, el, why)
    inst = "%s:flatten" % fn.name
    if bad:
        dimlen, start, count, stride, el, why = bad
        ctx.fail(rule, fn.name, "flatten", "variable of shape %s (element size %d), request start %s count %s stride %s: %s" %
                 (list(dimlen), el, list(start), list(count), list(stride), why), fn=fn, line=fn.line, inst=inst)
    else:
        ctx.ok(rule, inst, "%d requests (1-3 dimensions, counts 1..3, strides 1..2): pairs cover exactly the addressed elements" % n)
    return n


def check_record_loop(ctx, fn, rule):
    """flatten_req(): for a record variable the per-record calls of flatten_subarray start at
    begin + (start[0] + j*stride[0]) * recsize, j = 0..count[0]-1 (stride NULL means 1)."""
    from facts import strip
    bad = None
    n = 0
    for start0 in (0, 1, 3):
        for count0 in (1, 2, 3):
            for stride0 in (None, 1, 2, 3):
                env = {"$dyn": True, "varp->ndims": 2, "varp->begin": 1000, "varp->xsz": 4, "ncp->recsize": 40,
                       "varp->shape": ("P", "shape", 0), "shape[0]": 0, "shape[1]": 10, "*varp->shape": 0,
                       "start": ("P", "start", 0), "count": ("P", "count", 0),
                       "stride": ("P", "stride", 0) if stride0 is not None else 0,
                       "start[0]": start0, "start[1]": 0, "count[0]": count0, "count[1]": 2,
                       "stride[0]": stride0 or 1, "stride[1]": 1, "$ret:malloc": 7000, "$ret:NCI_Malloc_fn": 7000}
                calls = []

                def hook(e, args, env):
                    if e.get("fn") == "flatten_subarray":
                        calls.append(args[2])
                        t = strip(e["args"][7])
                        if t.get("k") == "un" and t.get("op") == "&":
                            env[concrete.lv_name(t["e"])] = 1
                try:
                    concrete.run_region(fn, (fn.entry, 0), set(), env, events=None, max_steps=5000, call_hook=hook)
                except concrete.Unsupported as u:
                    raise AnalysisBroken("%s is no longer interpretable: %s" % (fn.name, u))
                except KeyError as u:
                    raise AnalysisBroken("%s reads an unbound location %s" % (fn.name, u))
                n += 1
                want = [1000 + (start0 + j * (stride0 or 1)) * 40 for j in range(count0)]
                if calls != want and bad is None:
                    bad = (start0, count0, stride0, calls, want)
    inst = "%s:records" % fn.name
    if bad:
        start0, count0, stride0, calls, want = bad
        ctx.fail(rule, fn.name, "records", "record variable, start[0]=%d count[0]=%d stride[0]=%s: the records are flattened at file "
                 "offsets %s, the request addresses %s" % (start0, count0, stride0, calls, want), fn=fn, line=fn.line, inst=inst)
    else:
        ctx.ok(rule, inst, "%d (start, count, stride) cells of the record dimension" % n)
    return n
