"""R10.recstride — "record r of a record variable starts at begin + r * recsize": wherever a product is added to a
variable's begin offset (an expression mentioning a `begin` field, or a local named *begin*), one factor of the
product is the header's record size (the NC.recsize field, directly or through a local with a single definition that
selects it).  A stride taken from anything else - the variable's own padded length, its vsize - addresses other
variables' records as soon as the file has two record variables."""
from facts import walk, strip, strip_pre, canon, const_value
from frontend import AnalysisBroken


def _defs(fn, ref):
    out = []
    for b, i, e in fn.elements():
        if e.get("k") == "decl":
            for v in e.get("vars", []):
                if v.get("id") == ref.get("id") and v.get("init") is not None:
                    out.append(v["init"])
        for x in walk(e):
            if x.get("k") == "asg" and strip(x["a"]).get("k") == "ref" and strip(x["a"]).get("id") == ref.get("id"):
                out.append(x["b"] if x.get("op") == "=" else None)
    return out


def _is_recsize(fn, e, depth=0):
    e = strip(e)
    while isinstance(e, dict) and e.get("k") == "cast":
        e = strip(e["e"])
    if not isinstance(e, dict):
        return False
    if e.get("k") == "mem" and e.get("f") == "recsize":
        return True
    if e.get("k") == "cond":
        a, b = e.get("a"), e.get("b")
        # (is record variable) ? recsize : 0
        return (_is_recsize(fn, a, depth) and const_value(b) == 0) or (_is_recsize(fn, b, depth) and const_value(a) == 0)
    if e.get("k") == "ref" and e.get("dk") == "local" and depth < 2:
        ds = _defs(fn, e)
        return bool(ds) and all(d is not None and _is_recsize(fn, d, depth + 1) for d in ds)
    return False


def check(ctx, prog, rule, min_instances=5):
    n = 0
    for fn in prog.all_functions():
        for b, i, e in fn.elements():
            for x in walk(e):
                if x.get("k") == "bin" and x.get("op") == "+":
                    base, others = None, []
                    terms = [x["a"], x["b"]]
                elif x.get("k") == "asg" and x.get("op") == "+=":
                    terms = [x["a"], x["b"]]
                else:
                    continue
                begin_side = None
                prod = None
                for t in terms:
                    st = strip(t)
                    txt = canon(t)
                    if isinstance(st, dict) and st.get("k") == "bin" and st.get("op") == "*":
                        prod = st
                    elif "begin" in txt and "*" not in txt:
                        begin_side = t
                if begin_side is None or prod is None:
                    continue
                # only products that look like "record index times something": skip element-size products (x * xsz)
                fa, fb = prod["a"], prod["b"]
                if any("xsz" in canon(f) or "el_size" in canon(f) for f in (fa, fb)):
                    continue
                n += 1
                ctx.functions_analysed.add((fn.unit.name, fn.name))
                site = "recstride@%s" % canon(begin_side)[:30]
                inst = "%s:%s" % (fn.name, site)
                if _is_recsize(fn, fa) or _is_recsize(fn, fb):
                    ctx.ok(rule, inst, "stride is the header's record size")
                else:
                    ctx.fail(rule, fn.name, site, "`%s`: the offset of a record is the variable's begin plus the record index times the "
                             "file's record size; neither factor of `%s` is NC.recsize, so with two record variables the records "
                             "of other variables are addressed" % (canon(x)[:70], canon(prod)[:50]), fn=fn, line=x.get("l", 0), inst=inst)
    if n < min_instances:
        raise AnalysisBroken("%s: only %d begin + product expressions found (%d confirmed by hand)" % (rule, n, min_instances))
    return n
