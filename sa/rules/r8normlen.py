"""R8.normlen — the name that is stored (and written to the file) is the NFC-normalised one, and normalisation can lengthen
a string (composition exclusions: U+0958 becomes U+0915 U+093C, twice the bytes).  The limit NC_MAX_NAME - which the header
reader enforces on every name it decodes, and which sizes the caller's buffer of the inquiry functions - therefore has to
hold for the normalised name.

(1) gate: ncmpii_check_name(), the validity gate of user-supplied names, is evaluated by the analyser with the character
    checks succeeding, the normaliser replaced by one that yields a string of a chosen length and strlen by that length:
    for raw length 255 and normalised lengths NC_MAX_NAME and below the function must answer NC_NOERR, for normalised
    lengths above NC_MAX_NAME a non-zero status.  (If ncmpii_check_name does not reject, ncmpii_utf8_normalize() is
    evaluated the same way: a normaliser that itself refuses over-long results is accepted as well.)
(2) sites: every dispatcher function that hands a user-supplied name to a driver slot which stores it (def_dim, def_var,
    rename_dim, rename_var, rename_att, put_att) calls the gate with that name on a point that dominates the driver call."""
import concrete
import cfg
from facts import walk, strip, canon
from callgraph import slot_of_call
from frontend import AnalysisBroken

STORE_SLOTS = {"def_dim": 1, "def_var": 1, "rename_dim": 2, "rename_var": 2, "rename_att": 3, "put_att": 2}


def _eval_gate(fn, maxname, norm_len, normaliser_ok=True):
    env = {"$dyn": True, "name": ("S", 255), "file_ver": 2, "str": ("S", 255)}

    def normalize(s, outp):
        if isinstance(outp, tuple) and outp[0] == "A":
            env[outp[1]] = ("S", norm_len)
        return 0

    def strlen(s):
        if isinstance(s, tuple) and s[0] == "S":
            return s[1]
        raise concrete.Unsupported("strlen of an unmodelled string")

    def utf8proc_map(s, ln, outp, opts):
        if isinstance(outp, tuple) and outp[0] == "A":
            env[outp[1]] = ("S", norm_len)
        return norm_len
    env["$impl"] = {"ncmpii_utf8_normalize": normalize, "strlen": strlen, "utf8proc_map": utf8proc_map}
    env["$ret:check_name_CDF2"] = 0
    env["$ret:check_name_CDF1"] = 0
    try:
        concrete.run_region(fn, (fn.entry, 0), set(), env, max_steps=400)
    except (concrete.Unsupported, KeyError) as u:
        raise AnalysisBroken("%s is no longer interpretable: %s" % (fn.name, u))
    return env.get("$ret")


def check(ctx, prog, rule, maxname):
    gate = ctx.need_fn(prog, "ncmpii_check_name")
    norm = ctx.need_fn(prog, "ncmpii_utf8_normalize")
    ctx.functions_analysed.add((gate.unit.name, gate.name))
    lens = (1, 255, maxname, maxname + 1, 2 * 255)
    res = {L: _eval_gate(gate, maxname, L) for L in lens}
    ok_low = all(res[L] == 0 for L in lens if L <= maxname)
    ok_high = all(res[L] not in (0, None) for L in lens if L > maxname)
    inst = "ncmpii_check_name:normalised-length"
    if not ok_low:
        ctx.fail(rule, gate.name, "gate", "a valid name whose normalised form has %s bytes is refused (status %s)" %
                 next((L, res[L]) for L in lens if L <= maxname and res[L] != 0), fn=gate, line=gate.line, inst=inst)
    elif ok_high:
        ctx.ok(rule, inst, "normalised lengths %s: accepted up to NC_MAX_NAME=%d, refused above" % (list(lens), maxname))
    else:
        res2 = {L: _eval_gate(norm, maxname, L) for L in lens}
        if all(res2[L] == 0 for L in lens if L <= maxname) and all(res2[L] not in (0, None) for L in lens if L > maxname):
            ctx.ok(rule, inst, "ncmpii_utf8_normalize itself refuses results longer than NC_MAX_NAME=%d" % maxname)
        else:
            L = next(L for L in lens if L > maxname and res[L] in (0, None))
            ctx.fail(rule, gate.name, "gate", "a 255-byte name whose NFC-normalised form has %d bytes passes the name check (and "
                     "ncmpii_utf8_normalize hands it on): the stored name exceeds NC_MAX_NAME=%d - the inquiry functions overrun a "
                     "char[NC_MAX_NAME+1] buffer and the library's own header reader refuses the file it wrote (NC_EMAXNAME)" %
                     (L, maxname), fn=gate, line=gate.line, inst=inst)
    # (2) the sites: path-sensitive (the early `goto err_check` exits carry a non-zero status and return before the driver call)
    from rules import c11
    from absint import Explorer, State, ONE, Budget
    helpers = set()
    for fn in prog.all_functions():
        if fn.static and any(isinstance(strip(e), dict) and strip(e).get("k") == "call" and strip(e).get("fn") == "ncmpii_check_name"
                             for b, i_, e in fn.elements()):
            helpers.add(fn.name)

    class GateDom(c11.Dom):
        def __init__(self, fn):
            c11.Dom.__init__(self, fn, None)
            self.bad = []

        def on_call(self, call, st, blk, idx):
            f = call.get("fn")
            if f == "ncmpii_check_name" or f in helpers:
                for a in call.get("args", []):
                    t = canon(strip(a))
                    if t in ("name", "newname"):
                        st = st.set("$g:" + t, ONE)
                return st
            slot = slot_of_call(call)
            if slot in STORE_SLOTS and len(call.get("args", [])) > STORE_SLOTS[slot]:
                nm = canon(strip(call["args"][STORE_SLOTS[slot]]))
                if not st.has("$g:" + nm):
                    self.bad.append((call, slot, nm))
                return st
            return c11.Dom.on_call(self, call, st, blk, idx)

    n = 0
    for fn in prog.all_functions():
        if not fn.name.startswith("ncmpi_"):
            continue
        sites = []
        for b, i_, e in fn.elements():
            c = strip(e)
            if isinstance(c, dict) and c.get("k") == "call" and slot_of_call(c) in STORE_SLOTS \
                    and len(c.get("args", [])) > STORE_SLOTS[slot_of_call(c)]:
                sites.append(c)
        if not sites:
            continue
        ctx.functions_analysed.add((fn.unit.name, fn.name))
        dom = GateDom(fn)
        ex = Explorer(fn, dom)
        try:
            ex.run(State())
        except Budget as e:
            raise AnalysisBroken("%s: %s" % (fn.name, e))
        ctx.states += ex.visited
        for c in sites:
            slot = slot_of_call(c)
            nm = canon(strip(c["args"][STORE_SLOTS[slot]]))
            n += 1
            inst2 = "%s:driver->%s(%s)" % (fn.name, slot, nm)
            if any(bc is c for bc, _, _ in dom.bad):
                ctx.fail(rule, fn.name, "driver->%s" % slot, "the name `%s` can reach the driver's %s (which stores it) on a path that "
                         "has not passed ncmpii_check_name" % (nm, slot), fn=fn, line=c.get("l", fn.line), inst=inst2)
            else:
                ctx.ok(rule, inst2, "every path to the driver call has passed ncmpii_check_name(%s)" % nm)
    if n < 6:
        raise AnalysisBroken("%s: only %d dispatcher calls of name-storing driver slots found" % (rule, n))
    return n
