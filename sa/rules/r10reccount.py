"""R10.reccount — a diff tool that decodes the headers itself (it reads the `numrecs` field of its header objects, e.g. to
bound its loop over records) compares that field between the two files.  The record dimension is stored with length 0
in every header, so comparing dimension lengths says nothing about the number of records; without a comparison of the
two counts a file and its first k records are reported identical."""
from facts import walk, strip, strip_pre, canon
from frontend import AnalysisBroken
from rules.r10recstride import _defs


def _resolve(fn, e, depth=0):
    """texts an expression may stand for: itself, and the definitions of single-definition locals in it"""
    out = [canon(e)]
    if depth >= 2:
        return out
    for x in walk(e, into_pre=True):
        if x.get("k") == "ref" and x.get("dk") == "local":
            ds = [d for d in _defs(fn, x) if d is not None]
            if 1 <= len(ds) <= 2:
                for d in ds:
                    out += _resolve(fn, d, depth + 1)
    return out


def check(ctx, prog, rule, units):
    n = 0
    for fn in prog.all_functions():
        if fn.unit.name.split("/")[-1] not in units:
            continue
        bases = set()
        for b, i, e in fn.elements():
            for x in walk(e, into_pre=True):
                if x.get("k") == "mem" and x.get("f") == "numrecs":
                    bases.add(canon(x["b"]))
        # only functions that hold the header objects of two files (an array of them: ncp[0], ncp[1])
        if not any("[" in bb for bb in bases):
            continue
        n += 1
        ctx.functions_analysed.add((fn.unit.name, fn.name))
        inst = "%s:numrecs" % fn.name
        ok = False
        for b, i, e in fn.elements():
            for blk_e in [e] + ([fn.blocks[b.id].cond] if fn.blocks[b.id].cond is not None else []):
                for x in walk(blk_e, into_pre=True):
                    if x.get("k") == "bin" and x.get("op") in ("!=", "==", "<", ">", "<=", ">="):
                        ta, tb = " ".join(_resolve(fn, x["a"])), " ".join(_resolve(fn, x["b"]))
                        ba = {bb for bb in bases if "%s->numrecs" % bb in ta or "%s.numrecs" % bb in ta}
                        bbs = {bb for bb in bases if "%s->numrecs" % bb in tb or "%s.numrecs" % bb in tb}
                        if ba and bbs and (ba != bbs or len(ba | bbs) > 1):
                            ok = True
        if ok:
            ctx.ok(rule, inst, "the record counts of the two files are compared")
        else:
            ctx.fail(rule, fn.name, "numrecs", "the tool takes the number of records from the header (%s) but never compares the two files' "
                     "counts: files that differ only in the number of records are reported identical"
                     % ", ".join("%s->numrecs" % bb for bb in sorted(bases)), fn=fn, line=fn.line, inst=inst)
    if n < 1:
        raise AnalysisBroken("%s: no diff tool reads a numrecs field" % rule)
    return n


def check_dimlen(ctx, prog, rule, units):
    """every comparison of the two files' dimension lengths held in variables (values copied from a dimension's `size`) lets the
    record dimension stand for its number of records: each compared variable also has a definition from `numrecs`"""
    n = 0
    for fn in prog.all_functions():
        if fn.unit.name.split("/")[-1] not in units:
            continue
        defs = {}
        for b, i, e in fn.elements():
            s = strip(e)
            if isinstance(s, dict) and s.get("k") == "asg" and s.get("op") == "=":
                defs.setdefault(canon(strip(s["a"])), []).append(canon(s["b"]))
            if isinstance(s, dict) and s.get("k") == "decl":
                for v in s.get("vars", []):
                    if v.get("init") is not None:
                        defs.setdefault(v["n"], []).append(canon(v["init"]))
        seen = set()
        for blk in fn.blocks.values():
            c = blk.cond
            if c is None:
                continue
            for x in walk(c, into_pre=True):
                if not (isinstance(x, dict) and x.get("k") == "bin" and x.get("op") in ("!=", "==")):
                    continue
                a, b_ = canon(strip(x["a"])), canon(strip(x["b"]))
                da, db = defs.get(a, []), defs.get(b_, [])
                if not (any("dims.value" in d and d.endswith("->size") for d in da) and
                        any("dims.value" in d and d.endswith("->size") for d in db)):
                    continue
                if (a, b_) in seen:
                    continue
                seen.add((a, b_))
                n += 1
                inst = "%s:%s %s %s" % (fn.name, a, x["op"], b_)
                ctx.functions_analysed.add((fn.unit.name, fn.name))
                if any("numrecs" in d for d in da) and any("numrecs" in d for d in db):
                    ctx.ok(rule, inst, "both lengths stand for the number of records when the dimension is the record dimension")
                else:
                    ctx.fail(rule, fn.name, "%s %s %s" % (a, x["op"], b_), "the two files' dimension lengths are compared as stored in the "
                             "headers (`size`, 0 for the record dimension in both files): a variable list (-v) comparison of files with "
                             "different record counts passes this test and compares only the first file's records",
                             fn=fn, line=blk.tl or fn.line, inst=inst)
    if n < 1:
        raise AnalysisBroken("%s: no comparison of dimension lengths held in variables found" % rule)
    return n
