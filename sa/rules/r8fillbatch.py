"""R8.fillbatch — fillerup_aggregate(): the fill step of enddef writes, in one call, the fill values of every new variable
(and of their existing records) through a file view made of one block per variable.  The function is evaluated whole by
the analyser on small schemas - up to 3 new variables, fixed-size or record, 3 or 4 elements, 0..2 existing records, 1 or
2 processes, each variable's fill buffer either prepared or refused (fill_var_buf failing: a `_FillValue` of the wrong type)
- with the MPI calls replaced by recorders.  At the write the number of bytes handed over must equal the bytes the file
view selects (the sum of its block lengths, nothing when no block is left and the view is the plain byte view): surplus
bytes are uninitialised memory and land outside the variables - at file offset 0, over the header, when no request is left.
The blocks must be the requests whose buffer was prepared, in order."""
import itertools
import concrete
from frontend import AnalysisBroken


def check(ctx, fn, rule):
    cells = 0
    bad = None
    kinds = [("f", 3), ("f", 4), ("r", 3)]
    for nv in (1, 2, 3):
        for vs in itertools.product(kinds, repeat=nv):
            for fails in itertools.product((0, 1), repeat=nv):
                for nprocs, rank in ((1, 0), (2, 0), (2, 1)):
                    for nrecs in (0, 2):
                        if nrecs and not any(k == "r" for k, _ in vs):
                            continue
                        env = {"$dyn": True, "ncp": 1, "old_ncp": 2, "old_ncp->vars.ndefined": 0, "old_ncp->numrecs": nrecs, "old_ncp->recsize": 32, "old_ncp->vars.num_rec_vars": 0,
                               "old_ncp->nprocs": nprocs, "old_ncp->rank": rank,
                               "ncp->vars.ndefined": nv, "ncp->vars.num_rec_vars": sum(1 for k, _ in vs if k == "r"),
                               "ncp->nprocs": nprocs, "ncp->rank": rank, "ncp->recsize": 64, "ncp->collective_fh": 5, "ncp->comm": 6}
                        for i, (k, ln) in enumerate(vs):
                            env["ncp->vars.value[%d]" % i] = ("P", "V", i)
                            env["V[%d].no_fill" % i] = 0
                            env["V[%d].xsz" % i] = 4
                            env["V[%d].begin" % i] = 1000 * (i + 1)
                            env["V[%d].ndims" % i] = 2 if k == "r" else 1
                            env["V[%d].shape" % i] = ("P", "S%d" % i, 0)
                            env["S%d[0]" % i] = 0 if k == "r" else ln
                            env["V[%d].dsizes" % i] = ("P", "D%d" % i, 0)
                            env["D%d[0]" % i] = ln
                            env["D%d[1]" % i] = ln
                        st = {"n": 0, "view": None, "write": None, "prepared": []}

                        def malloc(*a, st=st):
                            st["n"] += 1
                            return ("P", "M%d" % st["n"], 0)

                        def fill_var_buf(varp, cnt, bufp, st=st, fails=fails, env=env):
                            if not (isinstance(varp, tuple) and varp[1] == "V"):
                                raise AnalysisBroken("%s: fill_var_buf called on an unmodelled variable" % fn.name)
                            if fails[varp[2]]:
                                return -45
                            st["prepared"].append((varp[2], cnt * 4))
                            return 0

                        def hindexed(k, bl, off, old, newp, st=st, env=env):
                            blocks = []
                            for q in range(k):
                                blocks.append((env.get("%s[%d]" % (off[1], off[2] + q)), env.get("%s[%d]" % (bl[1], bl[2] + q))))
                            if isinstance(newp, tuple) and newp[0] == "A":
                                env[newp[1]] = ("T", tuple(blocks))
                            return 0

                        def set_view(fh, disp, et, ft, rep, info, st=st):
                            if st["write"] is None:
                                st["view"] = ft
                            return 0

                        def write(fh, off, buf, cnt, typ, stat, st=st):
                            st["write"] = (off, cnt, typ)
                            return 0
                        env["$impl"] = {"NCI_Malloc_fn": malloc, "malloc": malloc, "fill_var_buf": fill_var_buf, "MPI_Type_create_hindexed": hindexed,
                                        "MPI_Type_create_hindexed_c": hindexed, "MPI_File_set_view": set_view,
                                        "MPI_File_write_at": write, "MPI_File_write_at_all": write}
                        try:
                            concrete.run_region(fn, (fn.entry, 0), set(), env, max_steps=3000)
                        except concrete.Unsupported as u:
                            raise AnalysisBroken("%s is no longer interpretable: %s" % (fn.name, u))
                        except KeyError as u:
                            raise AnalysisBroken("%s reads an unbound location %s" % (fn.name, u))
                        cells += 1
                        if bad is not None or st["write"] is None:
                            continue
                        off, cnt, typ = st["write"]
                        view = st["view"]
                        if isinstance(view, tuple) and view[0] == "T":
                            sel = sum(b[1] for b in view[1] if isinstance(b[1], int))
                            blocks = [b[1] for b in view[1]]
                        else:
                            sel, blocks = 0, []
                        want_blocks = [ln for (_, ln) in st["prepared"]]
                        desc = (["%s variable of %d elements%s" % ("record" if k == "r" else "fixed-size", ln, ", fill buffer refused" if f else "")
                                 for (k, ln), f in zip(vs, fails)], nprocs, rank, nrecs)
                        if isinstance(typ, tuple) and typ[0] == "A" and cnt != sel:
                            bad = desc + ("%d bytes are written through a file view that selects %d bytes (%d block(s))%s" %
                                          (cnt, sel, len(blocks), ": the surplus is uninitialised memory written at file offset 0, over the header"
                                           if not blocks else ": the surplus lands beyond the variables' blocks"),)
                        elif blocks != want_blocks:
                            bad = desc + ("the file view's block lengths are %s, the prepared requests' are %s" % (blocks, want_blocks),)
    inst = "%s:bytes" % fn.name
    if bad:
        ctx.fail(rule, fn.name, "bytes", "new variables %s on %d process(es) (rank %d), %d existing record(s): %s" % bad, fn=fn,
                 line=fn.line, inst=inst)
    else:
        ctx.ok(rule, inst, "%d schemas: the write hands over exactly the bytes the file view selects, one block per prepared request" % cells)
    return cells
