"""R10.erange — NC_ERANGE is not a failure of the call: the conversion has been done for every element (the offending
ones hold the fill value) and, for a nonblocking post, the request is in the queue.  "All other elements of the same
call are still transferred" therefore needs every caller to go on exactly as after NC_NOERR.

Sites: every assignment `v = P(...)` where P packs / posts data for a write (ncmpio_pack_xbuf, ncmpio_igetput_varm,
igetput_varn, the iput/bput entry points of the driver, also through the dispatcher's driver slots).  From the statement
after the assignment the function is explored twice, with v = NC_NOERR and with v = NC_ERANGE (only v is tracked; every
other condition takes both sides), up to the first *event* on each path - the next call that is not mere bookkeeping, or
the function's exit.  An event is the callee together with the constants stored on the way to it (a request
turned into a zero-length one calls the same functions).  The two sets of possible next events must be equal: a path that leaves early, skips the remaining
posts of a loop or the wait only because the status is NC_ERANGE drops elements that were representable."""
from absint import ValueDomain, Explorer, State, AVal, fin, TOP, Budget
from facts import walk, strip, strip_pre, canon, const_value, lvalue_key
from frontend import AnalysisBroken
from callgraph import slot_of_call

POST = {"ncmpio_pack_xbuf", "ncmpio_igetput_varm", "igetput_varn", "ncmpio_iput_var", "ncmpio_iput_varn", "ncmpio_bput_var",
        "ncmpio_bput_varn"}
SLOTS = {"iput_var", "iput_varn", "bput_var", "bput_varn"}
BOOKKEEPING = ("NCI_Free_fn", "free", "memcpy", "memset", "memmove", "MPI_Type_free", "MPI_Type_commit", "MPI_Get_address",
               "ncmpii_in_swapn", "assert", "__assert_fail", "printf", "fprintf", "ncmpio_abuf_dealloc")


class OneVar(ValueDomain):
    def __init__(self, fn, key):
        ValueDomain.__init__(self, fn)
        self.key = key

    def tracked(self, key):
        return key == self.key or isinstance(key, str)

    def on_assign(self, key, lhs, rhs, val, st, elem):
        # constants stored on the way (`nelems = 0`, `bufcount = 0`): a request turned into a zero-length one reaches the
        # same callees as a real one, only these assignments tell the two apart
        if lhs is not None and rhs is not None and const_value(rhs) is not None and key != self.key:
            cur = st.get("$asg", frozenset())
            st = st.set("$asg", cur | {"%s = %s" % (canon(lhs), const_value(rhs))})
        return st


def next_events(fn, blk_id, idx, key, value):
    ev = set()
    dom = OneVar(fn, key)

    def stop_at(blk, j, s):
        e = blk.elems[j]
        if e.get("k") == "call":
            name = e.get("fn") or ("driver->" + (slot_of_call(e) or "?"))
            if name not in BOOKKEEPING:
                ev.add((name, s.get("$asg", frozenset())))
                return True
        return False
    ex = Explorer(fn, dom, max_states=20000)
    ex.run(State().set(key, fin(value)), start_block=blk_id, start_idx=idx, stop_at=stop_at,
           on_exit=lambda st, k: ev.add(("<return>", st.get("$asg", frozenset()))))
    return ev


def _show(evs):
    return sorted({n + ("[" + ", ".join(sorted(a)) + "]" if a else "") for n, a in evs})


def check(ctx, prog, rule, erange, min_sites=6):
    n = 0
    for fn in prog.all_functions():
        for bid, blk in fn.blocks.items():
            for j, e in enumerate(blk.elems):
                if e.get("k") != "asg" or e.get("op") != "=":
                    continue
                call = None
                for x in walk(e["b"], into_pre=True):
                    if x.get("k") == "call" and (x.get("fn") in POST or (x.get("fn") is None and slot_of_call(x) in SLOTS)):
                        call = x
                if call is None:
                    continue
                key = lvalue_key(e["a"])
                if key is None or key[0] != "v":
                    continue
                n += 1
                ctx.functions_analysed.add((fn.unit.name, fn.name))
                callee = call.get("fn") or ("driver->" + slot_of_call(call))
                inst = "%s:%s" % (fn.name, callee)
                try:
                    ok_ev = next_events(fn, bid, j + 1, key, 0)
                    er_ev = next_events(fn, bid, j + 1, key, erange)
                except Budget:
                    raise AnalysisBroken("%s: %s exceeds the state budget" % (rule, fn.name))
                if ok_ev == er_ev:
                    ctx.ok(rule, inst, "after NC_ERANGE the function goes on as after NC_NOERR (next: %s)" % ", ".join(_show(ok_ev))[:80])
                else:
                    lost = _show(ok_ev - er_ev)
                    extra = _show(er_ev - ok_ev)
                    ctx.fail(rule, fn.name, callee, "`%s = %s(...)`: with NC_ERANGE the function %s%s%s, unlike after NC_NOERR: the "
                             "representable elements of the call (or the rest of its requests) are not transferred"
                             % (canon(e["a"]), callee,
                                ("can go straight to " + "/".join(extra)) if extra else "",
                                " and " if extra and lost else "",
                                ("never reaches " + "/".join(lost)) if lost else ""),
                             fn=fn, line=e.get("l", 0), inst=inst, detail={"after_NC_NOERR": _show(ok_ev), "after_NC_ERANGE": _show(er_ev)})
    if n < min_sites:
        raise AnalysisBroken("%s: only %d pack / post call sites found (%d confirmed by hand)" % (rule, n, min_sites))
    return n
