"""R8.contig — is_request_contiguous(): whenever it answers "contiguous" the elements addressed by (start, count) really are
one run of consecutive file positions.  (Answering "not contiguous" for a contiguous request only costs a derived
datatype; answering "contiguous" for a gapped one makes the driver transfer a flat byte run over elements the request
does not address.)  The function is a pure decision over small integers: evaluated for every request of a bounded
family of 1- to 3-dimensional fixed and record variables and compared with an element-wise model."""
import itertools
import concrete
from frontend import AnalysisBroken


def contiguous_model(is_rec, nrecvars, shape, start, count):
    if any(c == 0 for c in count):
        return True
    nd = len(shape)
    # element strides in units of elements; the record dimension strides over the whole record of all record variables
    mult = [1] * nd
    for d in range(nd - 2, -1, -1):
        mult[d] = mult[d + 1] * shape[d + 1]
    if is_rec:
        inner = 1
        for d in range(1, nd):
            inner *= shape[d]
        mult[0] = inner if nrecvars == 1 else inner * 1000 + 7
    pos = sorted(sum((start[d] + k[d]) * mult[d] for d in range(nd)) for k in itertools.product(*[range(c) for c in count]))
    return all(b - a == 1 for a, b in zip(pos, pos[1:]))


def check(ctx, fn, rule):
    n = 0
    bad = None
    for nd in (1, 2, 3):
        shapes = {1: [(5,)], 2: [(3, 4), (2, 2)], 3: [(2, 3, 4), (3, 2, 2)]}[nd]
        for shape in shapes:
            for is_rec in (0, 1):
                for nrec in ((1, 2) if is_rec else (0,)):
                    for start in itertools.product(*[range(0, 2) for _ in range(nd)]):
                        for count in itertools.product(*[range(0, s + 1) for s in shape]):
                            if any(start[d] + count[d] > shape[d] for d in range(nd)):
                                continue
                            env = {"$dyn": True, "isRecVar": is_rec, "numRecVars": nrec, "ndims": nd}
                            for d in range(nd):
                                env["shape[%d]" % d] = 0 if (is_rec and d == 0) else shape[d]
                                env["start[%d]" % d] = start[d]
                                env["count[%d]" % d] = count[d]
                            try:
                                concrete.run_region(fn, (fn.entry, 0), set(), env, events=None, max_steps=2000)
                            except concrete.Unsupported as u:
                                raise AnalysisBroken("%s is no longer interpretable: %s" % (fn.name, u))
                            except KeyError as u:
                                raise AnalysisBroken("%s reads an unbound location %s" % (fn.name, u))
                            n += 1
                            says = bool(env.get("$ret"))
                            if says and not contiguous_model(is_rec, nrec, shape, start, count) and bad is None:
                                bad = (is_rec, nrec, shape, start, count)
    inst = "%s:cells" % fn.name
    if bad:
        is_rec, nrec, shape, start, count = bad
        ctx.fail(rule, fn.name, "classification", "%s variable of shape %s%s, start %s count %s: classified contiguous, but the "
                 "addressed elements are not consecutive in the file: the transfer covers elements the request does not address" %
                 ("record" if is_rec else "fixed-size", list(shape), " (%d record variable(s) in the file)" % nrec if is_rec else "",
                  list(start), list(count)), fn=fn, line=fn.line, inst=inst)
    else:
        ctx.ok(rule, inst, "%d requests: every request classified contiguous is one run of consecutive elements" % n)
    return n
