"""C18 — size limits and 64-bit offsets (rule families R10/R12).

 R10.vlenmax   ncmpio_NC_check_vlens uses 2^63-1-3 / 2^32-1-3 / 2^31-1-3 for CDF-5 / CDF-2 / CDF-1.
 R10.onelarge  both passes of ncmpio_NC_check_vlens have the "at most one too-large variable, and it must be
               the last of its kind" structure.
 R10.begin32   in NC_begins every variable offset stored for a CDF-1 file was tested <= 2^31-1 first: the
               test compares the very value that becomes NC_var.begin.
 R10.dimsize   ncmpi_def_dim rejects sizes beyond the per-format limits.
 R12.narrow    no unguarded 64 -> 32 bit conversion in the offset / geometry functions.
 R12.cmp       comparators used for sorting 64-bit offsets return an ordering, not a truncated difference.
"""
from facts import walk, strip, strip_pre, const_value, show, canon, lvalue_key, macro_of
from frontend import AnalysisBroken
import cfg
import patterns
from rules import r12

I63, U32, I31 = (1 << 63) - 1, (1 << 32) - 1, (1 << 31) - 1


def check_vlenmax(ctx, prog):
    fn = ctx.need_fn(prog, "ncmpio_NC_check_vlens")
    got = {}
    for b, i, e in fn.elements():
        if e.get("k") == "asg" and canon(e["a"]) == "vlen_max":
            v = const_value(e["b"])
            conds = []
            for d in cfg.dominators(fn).get(b.id, ()):
                blk = fn.blocks[d]
                if blk.cond is not None and d != b.id and len(blk.succs) == 2:
                    t, f = blk.succs
                    if b.id == t or (t is not None and b.id in patterns.region(fn, t, {f})) and \
                            not (f is not None and b.id in patterns.region(fn, f, {t})):
                        conds.append(canon(blk.cond))
                    else:
                        conds.append("!(" + canon(blk.cond) + ")")
            got[v] = conds
    want = {I63 - 3: "format >= 5", U32 - 3: "format == 2", I31 - 3: None}
    for v, cond in want.items():
        inst = "vlen_max=%d" % v
        if v in got and (cond is None or any(cond in c and not c.startswith("!(") for c in got[v])):
            ctx.ok("R10.vlenmax", inst, "assigned under %s" % (cond or "the remaining case (CDF-1)"))
        else:
            ctx.fail("R10.vlenmax", fn.name, inst, "the per-format maximum variable size %d (%s) is not assigned as "
                     "expected (found %s)" % (v, cond or "CDF-1", {k: got[k] for k in got}), fn=fn, line=fn.line)
    extra = [v for v in got if v not in want]
    if extra:
        ctx.fail("R10.vlenmax", fn.name, "extra", "unexpected vlen_max value(s) %s" % extra, fn=fn, line=fn.line)


def check_onelarge(ctx, prog):
    fn = ctx.need_fn(prog, "ncmpio_NC_check_vlens")
    lps = [lp for lp in patterns.loops(fn) if any(c.get("fn") == "ncmpio_NC_check_vlen" for blk, i, e in lp.body_elems()
                                                  for c in walk(e) if c.get("k") == "call")]
    ctx.require(len(lps) == 2, "ncmpio_NC_check_vlens: expected two passes over the variables, found %d" % len(lps))
    for n, lp in enumerate(lps, 1):
        inst = "pass%d" % n
        call_blk = None
        for blk, i, e in lp.body_elems(ext=False):
            if any(c.get("fn") == "ncmpio_NC_check_vlen" for c in walk(e) if c.get("k") == "call"):
                call_blk = blk
        reset = None
        setone = None
        counter = None
        for blk, i, e in lp.body_elems(ext=False):
            if e.get("k") == "asg" and canon(e["a"]) == "last":
                if const_value(e["b"]) == 0 and (blk.id == call_blk.id or blk.id in cfg.dominators(fn).get(call_blk.id, ())):
                    reset = e
                if const_value(e["b"]) == 1:
                    setone = e
            if e.get("k") == "un" and "++" in e.get("op", "") and canon(e["e"]).startswith("large_"):
                counter = canon(e["e"])
        # after the loop: counter > 1 -> error ; counter == 1 && last == 0 -> error
        gt1 = eq1 = False
        for bid, blk in fn.blocks.items():
            c = blk.cond
            if c is None or counter is None:
                continue
            t = canon(c)
            if t == "%s > 1" % counter:
                gt1 = True
            if t == "%s == 1" % counter:
                nb = fn.blocks[blk.succs[0]] if blk.succs[0] is not None else None
                if nb is not None and nb.cond is not None and canon(nb.cond) == "last == 0":
                    eq1 = True
        if reset is not None and setone is not None and counter and gt1 and eq1:
            ctx.ok("R10.onelarge", inst, "`last` reset per variable, %s > 1 and (%s == 1 && last == 0) rejected" % (counter, counter))
        else:
            ctx.fail("R10.onelarge", fn.name, inst, "the 'at most one too-large variable and it must be the last' structure "
                     "is incomplete in pass %d (reset=%s set=%s counter=%s >1:%s ==1&&!last:%s)" %
                     (n, reset is not None, setone is not None, counter, gt1, eq1), fn=fn, line=lp.head.tl or fn.line)


def check_begin32(ctx, prog):
    fn = ctx.need_fn(prog, "NC_begins")
    n = 0
    for lp in patterns.loops(fn):
        stores = [(blk, i, e) for blk, i, e in lp.body_elems(ext=False)
                  if e.get("k") == "asg" and e.get("op") == "=" and canon(e["a"]).endswith("->begin")
                  and strip(e["b"]).get("k") == "ref"]
        # the first store of the running offset in this loop
        if not stores:
            continue
        blk, i, e = stores[0]
        src = canon(e["b"])
        n += 1
        good = False
        for b2 in lp.body:
            c = fn.blocks[b2].cond
            if c is None:
                continue
            if canon(c) == "%s > NC_MAX_INT" % src and const_value(strip_pre(c)["b"]) == I31:
                # conjoined with format == 1 and dominating the store
                pre = [canon(fn.blocks[p].cond) for p in fn.blocks[b2].preds if fn.blocks[p].cond is not None]
                if any("format == 1" in p for p in pre) and (b2 in cfg.dominators(fn).get(blk.id, ()) or
                                                            any(p in cfg.dominators(fn).get(blk.id, ()) for p in fn.blocks[b2].preds)):
                    good = True
        inst = "NC_begins:loop@%d(%s)" % (n, src)
        if good:
            ctx.ok("R10.begin32", inst, "`format == 1 && %s > NC_MAX_INT` rejects before `%s`" % (src, canon(e)))
        else:
            ctx.fail("R10.begin32", fn.name, "begin<-%s#%d" % (src, n), "in this pass `%s` becomes a variable's starting "
                     "offset without the CDF-1 test `%s > NC_MAX_INT`: an offset that does not fit the 32-bit header "
                     "field is accepted" % (src, src), fn=fn, line=e.get("l", fn.line), inst=inst)
    ctx.require(n >= 2, "NC_begins: expected the fixed-size and the record pass, found %d" % n)


def check_dimsize(ctx, prog):
    fn = ctx.need_fn(prog, "ncmpi_def_dim")
    lims = []
    for bid, blk in fn.blocks.items():
        c = blk.cond
        if c is not None and c.get("k") == "bin" and c.get("op") == ">" and canon(c["a"]) == "size":
            v = const_value(c["b"])
            if v is not None:
                lims.append(v)
    neg = any(blk.cond is not None and canon(blk.cond) == "size < 0" for blk in fn.blocks.values())
    if sorted(set(lims)) and all(v in (I31, I63, U32, I63 - 3, I31 - 3, U32 - 3) for v in lims) and I31 in lims and neg:
        ctx.ok("R10.dimsize", "ncmpi_def_dim", "upper limits %s and negative sizes rejected" % sorted(set(lims)))
    else:
        ctx.fail("R10.dimsize", fn.name, "limits", "dimension size limits are %s (negative test: %s)" % (sorted(set(lims)), neg),
                 fn=fn, line=fn.line)


def check_cmp(ctx, prog):
    """qsort comparators over structures with 64-bit keys must not return a narrowed difference"""
    n = 0
    for fn in prog.all_functions():
        if len(fn.params) != 2 or fn.type(fn.ret).get("k") != "int":
            continue
        if not all("const void *" in fn.type(p["t"]).get("s", "") for p in fn.params):
            continue
        n += 1
        bad = None
        for b, i, e in fn.elements():
            if e.get("k") == "ret" and e.get("e") is not None:
                for x in walk(e["e"], into_pre=True):
                    if x.get("k") == "cast" and x.get("ck") == "IntegralCast" and "cv" not in x:
                        ft, tt = fn.type(x.get("ft")), fn.type(x.get("t"))
                        if ft.get("bits", 0) == 64 and tt.get("bits", 64) <= 32:
                            bad = x
        if bad is not None:
            ctx.fail("R12.cmp", fn.name, "return", "comparator returns the 64-bit difference `%s` truncated to int: keys "
                     "2^31 or more apart compare in the wrong order and the sort is corrupted" % canon(bad["e"])[:60],
                     fn=fn, line=bad.get("l", fn.line))
        else:
            ctx.ok("R12.cmp", fn.name, "returns an ordering (no truncated 64-bit difference)")
    ctx.require(n >= 2, "expected >= 2 qsort comparators, found %d" % n)


def run(ctx):
    ctx.rule("R10.vlenmax", "per-format maximum variable size constants and their guards")
    ctx.rule("R10.onelarge", "'at most one too-large variable, and last' in both passes")
    ctx.rule("R10.begin32", "NC_begins tests the stored offset itself against 2^31-1 for CDF-1 in both passes")
    ctx.rule("R10.dimsize", "ncmpi_def_dim per-format limits")
    ctx.rule("R12.narrow", "64->32 bit conversions in geometry functions are range-guarded")
    ctx.rule("R12.cmp", "sort comparators do not return truncated 64-bit differences")
    ctx.assume("the decision over variable sequences is decided for lists of up to 4 variables (R8.vlens); data placement at "
               "large offsets is not decided; the intra-node aggregation layer is outside R12.narrow")
    prog = ctx.program(groups=["lib"])
    check_vlenmax(ctx, prog)
    check_onelarge(ctx, prog)
    check_begin32(ctx, prog)
    check_dimsize(ctx, prog)
    r12.run_r12(ctx, prog)
    check_cmp(ctx, prog)
    from rules import r8subarray
    ctx.rule("R8.subarray", "type_create_subarray64 builds the type map of MPI_Type_create_subarray for dimensions beyond 2^31-1 (bounded)")
    ns = r8subarray.check(ctx, ctx.need_fn(prog, "type_create_subarray64"), "R8.subarray")
    ctx.require(ns >= 100, "R8.subarray: only %d requests evaluated" % ns)
    from rules import r8vlens
    ctx.rule("R8.vlens", "ncmpio_NC_check_vlens decides every list of up to 4 fixed / record, small / too-large variables in the "
             "three formats as the format rule does (bounded: 1023 cases)")
    ev = None
    for u in prog.units.values():
        if "NC_EVARSIZE" in u.macros:
            try:
                ev = int(u.macros["NC_EVARSIZE"].strip("() "), 0)
            except ValueError:
                continue
            break
    ctx.require(ev is not None and ev < 0, "NC_EVARSIZE not found")
    nv = r8vlens.check(ctx, ctx.need_fn(prog, "ncmpio_NC_check_vlens"), "R8.vlens", ev)
    ctx.require(nv >= 1000, "R8.vlens: only %d cases evaluated" % nv)
    from rules import r8begins
    ctx.rule("R8.begins", "NC_begins, evaluated with unbounded integers on every list of up to 3 variables the size rule accepts: an "
             "accepted layout has representable, ordered, non-overlapping begins (bounded)")
    nb = r8begins.check(ctx, ctx.need_fn(prog, "NC_begins"), "R8.begins", deep=(ctx.tier == "thorough"))
    ctx.require(nb >= 1000, "R8.begins: only %d layouts evaluated" % nb)
    from rules import r12offlimit
    ctx.rule("R12.offlimit", "a 64-bit file offset is refused for exceeding 2^31-1 (NC_EINTOVERFLOW) only where the function goes on to "
             "put that value into 32 bits")
    _p = ctx.program(groups=["lib"])
    _eo = None
    for u in _p.units.values():
        if "NC_EINTOVERFLOW" in u.macros:
            try:
                _eo = int(u.macros["NC_EINTOVERFLOW"].strip("() "), 0)
            except ValueError:
                pass
            break
    ctx.require(_eo is not None, "macro NC_EINTOVERFLOW not found / not a constant")
    r12offlimit.check(ctx, _p, "R12.offlimit", 2, _eo)
