"""C05 — record count coherent across processes, memory and file header.

Structural clauses decided (necessary conditions of the property):
 R4.nr.sync    after every ncmpio_write_numrecs(ncp, E) the calling function makes
               ncp->numrecs >= E on every path to its exit (non-root ranks return early
               from ncmpio_write_numrecs and rely on the caller).
 R4.nr.max     in collective writers the value written is the result of an
               MPI_Allreduce(MPI_MAX) that includes the local candidate (nprocs > 1).
 R4.nr.mono    every store to NC.numrecs is guarded by old < new, or is the result of an
               Allreduce(MAX) over the old value, or is one of the listed initialisations.
 R4.nr.dirty   a store not accompanied by ncmpio_write_numrecs marks NC_NDIRTY.
 R4.nr.erange  a blocking put that ends with NC_ERANGE (data written) still grows the count.
 R4.nr.points  the documented synchronisation points reach ncmpio_sync_numrecs.
 R5.queue      the newnumrecs scan in req_commit covers the whole pending queue.
"""
from absint import ValueDomain, Explorer, State, TOP, ZERO, ONE, NONZERO, AVal, fin, Budget
from callgraph import CallGraph
from facts import walk, strip, strip_pre, const_value, show, lvalue_key, macro_of, key_str, canon
from frontend import AnalysisBroken
import cfg
import patterns
from rules import r5

NC_ERANGE = -60
INIT_STORES = {  # function -> reason (clause 4 iii)
    "ncmpio_hdr_get_NC": "value read from the file header at open",
    "NC_begins": "a newly created file has no records",
    "ncmpio_create": "new file object",
    "ncmpio_open": "new file object",
}


def is_numrecs(n):
    n = strip(n)
    return isinstance(n, dict) and n.get("k") == "mem" and n.get("f") == "numrecs" and n.get("rec") == "NC"


class NrDom(ValueDomain):
    """events: $wn:<key> pending obligation after write_numrecs(ncp,<key>);
    $max:<key> value produced by Allreduce(MAX); $np1 path took nprocs>1 false."""

    def tracked(self, key):
        if isinstance(key, str):
            return True
        if key[0] == "v":
            v = self.fn.vars.get(key[1])
            return v is not None and self.fn.type(v["t"]).get("k") in ("int", "uint") and \
                self.fn.type(v["t"]).get("bits", 0) <= 32
        return False

    def call_value(self, call, st):
        f = call.get("fn") or ""
        if f.startswith("MPI_") and not f.startswith("MPI_File_"):
            return ZERO     # assume_mpi_ok for communication calls
        return TOP

    def on_call(self, call, st, blk, idx):
        f = call.get("fn")
        a = call.get("args", [])
        if f == "ncmpio_write_numrecs" and len(a) == 2:
            k = lvalue_key(a[1])
            if k is not None and not is_numrecs(a[1]):
                st = st.set("$wn", k)
                st = st.set("$wnline", fin(call.get("l", 0)))
                if not st.has("$np1") and not st.has(("$max", k)):
                    st = st.set("$nomax", fin(call.get("l", 0)))
        if f == "MPI_Allreduce" and len(a) >= 5 and macro_of(a[4]) == "MPI_MAX":
            r = strip(a[1])
            if isinstance(r, dict) and r.get("k") == "un" and r.get("op") == "&":
                rk = lvalue_key(r["e"])
                if rk is not None:
                    st = st.set(("$max", rk), ONE)
            elif isinstance(r, dict) and r.get("k") == "ref":
                # array buffer (MPI_IN_PLACE form)
                st = st.set(("$maxarr", lvalue_key(r)), ONE)
        return st

    def on_assign(self, key, lhs, rhs, val, st, elem):
        if lhs is not None and is_numrecs(lhs):
            rk = lvalue_key(rhs) if rhs is not None else None
            if st.has("$wn") and st.get("$wn") == rk:
                st = st.set("$wn", None)
        # x = arr[k] after an in-place Allreduce(MAX) on arr
        if rhs is not None:
            r = strip(rhs)
            if isinstance(r, dict) and r.get("k") == "idx":
                bk = lvalue_key(r["b"])
                if st.has(("$maxarr", bk)):
                    st = st.set(("$max", key), ONE)
                    return st
        if key is not None and st.has(("$max", key)) and not (rhs is not None and False):
            # plain reassignment of a MAX-derived variable invalidates the fact
            r = strip(rhs) if rhs is not None else None
            if not (isinstance(r, dict) and r.get("k") == "idx"):
                st = st.set(("$max", key), None)
        return st

    def branch(self, blk, st):
        out = super().branch(blk, st)
        c = blk.cond
        if c is None or len(blk.succs) != 2 or c.get("k") != "bin":
            return out
        res = []
        for succ, s2 in out:
            truth = (succ == blk.succs[0])
            if blk.succs[0] == blk.succs[1]:
                res.append((succ, s2))
                continue
            op, a, b = c.get("op"), c.get("a"), c.get("b")
            # ncp->nprocs > 1
            sa = strip(a)
            if op == ">" and isinstance(sa, dict) and sa.get("k") == "mem" and sa.get("f") == "nprocs" \
                    and const_value(b) == 1 and not truth:
                s2 = s2.set("$np1", ONE)
            # ncp->numrecs < E  (false edge: already >= E)   /  E > ncp->numrecs
            if s2.has("$wn"):
                k = s2.get("$wn")
                if op == "<" and is_numrecs(a) and lvalue_key(b) == k and not truth:
                    s2 = s2.set("$wn", None)
                if op == ">" and is_numrecs(b) and lvalue_key(a) == k and not truth:
                    s2 = s2.set("$wn", None)
            res.append((succ, s2))
        return res

    def on_elem(self, elem, st, blk, idx):
        if elem.get("k") == "ret":
            return st.set("$ret", self.eval(elem.get("e"), st) if elem.get("e") else None)
        return st


def check_sync_and_max(ctx, prog):
    writers = {}
    for fn in prog.all_functions():
        sites = patterns.call_sites(fn, lambda n: n == "ncmpio_write_numrecs")
        if sites:
            writers[fn.name] = (fn, sites)
    ctx.require(len(writers) >= 6, "expected >= 6 callers of ncmpio_write_numrecs, found %d: %s"
                % (len(writers), sorted(writers)))
    for name, (fn, sites) in sorted(writers.items()):
        ctx.functions_analysed.add((fn.unit.name, fn.name))
        ex = Explorer(fn, NrDom(fn))
        try:
            ex.run(State())
        except Budget as e:
            raise AnalysisBroken(str(e))
        ctx.states += ex.visited
        pend = None
        nomax = None
        for st, key in ex.exits:
            if st.has("$wn"):
                # an exit with an MPI communication failure is outside assume_mpi_ok
                pend = pend or (st, key)
            if st.has("$nomax"):
                nomax = nomax or (st, key)
        line = sites[0][2].get("l", fn.line)
        param_names = {p["n"] for p in fn.params}
        if pend:
            st, key = pend
            ctx.fail("R4.nr.sync", name, "ncmpio_write_numrecs", "after ncmpio_write_numrecs(ncp, %s) a path reaches "
                     "the exit of %s() without making ncp->numrecs >= %s: ranks other than the root keep a stale "
                     "record count" % (key_str(st.get("$wn")), name, key_str(st.get("$wn"))), fn=fn, line=line,
                     detail={"path": ex.describe_path(key)})
        else:
            ctx.ok("R4.nr.sync", name, "every path after the header update stores/guards ncp->numrecs >= value")
        # MAX derivation
        argk = lvalue_key(sites[0][2]["args"][1])
        if argk is not None and argk[0] == "v" and argk[2] in param_names:
            ctx.instance("R4.nr.max", name + ":param")   # decided at the caller (req_commit)
        elif nomax:
            st, key = nomax
            ctx.fail("R4.nr.max", name, "ncmpio_write_numrecs", "with more than one process the value written to "
                     "the header is not the result of an MPI_Allreduce(MPI_MAX) on this path", fn=fn, line=line,
                     detail={"path": ex.describe_path(key)})
        else:
            ctx.ok("R4.nr.max", name, "value is Allreduce(MAX)-derived whenever nprocs > 1")
    # the wait path: req_commit reduces newnumrecs in do_io[3]
    fn = ctx.need_fn(prog, "req_commit")
    ok_store = ok_load = False
    arr = None
    for b, i, c in patterns.call_sites(fn, lambda n: n == "MPI_Allreduce"):
        a = c["args"]
        if macro_of(a[4]) == "MPI_MAX" and macro_of(a[0]) == "MPI_IN_PLACE":
            arr = lvalue_key(a[1])
            apos = (b.id, i)
            acount = const_value(a[2])
    ctx.require(arr is not None, "req_commit: in-place MPI_Allreduce(MPI_MAX) not found")
    slot = None
    for b, i, e in fn.elements():
        if e.get("k") == "asg" and e.get("op") == "=":
            l, r = strip(e["a"]), strip(e["b"])
            if l.get("k") == "idx" and lvalue_key(l["b"]) == arr and r.get("k") == "ref" and r.get("n") == "newnumrecs" \
                    and cfg.pos_dominates(fn, (b.id, i), apos):
                ok_store = True
                slot = const_value(l["i"])
            if l.get("k") == "ref" and l.get("n") == "newnumrecs" and r.get("k") == "idx" and \
                    lvalue_key(r["b"]) == arr and cfg.pos_dominates(fn, apos, (b.id, i)):
                if slot is not None and const_value(r["i"]) == slot:
                    ok_load = True
    if ok_store and ok_load and (acount is None or slot is None or acount <= slot):
        ctx.fail("R4.nr.max", "req_commit", "do_io-count", "newnumrecs travels in slot %s of the array, but the MPI_MAX reduction covers "
                 "%s element(s): the new record count is not agreed among the processes" % (slot, acount), fn=fn, line=fn.line)
    elif ok_store and ok_load:
        ctx.ok("R4.nr.max", "req_commit:do_io", "newnumrecs enters slot %s of the MAX reduction and is read back "
               "from the same slot" % slot)
    else:
        ctx.fail("R4.nr.max", "req_commit", "do_io", "newnumrecs is not carried through the MPI_MAX reduction "
                 "(store before=%s, load after=%s)" % (ok_store, ok_load), fn=fn, line=fn.line)
    for callee in ("wait_getput", "ncmpio_intra_node_aggregation_nreqs"):
        for b, i, c in patterns.call_sites(fn, lambda n, callee=callee: n == callee):
            last = strip(c["args"][-1])
            if last.get("k") == "ref" and last.get("n") == "newnumrecs":
                ctx.ok("R4.nr.max", "req_commit->%s" % callee, "passes the reduced newnumrecs", nontrivial=False)
            else:
                ctx.fail("R4.nr.max", "req_commit", callee, "passes `%s` instead of the reduced newnumrecs"
                         % show(last), fn=fn, line=c.get("l", 0))
    ctx.min_instances("R4.nr.sync", 6)


def stores_to_numrecs(prog):
    out = []
    for fn in prog.all_functions():
        for b, i, e in fn.elements():
            for x in walk(e):
                if x.get("k") == "asg" and is_numrecs(x["a"]):
                    out.append((fn, b, i, x))
    return out


def check_mono_dirty(ctx, prog):
    stores = stores_to_numrecs(prog)
    ctx.require(len(stores) >= 12, "expected >= 12 stores to NC.numrecs, found %d" % len(stores))
    per_fn = {}
    for fn, b, i, x in stores:
        per_fn.setdefault(fn.name, []).append(x)
        k = len(per_fn[fn.name])
        site = "numrecs-store#%d" % k
        inst = "%s:%s" % (fn.name, site)
        ctx.functions_analysed.add((fn.unit.name, fn.name))
        if fn.name in INIT_STORES:
            ctx.ok("R4.nr.mono", inst, "initialisation: " + INIT_STORES[fn.name], nontrivial=False)
            continue
        if x.get("op") != "=":
            ctx.fail("R4.nr.mono", fn.name, site, "compound update of numrecs", fn=fn, line=x.get("l", 0), inst=inst)
            continue
        rk = lvalue_key(x["b"])
        # (i) guarded by old < new on the true edge of a dominating branch
        guarded = False
        doms = cfg.dominators(fn).get(b.id, set())
        for d in doms:
            blk = fn.blocks[d]
            c = blk.cond
            if c is None or c.get("k") != "bin" or len(blk.succs) != 2:
                continue
            t_side = blk.succs[0]
            if t_side is None or t_side == blk.succs[1]:
                continue
            on_true = (t_side == b.id) or (t_side in doms) or \
                (b.id in patterns.region(fn, t_side, {blk.succs[1]}) and
                 b.id not in patterns.region(fn, blk.succs[1], {t_side}))
            if not on_true:
                continue
            if c["op"] == "<" and is_numrecs(c["a"]) and lvalue_key(c["b"]) == rk and rk is not None:
                guarded = True
            if c["op"] == ">" and is_numrecs(c["b"]) and lvalue_key(c["a"]) == rk and rk is not None:
                guarded = True
        # (ii) Allreduce(MAX) over the old value
        reduced = False
        for b2, i2, c2 in patterns.call_sites(fn, lambda n: n == "MPI_Allreduce"):
            a = c2["args"]
            if macro_of(a[4]) != "MPI_MAX":
                continue
            s0, r0 = strip(a[0]), strip(a[1])
            if s0.get("k") == "un" and s0.get("op") == "&" and is_numrecs(s0["e"]) and \
                    r0.get("k") == "un" and r0.get("op") == "&" and lvalue_key(r0["e"]) == rk:
                # the reduction may sit under `nprocs > 1`; the variable must start as the old value
                reduced = True
        if guarded:
            ctx.ok("R4.nr.mono", inst, "guarded by ncp->numrecs < %s" % key_str(rk))
        elif reduced:
            ctx.ok("R4.nr.mono", inst, "value is MAX over all ranks' current numrecs")
        else:
            ctx.fail("R4.nr.mono", fn.name, site, "store `%s` is neither guarded by `ncp->numrecs < value` nor the "
                     "result of a MAX reduction over the old value: the record count can decrease" % show(x)[:60],
                     fn=fn, line=x.get("l", 0), inst=inst)
        # dirty marking
        if fn.name == "ncmpio_write_numrecs" or reduced:
            continue
        has_wn = any(cfg.pos_dominates(fn, (b2.id, i2), (b.id, i))
                     for b2, i2, c2 in patterns.call_sites(fn, lambda n: n == "ncmpio_write_numrecs"))
        sets_dirty = False
        for e2 in b.elems[i:]:
            for y in walk(e2):
                if y.get("k") == "asg" and y.get("op") == "|=" and macro_of(y["b"]) == "NC_NDIRTY":
                    sets_dirty = True
        if has_wn:
            ctx.ok("R4.nr.dirty", inst, "header updated by a dominating ncmpio_write_numrecs", nontrivial=False)
        elif sets_dirty:
            ctx.ok("R4.nr.dirty", inst, "followed by set_NC_ndirty in the same block")
        else:
            ctx.fail("R4.nr.dirty", fn.name, site, "numrecs grows without ncmpio_write_numrecs and without marking "
                     "NC_NDIRTY: the next synchronisation point will not write it", fn=fn, line=x.get("l", 0),
                     inst=inst)


class ErangeDom(ValueDomain):
    def __init__(self, fn, anchors):
        super().__init__(fn)
        self.anchors = anchors
        self.seen = {}

    def tracked(self, key):
        return isinstance(key, str) or (key[0] == "v" and key[2] == "status")

    def on_elem(self, elem, st, blk, idx):
        if id(elem) in self.anchors:
            v = st.get(("v",) + self.anchors[id(elem)])
            self.seen.setdefault(id(elem), []).append(v)
        return st


def check_erange(ctx, prog):
    fn = ctx.need_fn(prog, "put_varm")
    skey = None
    for v in fn.locals:
        if v["n"] == "status":
            skey = (v["id"], "status")
    ctx.require(skey, "put_varm: local `status` not found")
    anchors = {}
    for b, i, e in fn.elements():
        if e.get("k") == "asg" and strip(e["a"]).get("n") == "new_numrecs" and \
                any(x.get("k") == "ref" and x.get("n") == "start" for x in walk(e["b"], into_pre=True)):
            anchors[id(e)] = skey
    ctx.require(len(anchors) >= 2, "put_varm: the new_numrecs computations from start/count were not found")
    dom = ErangeDom(fn, anchors)
    ex = Explorer(fn, dom).run(State())
    ctx.states += ex.visited
    for aid in anchors:
        vals = dom.seen.get(aid, [])
        if not vals:
            raise AnalysisBroken("put_varm: new_numrecs computation unreachable")
        if any(v.may_be(NC_ERANGE) for v in vals) and any(v.may_be(0) for v in vals):
            ctx.ok("R4.nr.erange", "put_varm:new_numrecs@%d" % (list(anchors).index(aid) + 1),
                   "reachable with status == NC_NOERR and with status == NC_ERANGE")
        else:
            ctx.fail("R4.nr.erange", "put_varm", "new_numrecs", "the record count of a put is computed only for "
                     "status in %s: a write that stored data but ended with NC_ERANGE does not grow numrecs and its "
                     "records are unreadable" % sorted({repr(v) for v in vals}), fn=fn, line=fn.line)


def check_points(ctx, prog):
    cg = CallGraph(prog)
    for f in ("ncmpio_end_indep_data", "ncmpio_sync", "ncmpio_redef", "ncmpio_close"):
        fn = ctx.need_fn(prog, f)
        if cg.can_reach(f, {"ncmpio_sync_numrecs"}):
            ctx.ok("R4.nr.points", f, "reaches ncmpio_sync_numrecs", nontrivial=False)
        else:
            ctx.fail("R4.nr.points", f, "ncmpio_sync_numrecs", "%s no longer reaches ncmpio_sync_numrecs: numrecs "
                     "changed in independent mode is not synchronised at this documented point" % f, fn=fn,
                     line=fn.line)
    # and the synchroniser itself reduces with MAX and writes
    fn = ctx.need_fn(prog, "ncmpio_sync_numrecs")
    names = {c.get("fn") for b, i, e in fn.elements() for c in walk(e) if c.get("k") == "call"}
    if "MPI_Allreduce" in names and "ncmpio_write_numrecs" in names:
        ctx.ok("R4.nr.points", "ncmpio_sync_numrecs", "Allreduce + header write present", nontrivial=False)
    else:
        ctx.fail("R4.nr.points", "ncmpio_sync_numrecs", "body", "missing MPI_Allreduce or ncmpio_write_numrecs",
                 fn=fn, line=fn.line)


def _is_max_over(rhs, lhs_text):
    """rhs is `A > B ? A : B` (any of > >= < <=, operands in either order) with the stored-to lvalue as one operand"""
    r = strip_pre(rhs)
    r = strip(r) if isinstance(r, dict) else r
    if not isinstance(r, dict) or r.get("k") != "cond":
        return False
    c = strip_pre(r["c"])
    if not isinstance(c, dict) or c.get("k") != "bin" or c.get("op") not in (">", ">=", "<", "<="):
        return False
    A, B = canon(c["a"]), canon(c["b"])
    ta, tb = canon(r["a"]), canon(r["b"])
    if {A, B} != {ta, tb} or lhs_text not in (A, B):
        return False
    greater_first = c["op"] in (">", ">=")
    # (A > B) ? A : B   or   (A < B) ? B : A
    return (ta == A) if greater_first else (ta == B)


def check_maxrec(ctx, prog):
    """NC_lead_req.max_rec is what req_commit derives the new record count from.  (a) A store inside a loop (one call
    covering several segments / records) must accumulate: MAX(old, new), or sit under `new > old`.  (b) The closed forms
    outside loops equal `highest record index + 1` of (start, count, stride) - evaluated on a small grid."""
    import concrete
    n_loop = n_form = 0
    for fn in prog.all_functions():
        lps = None
        for b, i, e in fn.elements():
            for x in walk(e):
                if x.get("k") != "asg":
                    continue
                l = strip(x["a"])
                if not (l.get("k") == "mem" and l.get("f") == "max_rec" and l.get("rec") == "NC_lead_req"):
                    continue
                ctx.functions_analysed.add((fn.unit.name, fn.name))
                if lps is None:
                    lps = patterns.loops(fn)
                site = "max_rec@%s" % canon(x["b"])[:40]
                inst = "%s:%s" % (fn.name, site)
                if any(b.id in lp.body for lp in lps):
                    n_loop += 1
                    lt = canon(x["a"])
                    guarded = False
                    for d in cfg.dominators(fn).get(b.id, set()):
                        c = fn.blocks[d].cond
                        if c is not None and c.get("k") == "bin" and c.get("op") in ("<", ">") and lt in (canon(c["a"]), canon(c["b"])) \
                                and canon(x["b"]) in (canon(c["a"]), canon(c["b"])):
                            guarded = True
                    if x.get("op") == "=" and (_is_max_over(x["b"], lt) or guarded):
                        ctx.ok("R4.nr.maxrec", inst, "accumulated with MAX over the previous segments")
                    else:
                        ctx.fail("R4.nr.maxrec", fn.name, site, "`%s` inside the loop over the call's segments overwrites the highest "
                                 "record seen so far: a call whose last segment is not its highest leaves the record count too small"
                                 % show(x)[:70], fn=fn, line=x.get("l", 0), inst=inst)
                    continue
                cv = const_value(x["b"])
                if cv is not None:
                    if cv == -1:
                        ctx.ok("R4.nr.maxrec", inst, "initial value -1 (no record touched)", nontrivial=False)
                    else:
                        ctx.fail("R4.nr.maxrec", fn.name, site, "max_rec initialised to %s" % cv, fn=fn, line=x.get("l", 0), inst=inst)
                    continue
                # closed form over start[0], count[0], stride[0]
                n_form += 1
                uses_stride = "stride" in canon(x["b"])
                bad = None
                for s0 in range(0, 4):
                    for c0 in range(1, 5):
                        for st0 in ((1, 2, 3) if uses_stride else (1,)):
                            env = {"start[0]": s0, "count[0]": c0, "stride[0]": st0}
                            try:
                                got = concrete.evs(x["b"], env)
                            except (concrete.Unsupported, KeyError) as u:
                                raise AnalysisBroken("%s: max_rec formula `%s` not interpretable: %s" % (fn.name, canon(x["b"]), u))
                            want = s0 + (c0 - 1) * st0 + 1
                            if got != want and bad is None:
                                bad = (s0, c0, st0, got, want)
                if bad:
                    ctx.fail("R4.nr.maxrec", fn.name, site, "start[0]=%d count[0]=%d stride[0]=%d: max_rec = %s, the highest record "
                             "touched + 1 is %s" % bad, fn=fn, line=x.get("l", 0), inst=inst)
                else:
                    ctx.ok("R4.nr.maxrec", inst, "equals highest record index + 1 on the grid")
    ctx.require(n_loop >= 1 and n_form >= 2, "R4.nr.maxrec: %d loop stores / %d closed forms of NC_lead_req.max_rec found" % (n_loop, n_form))
    # the consumer: req_commit folds max_rec of every lead request with MAX
    fn = ctx.need_fn(prog, "req_commit")
    okc = False
    for b, i, e in fn.elements():
        for x in walk(e):
            if x.get("k") == "asg" and x.get("op") == "=" and "max_rec" in canon(x["b"]) and _is_max_over(x["b"], canon(x["a"])):
                okc = True
    if okc:
        ctx.ok("R4.nr.maxrec", "req_commit:fold", "new record count = MAX over the lead requests' max_rec")
    else:
        ctx.fail("R4.nr.maxrec", "req_commit", "fold", "the new record count is not the MAX over the lead requests' max_rec", fn=fn, line=fn.line)


def check_newrecs_guard(ctx, prog):
    """the blocking put paths derive the new record count from the request's geometry (start/count/stride, the filetype's
    upper bound).  That may happen only for a request that has transferred data: a request rejected earlier or of zero
    length has been turned into `nelems == 0` and must leave the count alone.  Every assignment of a geometry expression
    to a local named *numrecs* is dominated by the true side of a test `nelems > 0` (sibling agreement: put_varm has it)."""
    n = 0
    for fn in prog.all_functions():
        for b, i, e in fn.elements():
            cands = []
            if e.get("k") == "asg" and e.get("op") == "=":
                cands.append((e["a"], e["b"], e))
            if e.get("k") == "decl":
                for v in e.get("vars", []):
                    if v.get("init") is not None:
                        cands.append(({"k": "ref", "n": v["n"], "id": v.get("id"), "dk": "local"}, v["init"], e))
            for lhs, rhs, el in cands:
                l = strip(lhs)
                if not (isinstance(l, dict) and l.get("k") == "ref" and l.get("n") == "new_numrecs"):
                    continue
                rt = canon(rhs)
                if "numrecs" in rt or const_value(rhs) is not None:
                    continue            # starts from the current count
                n += 1
                ctx.functions_analysed.add((fn.unit.name, fn.name))
                site = "new_numrecs=%s" % rt[:30]
                inst = "%s:%s" % (fn.name, site)
                ok = False
                doms = cfg.dominators(fn).get(b.id, set())
                for d in doms:
                    blk = fn.blocks[d]
                    c = blk.cond
                    if c is None or len(blk.succs) != 2 or d == b.id:
                        continue
                    cc = strip_pre(c)
                    if isinstance(cc, dict) and cc.get("k") == "bin" and cc.get("op") == ">" and canon(cc["a"]) == "nelems" and const_value(cc["b"]) == 0:
                        t = blk.succs[0]
                        if t is not None and (t == b.id or t in doms):
                            ok = True
                if ok:
                    ctx.ok("R4.nr.guard", inst, "computed only under nelems > 0")
                else:
                    ctx.fail("R4.nr.guard", fn.name, site, "the new record count is taken from the request's geometry (`%s`) without the test "
                             "`nelems > 0`: a rejected or zero-length request, which writes nothing, still raises the record count"
                             % rt[:50], fn=fn, line=el.get("l", 0), inst=inst)
    ctx.require(n >= 3, "R4.nr.guard: only %d geometry-derived record counts found" % n)


def check_snapshot(ctx, prog):
    """ncmpio_redef: the header snapshot (ncp->old = dup_NC) that enddef later compares and fills against is taken after
    the record count has been synchronised (leaving independent mode), never before"""
    fn = ctx.need_fn(prog, "ncmpio_redef")
    dups = patterns.call_sites(fn, lambda n: n == "dup_NC")
    syncs = patterns.call_sites(fn, lambda n: n in ("ncmpio_end_indep_data", "ncmpio_sync_numrecs"))
    ctx.require(len(dups) == 1, "ncmpio_redef: the snapshot call dup_NC not found")
    db, di, dc = dups[0]
    if not syncs:
        ctx.fail("R4.nr.snapshot", fn.name, "dup_NC", "the header snapshot for the redefinition is taken without the record count "
                 "having been synchronised at all (no call of ncmpio_end_indep_data / ncmpio_sync_numrecs in ncmpio_redef): records "
                 "written in independent mode are known only to the rank that wrote them when the header is rewritten or the "
                 "redefinition is aborted", fn=fn, line=dc.get("l", fn.line), inst="redef")
        return
    bad = [c for b, i, c in syncs if (b.id == db.id and i > di) or (b.id != db.id and cfg.can_reach(fn, db.id, b.id))]
    if bad:
        ctx.fail("R4.nr.snapshot", fn.name, "dup_NC", "the header snapshot for the redefinition is taken before %s(): entering "
                 "define mode straight from independent data mode freezes this rank's stale record count in ncp->old, and "
                 "enddef fills / moves records according to it" % bad[0]["fn"], fn=fn, line=dc.get("l", fn.line), inst="redef")
    else:
        ctx.ok("R4.nr.snapshot", "redef", "dup_NC follows the record-count synchronisation")


def run(ctx):
    ctx.rule("R4.nr.maxrec", "NC_lead_req.max_rec: accumulated with MAX inside loops, closed forms = highest record + 1 (bounded), "
             "folded with MAX in req_commit")
    ctx.rule("R4.nr.snapshot", "the redefinition snapshot is taken after the record count is synchronised")
    ctx.rule("R4.nr.sync", "after ncmpio_write_numrecs(ncp,E) every path to the exit makes ncp->numrecs >= E")
    ctx.rule("R4.nr.max", "the written value is Allreduce(MPI_MAX)-derived when nprocs > 1")
    ctx.rule("R4.nr.mono", "every store to NC.numrecs is guarded by old<new, MAX-reduced over old, or a listed init")
    ctx.rule("R4.nr.dirty", "growth without a header update marks NC_NDIRTY")
    ctx.rule("R4.nr.erange", "put_varm computes the new record count also when status == NC_ERANGE")
    ctx.rule("R4.nr.points", "end_indep_data/sync/redef/close reach ncmpio_sync_numrecs")
    ctx.rule("R5.queue", "loops over the request queues are bounded by the queue's own length field")
    ctx.assume("MPI communication calls succeed (assume_mpi_ok)")
    ctx.assume("equality of the count across ranks at run time and the on-disk value are not decided")
    prog = ctx.program(groups=["lib"] if False else None,
                       names=["ncmpio_getput.c", "ncmpio_vard.c", "ncmpio_fill.c", "ncmpio_wait.c", "ncmpio_sync.c",
                              "ncmpio_intra_node.c", "ncmpio_file_misc.c", "ncmpio_close.c", "ncmpio_enddef.c",
                              "ncmpio_header_get.c", "ncmpio_create.c", "ncmpio_open.c", "ncmpio_i_getput.c",
                              "ncmpio_i_varn.c", "ncmpio_bput.c", "ncmpio_util.c", "ncmpio_driver.c"])
    check_sync_and_max(ctx, prog)
    check_mono_dirty(ctx, prog)
    check_erange(ctx, prog)
    check_points(ctx, prog)
    check_snapshot(ctx, prog)
    check_maxrec(ctx, prog)
    ctx.rule("R4.nr.guard", "a record count derived from a request's geometry is computed only for a request that transferred data (nelems > 0)")
    check_newrecs_guard(ctx, prog)
    n = r5.run_r5(ctx, prog)
    ctx.min_instances("R5.queue", 30)
