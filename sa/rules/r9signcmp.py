"""R9.signcmp — an ordering comparison (< > <= >=) between an unsigned value and a negative constant: the constant is
converted to the unsigned type (-1 becomes the type's maximum), so `u > -1` is always false and a loop written
`for (i--; i > -1; i--)` over an unsigned index never runs.  Located in the type-checked tree: one operand is an implicit
integral conversion to an unsigned type whose operand is a negative constant."""
from facts import walk, strip, strip_pre, canon
from frontend import AnalysisBroken


def _neg_to_unsigned(fn, x):
    x = strip_pre(x)
    if isinstance(x, dict) and x.get("k") == "cast" and x.get("impl") and x.get("ck") == "IntegralCast":
        inner = x.get("e")
        t = fn.type(x.get("t")) if x.get("t") is not None else {}
        if isinstance(inner, dict) and isinstance(inner.get("cv"), int) and inner["cv"] < 0 and t.get("k") == "uint":
            return inner["cv"]
    return None


def check(ctx, prog, rule, scope=None):
    n = 0
    bad = 0
    for fn in prog.all_functions():
        if scope is not None and not scope(fn):
            continue
        seen = set()
        nodes = []
        for b, i, e in fn.elements():
            nodes.append(e)
        for bid, blk in fn.blocks.items():
            if blk.cond is not None:
                nodes.append(blk.cond)
        for e in nodes:
            for x in walk(e, into_pre=True):
                if x.get("k") != "bin" or x.get("op") not in ("<", ">", "<=", ">=") or id(x) in seen:
                    continue
                seen.add(id(x))
                n += 1
                for side, other in ((x["a"], x["b"]), (x["b"], x["a"])):
                    v = _neg_to_unsigned(fn, side)
                    if v is not None:
                        bad += 1
                        ctx.functions_analysed.add((fn.unit.name, fn.name))
                        ctx.fail(rule, fn.name, "cmp:%s" % canon(other)[:30], "`%s %s %d` compares an unsigned value with a negative constant: the "
                                 "constant becomes %d, the test has the same outcome for every value (a loop guarded by it never runs / "
                                 "never stops)" % (canon(other)[:30], x["op"], v, side.get("cv", 0) if isinstance(side, dict) else 0),
                                 fn=fn, line=x.get("l", 0), inst="%s:cmp@%s" % (fn.name, x.get("l", 0)))
    if n < 50:
        raise AnalysisBroken("%s: only %d ordering comparisons examined" % (rule, n))
    if not bad:
        ctx.ok(rule, "all", "%d ordering comparisons: none sets an unsigned value against a negative constant" % n)
    return n
