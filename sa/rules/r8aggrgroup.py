"""R8.aggrgroup — ncmpio_intra_node_aggr_init(): the part that divides the ranks of one node into aggregation groups is
evaluated by the analyser for every small node (1..9 processes, 1..5 aggregators per node, every rank) and compared
with the definition: groups of ceil(n/a) consecutive ranks, the first of each group is its aggregator, an aggregator's
list is exactly its group, groups of one disable aggregation.  The memcpy that fills the list is an event: its source
range must lie inside ranks_my_node[0..n) and its length inside the list's allocation (nprocs/aggregators + 1)."""
import concrete
from facts import strip, canon, walk
from frontend import AnalysisBroken
import patterns


def check(ctx, fn, rule):
    # region: from the statement computing naggrs_my_node (a MIN over num_aggrs_per_node) to the release of ranks_my_node
    start = None
    stop_call = None
    for b, i, e in fn.elements():
        if e.get("k") == "asg" and "num_aggrs_per_node" in canon(e["b"]) and "nprocs_my_node" in canon(e["b"]) and start is None:
            start = (b.id, i)
    frees = [(b, i, c) for b, i, c in patterns.call_sites(fn, lambda n: n in ("NCI_Free_fn", "free")) if canon(c["args"][0]).endswith("ranks_my_node")]
    if start is None or not frees:
        raise AnalysisBroken("%s: the grouping slice of %s was not found" % (rule, fn.name))
    stop_blk = frees[0][0].id
    cells = 0
    bad = None
    for n in range(1, 10):
        for a in range(1, 6):
            for me in range(n):
                events = []
                env = {"$dyn": True, "ncp->num_aggrs_per_node": a, "nprocs_my_node": n, "my_rank_index": me, "ncp->rank": 10 + me,
                       "ncp->nprocs": n, "ranks_my_node": ("P", "RM", 0), "ncp->nonaggr_ranks": ("P", "NA", 0),
                       "ncp->my_aggr": -99, "ncp->num_nonaggrs": 0}
                for k in range(n):
                    env["RM[%d]" % k] = 10 + k
                try:
                    concrete.run_region(fn, start, {stop_blk}, env, events=events, max_steps=400)
                except concrete.Unsupported as u:
                    raise AnalysisBroken("%s: the grouping slice is no longer interpretable: %s" % (fn.name, u))
                except KeyError as u:
                    raise AnalysisBroken("%s: the grouping slice reads an unbound location %s" % (fn.name, u))
                cells += 1
                aa = min(a, n)
                g = -(-n // aa)
                first = me - me % g
                members = list(range(first, min(first + g, n)))
                why = None
                want_aggr = -1 if g == 1 else 10 + first
                if me == first and len(members) == 1:
                    want_aggr = -1
                if env.get("ncp->my_aggr") != want_aggr:
                    why = "my_aggr is %s, the definition gives %s" % (env.get("ncp->my_aggr"), want_aggr)
                for f, args, line in events:
                    if f != "memcpy":
                        continue
                    d, s_, ln = args
                    if not (isinstance(s_, tuple) and isinstance(d, tuple)) or ln is None:
                        raise AnalysisBroken("%s: memcpy arguments not evaluated" % fn.name)
                    cnt = ln // 4
                    if s_[2] + cnt > n:
                        why = "the copy reads ranks_my_node[%d..%d] but only %d ranks are on the node (heap over-read)" % (s_[2], s_[2] + cnt - 1, n)
                    elif d[2] + cnt > n // a + 1:
                        why = "the copy writes %d rank ids into a list allocated for %d" % (cnt, n // a + 1)
                    elif me == first and want_aggr != -1 and [10 + m for m in members] != [env["RM[%d]" % (s_[2] + t)] for t in range(cnt)]:
                        why = "the aggregator's list is ranks %s, its group is %s" % ([env["RM[%d]" % (s_[2] + t)] for t in range(cnt)], [10 + m for m in members])
                if me == first and want_aggr != -1 and env.get("ncp->num_nonaggrs") != len(members):
                    why = why or "num_nonaggrs is %s for a group of %d" % (env.get("ncp->num_nonaggrs"), len(members))
                if why and bad is None:
                    bad = (n, a, me, why)
    inst = "%s:groups" % fn.name
    if bad:
        ctx.fail(rule, fn.name, "groups", "%d processes on the node, %d aggregators per node, rank index %d: %s" % bad, fn=fn, line=fn.line, inst=inst)
    else:
        ctx.ok(rule, inst, "%d (node size, aggregators, rank) cells: groups, aggregator and copy range match the definition" % cells)
    return cells
