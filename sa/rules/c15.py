"""C15 — out-of-range requests rejected; a rejected request changes nothing: structural clauses.

 R4.cover   every public data API that takes start/count/stride calls the validator with its own
            arguments (direction constant matching get/put), and a request the validator rejects either
            never reaches the driver (independent APIs) or reaches it only with NC_REQ_ZERO set in the
            request mode it passes (collective APIs): the driver then takes the zero-length path.
 R4.zero    the zero-length path issues MPI-IO transfers with literal NULL buffer and zero count only.
 R8.coords  check_EINVALCOORDS decided on every ordering of (start, 0, shape) x (count = 0 | > 0) x
            (strict | relaxed) against the documented rule.
 R8.edge    check_EEDGE compared with the documented rule on a bounded grid (not exhaustive: arithmetic).
"""
import re

from absint import ValueDomain, InlineDomain, Explorer, State, TOP, ZERO, ONE, NONZERO, AVal, fin, Budget
from callgraph import slot_of_call
from facts import walk, strip, strip_pre, const_value, show, canon, lvalue_key, macro_of
from frontend import AnalysisBroken
import concrete
import patterns

REQ_ZERO, REQ_COLL = 0x10, 0x1
DATA_SLOTS = {"put_var", "get_var", "put_varn", "get_varn", "iput_var", "iget_var", "bput_var", "iput_varn",
              "iget_varn", "bput_varn"}


class CoverDom(ValueDomain):
    def __init__(self, fn):
        super().__init__(fn)
        self.bad = []

    def tracked(self, key):
        if isinstance(key, str):
            return True
        if key[0] == "v":
            v = self.fn.vars.get(key[1])
            return v is not None and self.fn.type(v["t"]).get("k") in ("int", "uint", "enum")
        return False

    def call_value(self, call, st):
        f = call.get("fn") or ""
        if f == "check_start_count_stride":
            return NONZERO          # the validator rejects the request
        if f in ("sanity_check", "PNC_check_id", "allreduce_error"):
            return ZERO if f != "allreduce_error" else NONZERO
        if f == "MPI_Comm_size":
            return ZERO
        if f.startswith(("NCI_Malloc", "NCI_Calloc")):
            return NONZERO
        return TOP

    def keep_addr_arg(self, call, key, st=None):
        return False

    def on_call(self, call, st, blk, idx):
        f = call.get("fn")
        if f == "check_start_count_stride":
            return st.set("$rej", ONE)
        if f == "MPI_Comm_size":
            a = strip(call["args"][1])
            if a.get("k") == "un":
                k = lvalue_key(a["e"])
                if k is not None:
                    return st.set(k, fin(2))
        slot = slot_of_call(call)
        if slot in DATA_SLOTS and st.has("$rej"):
            mode = self.eval(call["args"][-1], st)
            k1 = mode.k1 if mode.kind == "bits" else (min(mode.s) if mode.kind == "fin" and len(mode.s) == 1 else 0)
            if mode.kind == "fin" and len(mode.s) == 1:
                k1 = next(iter(mode.s))
            if not (k1 & REQ_ZERO):
                self.bad.append((call, slot, repr(mode)))
        return st


def api_kind(name):
    m = re.match(r"^ncmpi_(m?put|m?get|iput|iget|bput)_(var1|vara|vars|varm|varn)(_[a-z]+)?(_all)?$", name)
    return m


def check_cover(ctx, prog):
    n = 0
    for fn in sorted(prog.all_functions(), key=lambda f: f.name):
        m = api_kind(fn.name)
        if not m or fn.static:
            continue
        io, form = m.group(1), m.group(2)
        sites = patterns.call_sites(fn, lambda nm: nm == "check_start_count_stride")
        ctx.functions_analysed.add((fn.unit.name, fn.name))
        n += 1
        inst = fn.name
        if not sites:
            ctx.fail("R4.cover", fn.name, "validator", "%s() takes start/count but never calls "
                     "check_start_count_stride: out-of-range requests reach the driver" % fn.name, fn=fn, line=fn.line)
            continue
        # argument wiring
        b, i, c = sites[0]
        a = c["args"]
        want_read = 1 if "get" in io else 0
        wired = True
        why = []
        if const_value(a[2]) != want_read:
            wired = False
            why.append("direction argument is %s for a %s API" % (const_value(a[2]), io))
        pnames = {p["n"] for p in fn.params}
        for idx, pn in ((4, "start"), (5, "count"), (6, "stride")):
            t = canon(a[idx])
            alt = pn + "s"
            if const_value(a[idx]) == 0 or t in ("NULL", "0"):
                if pn in pnames and not (pn == "stride" and form in ("var1", "vara")) and form != "varn":
                    # a parameter exists but NULL is passed: only acceptable if a local of that name shadows it
                    if pn == "count" and form == "var1":
                        continue
                    wired = False
                    why.append("%s parameter not passed to the validator" % pn)
                continue
            if not (t == pn or t.startswith(pn) or t.startswith(alt + "[") or t.startswith(alt)):
                wired = False
                why.append("validator receives `%s` for %s" % (t, pn))
        if not wired:
            ctx.fail("R4.cover", fn.name, "wiring", "; ".join(why), fn=fn, line=c.get("l", 0))
            continue
        dom = CoverDom(fn)
        init = State()
        for p in fn.params:
            if p["n"] in ("nvars", "num"):
                init = init.set(("v", p["id"], p["n"]), NONZERO)
        try:
            ex = Explorer(fn, dom, max_states=200000).run(init)
        except Budget as e:
            raise AnalysisBroken(str(e))
        ctx.states += ex.visited
        if dom.bad:
            call, slot, mode = dom.bad[0]
            ctx.fail("R4.cover", fn.name, "driver->" + slot, "a request rejected by check_start_count_stride still "
                     "reaches driver->%s with request mode %s (NC_REQ_ZERO not set): the out-of-range region is "
                     "read/written" % (slot, mode), fn=fn, line=call.get("l", 0))
        else:
            ctx.ok("R4.cover", inst, "validator wired to (%s); rejected request never reaches the driver without "
                   "NC_REQ_ZERO" % ", ".join(canon(x)[:12] for x in a[4:7]))
    ctx.min_instances("R4.cover", 500)


def check_zero(ctx, prog):
    fn = ctx.need_fn(prog, "ncmpio_getput_zero_req")
    n = 0
    for b, i, c in patterns.call_sites(fn, lambda nm: nm.startswith("MPI_File_read") or nm.startswith("MPI_File_write")):
        n += 1
        a = c["args"]
        bi = 2 if "_at" in c["fn"] else 1
        inst = "ncmpio_getput_zero_req:%s@%d" % (c["fn"], n)
        if const_value(a[bi]) == 0 and const_value(a[bi + 1]) == 0:
            ctx.ok("R4.zero", inst, "NULL buffer, zero count", nontrivial=False)
        else:
            ctx.fail("R4.zero", fn.name, c["fn"], "zero-length participation passes (%s, %s) instead of (NULL, 0)"
                     % (show(a[bi]), show(a[bi + 1])), fn=fn, line=c.get("l", 0), inst=inst)
    ctx.require(n >= 4, "ncmpio_getput_zero_req: expected >= 4 MPI-IO calls, found %d" % n)


def check_coords(ctx, prog):
    fn = ctx.need_fn(prog, "check_EINVALCOORDS", "var_getput.c")
    pn = [p["n"] for p in fn.params]
    ctx.require(len(pn) == 4, "check_EINVALCOORDS: expected 4 parameters")
    cells = 0
    bad = None
    try:
        for strict in (0, 1):
            for shape in (0, 1, 3):
                for start in (-2, -1, 0, 1, 2, 3, 4):
                    for count in (0, 1, 2):
                        cells += 1
                        r = concrete.run(fn, dict(zip(pn, (strict, start, count, shape))))
                        if strict:
                            want = start < 0 or start >= shape
                        else:
                            want = start < 0 or start > shape or (start == shape and count > 0)
                        if bool(r) != want:
                            bad = bad or (strict, start, count, shape, r)
    except concrete.Unsupported as u:
        raise AnalysisBroken("check_EINVALCOORDS is no longer a pure comparison function: %s" % u)
    if bad:
        ctx.fail("R8.coords", fn.name, "strict=%d" % bad[0], "for strict=%d start=%d count=%d shape=%d the validator "
                 "returns %s, the documented rule says %s" % (bad[0], bad[1], bad[2], bad[3], bad[4],
                                                               "NC_EINVALCOORDS" if not bad[4] else "NC_NOERR"),
                 fn=fn, line=fn.line)
    else:
        ctx.ok("R8.coords", "check_EINVALCOORDS", "%d cells covering every ordering of start/0/shape, count=0/>0, both modes" % cells)
    # call sites pass (flag & STRICT, start[i], len, shape[i]) with index-aligned arguments
    u = prog.unit("var_getput.c")
    for name, f in sorted(u.functions.items()):
        for b, i, c in patterns.call_sites(f, lambda nm: nm == "check_EINVALCOORDS"):
            a = c["args"]
            t1, t3 = canon(a[1]), canon(a[3])
            i1 = re.findall(r"\[([^\]]+)\]", t1)
            i3 = re.findall(r"\[([^\]]+)\]", t3)
            inst = "%s:check_EINVALCOORDS@%s" % (name, t1)
            if i1 and i3 and i1[-1] == i3[-1] and "start" in t1 and "shape" in t3 and \
                    "NC_MODE_STRICT_COORD_BOUND" in canon(a[0]):
                ctx.ok("R8.coords", inst, "(%s, %s) index-aligned, strict bit passed" % (t1, t3), nontrivial=False)
            else:
                ctx.fail("R8.coords", name, "call", "check_EINVALCOORDS(%s, %s, %s, %s): start/shape not index-aligned "
                         "or strict bit missing" % tuple(canon(x)[:30] for x in a), fn=f, line=c.get("l", 0), inst=inst)


def check_edge(ctx, prog):
    fn = ctx.need_fn(prog, "check_EEDGE", "var_getput.c")
    pn = [p["n"] for p in fn.params]
    cells = 0
    bad = None
    BIG = (1 << 61, 1 << 62, (1 << 63) - 1)
    grid = []
    for shape in range(0, 5):
        for start in range(0, 5):
            for count in range(0, 6):
                for stride in (None, 1, 2, 3):
                    grid.append((shape, start, count, stride))
    # extreme strides and shapes: the arithmetic is signed 64-bit, a sum or product that leaves that range is undefined
    for shape in (4, 10, 1 << 40, (1 << 63) - 1):
        for start in (0, 1, 3):
            for count in (0, 1, 2, 3, 5):
                for stride in BIG:
                    grid.append((shape, start, count, stride))
    try:
        for shape, start, count, stride in grid:
            cells += 1
            env = {"*" + pn[0]: start, "*" + pn[1]: count, "*" + pn[3]: shape,
                   pn[0]: 1, pn[1]: 1, pn[3]: 1, pn[2]: 0 if stride is None else 1, "$trap64": True}
            if stride is not None:
                env["*" + pn[2]] = stride
            if stride is None:
                want = count > shape or start + count > shape
            else:
                want = count > shape or start + count > shape or \
                    (count > 0 and start + (count - 1) * stride >= shape)
            try:
                concrete.run_region(fn, (fn.entry, 0), set(), env, max_steps=200)
                r = env.get("$ret")
            except concrete.Overflow64 as o:
                bad = bad or (start, count, stride, shape, "a signed 64-bit overflow in `%s`; the rule says %s" % (o, "NC_EEDGE" if want else "accept"))
                continue
            if bool(r) != want:
                bad = bad or (start, count, stride, shape, r)
    except concrete.Unsupported as u:
        raise AnalysisBroken("check_EEDGE is no longer a pure arithmetic/comparison function: %s" % u)
    if bad:
        ctx.fail("R8.edge", fn.name, "rule", "for start=%s count=%s stride=%s shape=%s the validator returns %s"
                 % bad, fn=fn, line=fn.line)
    else:
        ctx.ok("R8.edge", "check_EEDGE", "%d grid points (small values, and strides / shapes up to 2^63-1 under a 64-bit overflow trap) "
               "agree with the rule" % cells)


def run(ctx):
    ctx.rule("R4.cover", "data APIs wire their own start/count/stride and direction into the validator; a rejected "
             "request reaches the driver only with NC_REQ_ZERO (collective) or not at all (independent)")
    ctx.rule("R4.zero", "zero-length participation transfers (NULL, 0)")
    ctx.rule("R8.coords", "check_EINVALCOORDS on every ordering of its inputs vs the documented strict/relaxed rule; "
             "call sites index-aligned")
    ctx.rule("R8.edge", "check_EEDGE vs the documented rule on a bounded grid (bounded, not exhaustive)")
    ctx.assume("offset arithmetic of accepted requests (run-time values) is not decided; R8.edge is a bounded "
               "enumeration because the function uses arithmetic")
    prog = ctx.program(names=["var_getput.c", "ncmpio_wait.c"])
    check_cover(ctx, prog)
    check_zero(ctx, prog)
    check_coords(ctx, prog)
    check_edge(ctx, prog)
    from rules import r8merge
    ctx.rule("R8.merge", "merge_requests: merged segments are sorted, disjoint, cover exactly the requested bytes, first request "
             "wins (bounded)")
    n = r8merge.check(ctx, ctx.need_fn(prog, "merge_requests"), "R8.merge",
                      {"off": "*segs[%d].off", "len": "*segs[%d].len", "addr": "*segs[%d].buf_addr", "n": "*nsegs"})
    ctx.require(n >= 1000, "R8.merge: only %d segment lists evaluated" % n)
    from rules import r8recsplit
    ctx.rule("R8.recsplit", "ncmpio_add_record_requests: the per-record sub-requests address exactly the records of the request (bounded)")
    gprog = ctx.program(names=["ncmpio_i_getput.c"])
    nr = r8recsplit.check(ctx, ctx.need_fn(gprog, "ncmpio_add_record_requests"), "R8.recsplit")
    ctx.require(nr >= 90, "R8.recsplit: only %d requests evaluated" % nr)
    from rules import r5recskip
    ctx.rule("R5.recskip", "where the record dimension is dropped, every per-dimension array handed on with the reduced count is advanced")
    r5recskip.check(ctx, prog, "R5.recskip", min_instances=2)
    from rules import r8contig
    ctx.rule("R8.contig", "a request classified contiguous by is_request_contiguous is one run of consecutive elements (bounded)")
    fprog = ctx.program(names=["ncmpio_filetype.c"])
    nc_ = r8contig.check(ctx, ctx.need_fn(fprog, "is_request_contiguous"), "R8.contig")
    ctx.require(nc_ >= 1000, "R8.contig: only %d requests evaluated" % nc_)
    from rules import r8flat
    ctx.rule("R8.flatten", "vars_flatten addresses exactly the requested elements, in packed-buffer order (bounded)")
    nf = r8flat.check(ctx, ctx.need_fn(prog, "vars_flatten"), "R8.flatten", "segs")
    ctx.require(nf >= 200, "R8.flatten: only %d requests evaluated" % nf)
    from rules import r10mismatch
    ctx.rule("R10.iomismatch", "NC_EIOMISMATCH is raised under an inequality (`!=`) of the buffer's and the request's element counts at "
             "every site, never under an ordering")
    _p = ctx.program(groups=["lib"])
    _ev = None
    for u in _p.units.values():
        if "NC_EIOMISMATCH" in u.macros:
            try:
                _ev = int(u.macros["NC_EIOMISMATCH"].strip("() "), 0)
            except ValueError:
                pass
            break
    ctx.require(_ev is not None, "macro NC_EIOMISMATCH not found / not a constant")
    r10mismatch.check(ctx, _p, "R10.iomismatch", _ev, 5)
