"""R9.msgbuf — a message composed into a fixed-size character array fits it.

Every sprintf / strcpy / strcat whose destination is a character array of constant size N (a local, a static or a member) is
a site.  The longest text the call can produce is computed from the format (and, for strcat, from what the array can
already hold when the same function composed it by earlier calls on the same array): literal characters count as they
are, integer conversions by the widest value of their C type, %g/%e by their longest rendering at the given precision, %c
as 1; a %s (or a strcpy/strcat source) counts as the length of a literal, N'-1 for a character array of size N', the
longest literal a called function returns when all its returns are literals, and is *unbounded* for anything else (a
pointer to a caller's or heap string, a libc message).  The site holds when the total stays below N."""
import re
from facts import walk, strip, strip_pre, canon
from frontend import AnalysisBroken

INT_MAX_LEN = {"": 11, "h": 6, "hh": 4, "l": 20, "ll": 20, "z": 20, "j": 20, "t": 20}
UNB = float("inf")


def _ret_literals(prog, fn, name, depth=0):
    """longest string literal the function can return when every return is a literal (or NULL); else None"""
    callee = prog.resolve_call(fn, name)
    if callee is None or depth > 1:
        return None
    mx = 0
    nret = 0
    for b, i, e in callee.elements():
        s = strip(e)
        if isinstance(s, dict) and s.get("k") == "ret" and s.get("e") is not None:
            nret += 1
            r = strip_pre(strip(s["e"]))
            while isinstance(r, dict) and r.get("k") == "cast":
                r = strip(r["e"])
            if isinstance(r, dict) and r.get("k") == "str":
                mx = max(mx, len(r.get("s", "")))
            elif isinstance(r, dict) and r.get("cv") == 0:
                pass
            else:
                return None
    return mx if nret else None


def _str_bound(prog, fn, a):
    """upper bound of strlen(a)"""
    x = strip_pre(strip(a))
    while isinstance(x, dict) and x.get("k") == "cast":
        x = strip_pre(strip(x["e"]))
    if not isinstance(x, dict):
        return UNB
    if x.get("k") == "str":
        return len(x.get("s", ""))
    if x.get("k") == "cond":
        return max(_str_bound(prog, fn, x["a"]), _str_bound(prog, fn, x["b"]))
    t = fn.type(x.get("t")) if x.get("t") is not None else {}
    if t.get("k") == "arr" and isinstance(t.get("n"), int):
        return t["n"] - 1
    if x.get("k") == "call" and x.get("fn"):
        r = _ret_literals(prog, fn, x["fn"])
        if r is not None:
            return r
    return UNB


def _fmt_bound(prog, fn, fmt, args):
    """longest output of the format with the given arguments"""
    total = 0
    ai = 0
    pos = 0
    why = None
    for m in re.finditer(r"%([-+ #0]*)(\*|\d+)?(?:\.(\*|\d+))?(hh|h|ll|l|z|j|t|L)?([diouxXeEfFgGcspn%])", fmt):
        total += m.start() - pos
        pos = m.end()
        flags, width, prec, lenm, conv = m.groups()
        if conv == "%":
            total += 1
            continue
        if width == "*" or prec == "*":
            return UNB, "a `*` width or precision"
        w = int(width) if width else 0
        if conv in "di":
            n = INT_MAX_LEN.get(lenm or "", 20)
        elif conv in "ouxX":
            n = {"": 11, "h": 6, "hh": 3}.get(lenm or "", 22)
        elif conv in "eEgG":
            p = int(prec) if prec else 6
            n = p + 9            # sign, digit, point, p digits, e+XXX
        elif conv in "fF":
            p = int(prec) if prec else 6
            n = 311 + p          # DBL_MAX has 309 integer digits
        elif conv == "c":
            n = 1
        elif conv == "p":
            n = 18
        elif conv == "s":
            n = _str_bound(prog, fn, args[ai]) if ai < len(args) else UNB
            if prec:
                n = min(n, int(prec))
            if n == UNB and why is None:
                why = "`%%s` of %s, whose length nothing bounds" % canon(strip(args[ai]))[:50] if ai < len(args) else "`%s` without argument"
        else:
            n = 0
        ai += 1
        total += max(n, w)
    total += len(fmt) - pos
    return total, why


def check(ctx, prog, rule, min_sites, units=None):
    n = 0
    for fn in prog.all_functions():
        if units is not None and fn.unit.name.split("/")[-1] not in units:
            continue
        held = {}            # array -> longest content composed so far in this function (straight-line approximation)
        for b, i, e in fn.elements():
            c = strip(e)
            if not (isinstance(c, dict) and c.get("k") == "call" and c.get("fn") in ("sprintf", "strcpy", "strcat") and c.get("args")):
                continue
            d = strip(c["args"][0])
            t = fn.type(d.get("t")) if isinstance(d, dict) and d.get("t") is not None else {}
            if t.get("k") != "arr" or not isinstance(t.get("n"), int):
                continue
            size = t["n"]
            dst = canon(d)
            n += 1
            ctx.functions_analysed.add((fn.unit.name, fn.name))
            why = None
            if c["fn"] == "sprintf":
                f = strip_pre(strip(c["args"][1])) if len(c["args"]) > 1 else None
                while isinstance(f, dict) and f.get("k") == "cast":
                    f = strip(f["e"])
                if not (isinstance(f, dict) and f.get("k") == "str"):
                    total, why = UNB, "a format that is not a literal"
                else:
                    total, why = _fmt_bound(prog, fn, f.get("s", ""), c["args"][2:])
                held[dst] = total
            else:
                src = _str_bound(prog, fn, c["args"][1]) if len(c["args"]) > 1 else UNB
                if src == UNB:
                    why = "a source string (%s) whose length nothing bounds" % canon(strip(c["args"][1]))[:50]
                total = src + (held.get(dst, size - 1) if c["fn"] == "strcat" else 0)
                held[dst] = total
            inst = "%s:%s(%s)@%s" % (fn.name, c["fn"], dst, c.get("l"))
            if total < size:
                ctx.ok(rule, inst, "at most %d characters into %s[%d]" % (total, dst, size))
            else:
                ctx.fail(rule, fn.name, "%s(%s)" % (c["fn"], dst), "%s into %s[%d] can produce %s characters plus the terminator%s" %
                         (c["fn"], dst, size, "an unbounded number of" if total == UNB else total, (": " + why) if why else ""),
                         fn=fn, line=c.get("l", fn.line), inst=inst)
    if n < min_sites:
        raise AnalysisBroken("%s: only %d message-buffer sites found (expected >= %d)" % (rule, n, min_sites))
    return n
