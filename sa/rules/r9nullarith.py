"""R9.nullarith — a pointer parameter that the function itself tests against NULL somewhere (so NULL is a legal argument:
"statuses may be NULL") is not used in pointer arithmetic, indexed or dereferenced where no such test protects it.
`statuses + nput` handed to a callee with statuses == NULL is a bogus non-NULL pointer the callee writes through.
Contradiction rule: the NULL test is the code's own statement that NULL can arrive; a use is reported only when the NULL
side of such a test can reach it."""
from facts import walk, strip, strip_pre, canon, const_value
from frontend import AnalysisBroken
import cfg


def _null_tested(fn, pname):
    """blocks whose condition tests `p != NULL` / `p == NULL` / `p` / `!p`"""
    out = []
    for bid, blk in fn.blocks.items():
        c = blk.cond
        if c is None:
            continue
        cc = strip_pre(c)
        cc = strip(cc) if isinstance(cc, dict) else cc
        pol = None
        if isinstance(cc, dict) and cc.get("k") == "bin" and cc.get("op") in ("==", "!=") and const_value(cc["b"]) == 0 and canon(cc["a"]) == pname:
            pol = (cc["op"] == "!=")
        elif isinstance(cc, dict) and cc.get("k") == "ref" and canon(cc) == pname:
            pol = True
        elif isinstance(cc, dict) and cc.get("k") == "un" and cc.get("op") == "!" and canon(cc["e"]) == pname:
            pol = False
        if pol is not None:
            out.append((bid, pol))
    return out


def check(ctx, prog, rule, scope=None, min_params=5):
    nparams = 0
    for fn in prog.all_functions():
        if scope is not None and not scope(fn):
            continue
        for p in fn.params:
            if fn.type(p["t"]).get("k") != "ptr":
                continue
            tests = _null_tested(fn, p["n"])
            if not tests:
                continue
            nparams += 1
            ctx.functions_analysed.add((fn.unit.name, fn.name))
            doms = cfg.dominators(fn)
            bad = None
            for b, i, e in fn.elements():
                for x in walk(e, into_pre=True):
                    use = None
                    if x.get("k") == "bin" and x.get("op") in ("+", "-") and canon(x["a"]) == p["n"]:
                        use = canon(x)
                    elif x.get("k") == "idx" and canon(x["b"]) == p["n"]:
                        use = canon(x)
                    elif x.get("k") == "un" and x.get("op") == "*" and canon(x["e"]) == p["n"]:
                        use = canon(x)
                    if use is None:
                        continue
                    # protected: dominated by the non-NULL side of one of the function's own tests, or inside `p ? .. : ..`
                    ok = False
                    for tb, pol in tests:
                        blk = fn.blocks[tb]
                        good = blk.succs[0] if pol else blk.succs[1]
                        other = blk.succs[1] if pol else blk.succs[0]
                        if good is not None and (good == b.id or good in doms.get(b.id, set())) and good != other:
                            ok = True
                        # the NULL side leaves the function: everything after the test is protected
                        if other is not None and tb in doms.get(b.id, set()) and b.id != tb:
                            ob = fn.blocks[other]
                            if ob.noreturn or (fn.exit in ob.succs and len([s for s in ob.succs if s is not None]) == 1 and
                                               not (good == other)):
                                if b.id not in _reach_from(fn, other):
                                    ok = True
                    if not ok:
                        for y in walk(e, into_pre=True):
                            if y.get("k") == "cond" and p["n"] in canon(y.get("c", {})) and any(z is x for z in walk(y, into_pre=True)):
                                ok = True
                    if not ok:
                        # ... and reachable with the pointer known to be NULL: the NULL side of one of the tests leads here (a
                        # defensive test *after* the last use says nothing about the uses before it)
                        reachable = False
                        for tb, pol in tests:
                            blk = fn.blocks[tb]
                            null_side = blk.succs[1] if pol else blk.succs[0]
                            if null_side is not None and b.id in _reach_from(fn, null_side):
                                reachable = True
                        if not reachable:
                            ok = True
                    if not ok and bad is None:
                        bad = (use, x.get("l", 0))
            inst = "%s:%s" % (fn.name, p["n"])
            if bad:
                ctx.fail(rule, fn.name, p["n"], "`%s` is tested against NULL elsewhere in this function, but `%s` (line %s) uses it where no test "
                         "protects it: with a NULL argument a bogus pointer is dereferenced or handed to a callee" % (p["n"], bad[0][:50], bad[1]),
                         fn=fn, line=bad[1], inst=inst)
            else:
                ctx.ok(rule, inst, "every arithmetic / indexed / dereferencing use sits on the non-NULL side of a test", nontrivial=False)
    if nparams < min_params:
        raise AnalysisBroken("%s: only %d NULL-tested pointer parameters found" % (rule, nparams))
    return nparams


def _reach_from(fn, start):
    seen, st = set(), [start]
    while st:
        b = st.pop()
        if b in seen or b is None:
            continue
        seen.add(b)
        st.extend(fn.blocks[b].succs)
    return seen
