"""R10.iomismatch — "the buffer describes as many elements as the request selects" is an equality.

Every place that raises NC_EIOMISMATCH does so under a comparison of two element counts.  The comparison has to be `!=`:
with an ordering (`>`, `<`) one direction of the mismatch is accepted, and the MPI-IO call is then sized from the buffer
while the file view is built from start/count/stride - a longer buffer writes past the selected region (into the
following elements, the next variable, or beyond the last record)."""
import cfg
from facts import walk, strip, canon, const_value
from frontend import AnalysisBroken


def check(ctx, prog, rule, err_value, min_sites):
    n = 0
    for fn in prog.all_functions():
        dom = None
        for b, i, e in fn.elements():
            s = strip(e)
            if not (isinstance(s, dict) and s.get("k") in ("asg", "ret")):
                continue
            v = const_value(s.get("b") if s.get("k") == "asg" else s.get("e"))
            if v != err_value:
                continue
            # the nearest branch whose taken side is (or dominates) this block
            dom = dom or cfg.dominators(fn)
            guard = None
            cands = [d for d in dom.get(b.id, ()) if d != b.id] + [p for p in b.preds]
            best = None
            for d in cands:
                blk = fn.blocks[d]
                if blk.cond is None or len(blk.succs) != 2:
                    continue
                t = blk.succs[0]
                if t is not None and (t == b.id or t in dom.get(b.id, ())):
                    if best is None or d in dom.get(best, ()) is False:
                        pass
                    # prefer the closest: the one dominated by all other candidates
                    if best is None or best in dom.get(d, ()):
                        best = d
            if best is None:
                continue
            c = strip(fn.blocks[best].cond)
            n += 1
            site = "%s@%s" % (canon(c)[:60], fn.blocks[best].tl)
            inst = "%s:%s" % (fn.name, site)
            ctx.functions_analysed.add((fn.unit.name, fn.name))
            if isinstance(c, dict) and c.get("k") == "bin" and c.get("op") == "!=":
                ctx.ok(rule, inst, "raised under an inequality of the two counts")
            else:
                ctx.fail(rule, fn.name, site, "NC_EIOMISMATCH is raised under `%s`, not under an inequality (`!=`) of the two element "
                         "counts: a buffer description that is longer (or shorter) than the request in the accepted direction passes, "
                         "and the transfer is sized from the buffer" % canon(c)[:80], fn=fn, line=fn.blocks[best].tl or fn.line, inst=inst)
    if n < min_sites:
        raise AnalysisBroken("%s: only %d NC_EIOMISMATCH sites found" % (rule, n))
    return n
