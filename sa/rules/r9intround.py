"""R9a.intround — an element count read from the header (bounded only by NC_MAX_INT: NC_MAX_DIMS, NC_MAX_ATTRS, NC_MAX_VARS)
is not incremented, rounded up or multiplied in 32-bit signed arithmetic: `n + 63` for n = 2^31-1 is undefined (reported
by the undefined-behaviour sanitizer; in practice a negative count that becomes a huge allocation size).  Every `+` / `*`
with a positive constant whose other operand is the `ndefined` field or local of a header array, evaluated in `int`, is a
site; arithmetic carried out in a 64-bit or unsigned type is not."""
from facts import walk, strip, canon, const_value
from frontend import AnalysisBroken


def check(ctx, prog, rule, units, min_sites):
    n = 0
    nall = 0
    for fn in prog.all_functions():
        if fn.unit.name.split("/")[-1] not in units:
            continue
        seen = set()
        for b, i, e in fn.elements():
            for x in walk(e, into_pre=True):
                if not (isinstance(x, dict) and x.get("k") == "bin" and x.get("op") in ("+", "*")):
                    continue
                for a, c in ((x["a"], x["b"]), (x["b"], x["a"])):
                    cv = const_value(c)
                    sa = strip(a)
                    while isinstance(sa, dict) and sa.get("k") == "cast":
                        inner = strip(sa["e"])
                        # a widening / unsigned cast of the operand is what makes the arithmetic safe: stop at it
                        tt = fn.type(sa.get("t")) if sa.get("t") is not None else {}
                        if tt.get("bits", 0) >= 64 or tt.get("k") == "uint":
                            break
                        sa = inner
                    if cv is None or cv < 1 or not isinstance(sa, dict):
                        continue
                    txt = canon(sa)
                    if not (txt.endswith("ndefined") or txt == "ndefined"):
                        continue
                    key = (canon(x), x.get("l"))
                    if key in seen:
                        continue
                    seen.add(key)
                    nall += 1
                    t = fn.type(x.get("t")) if x.get("t") is not None else {}
                    inst = "%s:%s@%s" % (fn.name, canon(x)[:50], x.get("l"))
                    ctx.functions_analysed.add((fn.unit.name, fn.name))
                    if t.get("k") == "int" and t.get("bits") == 32:
                        n += 1
                        ctx.fail(rule, fn.name, canon(x)[:50], "`%s` is evaluated in 32-bit signed int; the count comes from the header and is "
                                 "bounded only by NC_MAX_INT, so the sum / product overflows (undefined) for counts near 2^31" % canon(x)[:60],
                                 fn=fn, line=x.get("l", fn.line), inst=inst)
                    else:
                        ctx.ok(rule, inst, "evaluated in %s" % t.get("c", "a wide type"))
    if nall < min_sites:
        raise AnalysisBroken("%s: only %d arithmetic sites on header element counts found" % (rule, nall))
    return nall
