"""C20 — offline utilities agree with the library and the format.

 R7.spec(off)   ncoffsets' own header parser equals the specification grammar as well.
 R7.spec(val)   ncvalidator's own header parser, summarised per version from its CFG, equals the specification grammar,
                hence also the library's encoder/decoder (which C03/C04 compare with the same grammar).
 R7.len(val)    ncvalidator's header-size function adds up the fields its parser reads.
 R1.diffcount   ncmpidiff / cdfdiff: every reported difference (a "DIFF" message) increments a difference counter on
                all paths of its mismatch branch, also when output is suppressed.
 R1.diffexit    every difference counter flows into the value that decides the exit status.
 R10.difftypes  the value comparison dispatches on every external type of the format (NC_BYTE .. NC_UINT64).
 R8.partition   ncmpidiff's division of a variable among processes tiles the dimension exactly (bounded).
ncmpidump / ncmpigen / ncoffsets output equality with an independent decoder is not decided."""
from facts import walk, strip, strip_pre, const_value, show, canon, lvalue_key
from frontend import AnalysisBroken
import cfg
import patterns
from rules import r7, r8part

QUIET = ("quiet", "verbose")
TYPES = ["NC_BYTE", "NC_CHAR", "NC_SHORT", "NC_INT", "NC_FLOAT", "NC_DOUBLE", "NC_UBYTE", "NC_USHORT", "NC_UINT",
         "NC_INT64", "NC_UINT64"]


def is_presentation(c):
    t = canon(c)
    names = {x["n"] for x in walk(c, into_pre=True) if x.get("k") == "ref"}
    return bool(names) and names <= {"quiet", "verbose", "rank"}


def counters_in(blk):
    out = []
    for e in blk.elems:
        for x in walk(e):
            if x.get("k") == "un" and "++" in x.get("op", ""):
                n = strip(x["e"])
                if isinstance(n, dict) and n.get("k") == "ref" and "DIFF" in n["n"].upper():
                    out.append(n["n"])
            if x.get("k") == "asg" and x.get("op") == "+=":
                n = strip(x["a"])
                if isinstance(n, dict) and n.get("k") == "ref" and "DIFF" in n["n"].upper():
                    out.append(n["n"])
    return out


def check_diffcount(ctx, fn, tool):
    n = 0
    doms = cfg.dominators(fn)
    for b, i, c in patterns.call_sites(fn, lambda nm: nm in ("printf", "sprintf", "fprintf")):
        fmt = None
        for a in c.get("args", [])[:3]:
            s = strip(a)
            if isinstance(s, dict) and s.get("k") == "str":
                fmt = s.get("s")
                break
        if not fmt or not fmt.startswith("DIFF"):
            continue
        n += 1
        inst = "%s:%s#%d" % (tool, fmt[:38].strip(), n)
        # nearest dominating branch that is a real comparison (not quiet / verbose / rank)
        D = None
        cur = b.id
        order = sorted(doms.get(b.id, ()), key=lambda d: len(doms.get(d, ())), reverse=True)
        for d in order:
            blk = fn.blocks[d]
            if d == b.id or blk.cond is None or len(blk.succs) != 2 or blk.term == "switch":
                continue
            if is_presentation(blk.cond):
                continue
            t, f = blk.succs
            in_t = t is not None and (b.id == t or b.id in patterns.region(fn, t, {f} if f is not None else set()))
            in_f = f is not None and (b.id == f or b.id in patterns.region(fn, f, {t} if t is not None else set()))
            if in_t != in_f:
                entry = t if in_t else f
                j = patterns.ipdom(fn, d)
                reg = patterns.region(fn, entry, {j} if j is not None else set()) | {entry}
                if any(counters_in(fn.blocks[x]) for x in reg if x in fn.blocks):
                    D = (d, entry)
                    break
        if D is None:
            ctx.fail("R1.diffcount", fn.name, fmt[:40], "no comparison branch encloses this DIFF message", fn=fn,
                     line=c.get("l", fn.line), inst=inst)
            continue
        d, entry = D
        join = patterns.ipdom(fn, d)
        # can the join (or the exit) be reached from the mismatch side without passing a counter increment?
        seen = set()
        st = [entry]
        leak = None
        while st:
            x = st.pop()
            if x in seen:
                continue
            seen.add(x)
            blk = fn.blocks[x]
            if counters_in(blk):
                continue
            if x == join or x == fn.exit:
                leak = x
                break
            if blk.noreturn:
                continue
            # the loop back edge of an enclosing loop also counts as leaving the mismatch branch
            st.extend(s for s in blk.succs if s is not None)
        if leak is None:
            ctx.ok("R1.diffcount", inst, "every path of the mismatch branch (under `%s`) increments a difference counter" %
                   canon(fn.blocks[d].cond)[:50])
        else:
            ctx.fail("R1.diffcount", fn.name, fmt[:40].strip(), "the mismatch branch `%s` that prints this message can complete "
                     "without incrementing a difference counter (e.g. when output is suppressed): the tool exits with "
                     "'no difference'" % canon(fn.blocks[d].cond)[:60], fn=fn, line=c.get("l", fn.line), inst=inst)
    return n


def check_diffexit(ctx, fn, tool):
    counters = set()
    for bid, blk in fn.blocks.items():
        counters.update(counters_in(blk))
    ctx.require(counters, "%s: no difference counter found" % tool)
    exits = [c for b, i, c in patterns.call_sites(fn, lambda nm: nm == "exit")]
    rets = [e for b, i, e in fn.elements() if e.get("k") == "ret" and e.get("e") is not None]
    S = set()
    for c in exits:
        for a in c.get("args", []):
            if const_value(a) is None:
                S |= {x["n"] for x in walk(a, into_pre=True) if x.get("k") == "ref"}
    for e in rets:
        if const_value(e["e"]) is None:
            S |= {x["n"] for x in walk(e["e"], into_pre=True) if x.get("k") == "ref"}
    changed = True
    while changed:
        changed = False
        for b, i, e in fn.elements():
            for x in walk(e):
                if x.get("k") == "asg":
                    l = strip(x["a"])
                    if isinstance(l, dict) and l.get("k") == "ref" and l["n"] in S:
                        new = {y["n"] for y in walk(x["b"], into_pre=True) if y.get("k") == "ref"} - S
                        if new:
                            S |= new
                            changed = True
                if x.get("k") == "call" and x.get("fn") in ("MPI_Reduce", "MPI_Allreduce"):
                    a0, a1 = strip(x["args"][0]), strip(x["args"][1])
                    if a0.get("k") == "un" and a1.get("k") == "un":
                        s0, s1 = strip(a0["e"]), strip(a1["e"])
                        if s1.get("k") == "ref" and s1["n"] in S and s0.get("k") == "ref" and s0["n"] not in S:
                            S.add(s0["n"])
                            changed = True
    for cn in sorted(counters):
        inst = "%s:%s" % (tool, cn)
        if cn in S:
            ctx.ok("R1.diffexit", inst, "flows into the exit status")
        else:
            ctx.fail("R1.diffexit", fn.name, cn, "the difference counter %s does not reach the value that decides the exit "
                     "status: those differences are reported as 'identical'" % cn, fn=fn, line=fn.line, inst=inst)


def check_types(ctx, fn, tool, prog):
    """switches over the external type in the value / attribute comparison cover all 11 types"""
    n = 0
    for sw in patterns.switches(fn):
        labels = set()
        for lab in sw.get("labels", []) if isinstance(sw, dict) else []:
            pass
    # generic: collect case labels by macro name per switch head
    for bid, blk in fn.blocks.items():
        if blk.term != "switch":
            continue
        labs = set()
        has_default = False
        for s in blk.succs:
            if s is None:
                continue
            lab = fn.blocks[s].label or {}
            if lab.get("k") == "default":
                has_default = True
            if lab.get("m"):
                labs.add(lab["m"] if isinstance(lab["m"], str) else lab["m"][-1])
        if not labs & set(TYPES):
            continue
        n += 1
        inst = "%s:switch@%d" % (tool, n)
        missing = [t for t in TYPES if t not in labs]
        if not missing:
            ctx.ok("R10.difftypes", inst, "all 11 external types have a comparison case")
        else:
            ctx.fail("R10.difftypes", fn.name, "switch#%d" % n, "the type dispatch at line %s has no case for %s: values of "
                     "that type are never compared" % (blk.tl, ", ".join(missing)), fn=fn, line=blk.tl or fn.line, inst=inst)
    # if / else-if chains on `E == NC_<type>`
    def link(blk):
        c = strip_pre(blk.cond) if blk.cond is not None else None
        if isinstance(c, dict) and c.get("k") == "bin" and c.get("op") == "==" and len(blk.succs) == 2:
            m = None
            for x in walk(c["b"], into_pre=True):
                for mm in (x.get("m") or []):
                    if mm in TYPES:
                        m = mm
            if m:
                return canon(c["a"]), m
        return None
    links = {bid: link(blk) for bid, blk in fn.blocks.items()}
    targets = set()
    for bid, lk in links.items():
        if lk:
            f = fn.blocks[bid].succs[1]
            if f is not None and links.get(f) and links[f][0] == lk[0]:
                targets.add(f)
    for bid, lk in sorted(links.items()):
        if not lk or bid in targets:
            continue
        types = []
        x = bid
        while x is not None and links.get(x) and links[x][0] == lk[0]:
            types.append(links[x][1])
            x = fn.blocks[x].succs[1]
        if len(types) < 5:
            continue
        n += 1
        inst = "%s:chain@%d(%s)" % (tool, n, lk[0][:20])
        missing = [t for t in TYPES if t not in types]
        if not missing:
            ctx.ok("R10.difftypes", inst, "all 11 external types have a branch")
        else:
            ctx.fail("R10.difftypes", fn.name, "chain#%d" % n, "the if/else-if type dispatch on `%s` at line %s has no branch for "
                     "%s: values of that type are never compared" % (lk[0], fn.blocks[bid].tl, ", ".join(missing)), fn=fn,
                     line=fn.blocks[bid].tl or fn.line, inst=inst)
    return n


def _once_dom():
    from rules import c11
    from absint import TOP, NONZERO, ONE

    class OnceDom(c11.Dom):
        """the faulted call site fails the first time it runs; later executions (loop iterations) may succeed"""
        def call_value(self, call, st):
            if call is self.target:
                return TOP if st.has("$again") else NONZERO
            return c11.Dom.call_value(self, call, st)

        def on_call(self, call, st, blk, idx):
            if call is self.target and st.has("$f"):
                return st.set("$again", ONE)
            return c11.Dom.on_call(self, call, st, blk, idx)
    return OnceDom


def check_sticky(ctx, vprog):
    OnceDom = _once_dom()
    """ncvalidator: a non-zero verdict returned by any of its own int functions is never dropped on the way to the exit
    status (the C11 fault-injection rule applied to the validator's verdicts, NC_ENULLPAD included)."""
    from rules import c11
    from absint import Explorer, State, Budget, NONZERO, ONE
    unit = [u for n, u in vprog.units.items() if n.endswith("ncvalidator.c")][0]
    verdict_fns = set()
    for name, fn in unit.functions.items():
        if name == "main" or fn.type(fn.ret).get("k") != "int":
            continue
        rets = [e["e"] for b, i, e in fn.elements() if e.get("k") == "ret" and e.get("e") is not None]

        def verdict_expr(x):
            v = const_value(x)
            if v is not None:
                return v <= 0
            sx = strip(x)
            if isinstance(sx, dict) and sx.get("k") == "cond":
                return verdict_expr(sx["a"]) and verdict_expr(sx["b"])
            return canon(x) in ("err", "status")
        if rets and all(verdict_expr(r) for r in rets) and any(const_value(r) != 0 for r in rets):
            verdict_fns.add(name)
    ctx.require(len(verdict_fns) >= 12, "ncvalidator: only %d verdict-returning functions found" % len(verdict_fns))
    n = 0
    for name, fn in sorted(unit.functions.items()):
        calls = [c for b, i, e in fn.elements() for c in walk(e) if c.get("k") == "call" and c.get("fn") in verdict_fns]
        for c in calls:
            sid = c11.site_id(fn, c, calls)
            n += 1
            if name != "main":
                if fn.type(fn.ret).get("k") == "void":
                    continue
                c11.check_site(ctx, fn, c, "R1.sticky", sid, "%s()" % c["fn"], dom_cls=OnceDom)
                continue
            # main: the verdict must reach exit()'s argument
            class MainDom(c11.Dom):
                def on_call(self2, call, st, blk, idx):
                    if call.get("fn") == "exit" and st.has("$f"):
                        v = self2.eval(call["args"][0], st)
                        self2.exits.append((v, st))
                    return c11.Dom.on_call(self2, call, st, blk, idx)
            dom = MainDom(fn, c)
            dom.exits = []
            ex = Explorer(fn, dom)
            try:
                ex.run(State())
            except Budget as e:
                raise AnalysisBroken(str(e))
            ctx.states += ex.visited
            inst = "main:%s" % sid
            bad = [v for v, st in dom.exits if v.may_be_zero()]
            rets = [st for st, key in ex.exits if st.has("$f") and (st.get("$ret", None) is None or st.get("$ret").may_be_zero())]
            if not dom.exits and not [1 for st, key in ex.exits if st.has("$f")]:
                ctx.instance("R1.sticky", inst)
            elif bad or rets:
                ctx.fail("R1.sticky", "main", sid, "a non-zero verdict of %s() can reach exit() with status 0: the file is "
                         "reported valid" % c["fn"], fn=fn, line=c.get("l", fn.line), inst=inst)
            else:
                ctx.ok("R1.sticky", inst, "every exit after a failing %s() has a non-zero status" % c["fn"])
    ctx.require(n >= 30, "ncvalidator: expected >= 30 verdict call sites, found %d" % n)


def run(ctx):
    ctx.rule("R1.sticky", "ncvalidator: a non-zero verdict (fatal or NC_ENULLPAD) of any parser/check function reaches the exit status")
    ctx.rule("R7.spec", "ncvalidator's parser productions equal the specification grammar")
    ctx.rule("R1.diffcount", "every DIFF report increments a counter on all paths of its mismatch branch")
    ctx.rule("R1.diffexit", "every difference counter reaches the exit status")
    ctx.rule("R10.difftypes", "comparison switches cover all external types")
    ctx.rule("R8.partition", "ncmpidiff's per-process slice tiles the dimension (bounded)")
    ctx.assume("ncmpidump / ncmpigen / ncoffsets output and the strictness of ncvalidator's semantic checks (beyond the "
               "grammar it parses) are not decided")
    vprog = ctx.program(names=["ncvalidator.c"])
    val = r7.family(vprog, r7.VAL, "val")
    ctx.require(all(p in val for p in r7.PRODS), "ncvalidator: parser functions missing: %s" % [p for p in r7.PRODS if p not in val])
    r7.check_spec(ctx, "R7.spec", val, "validator", vprog, r7.VAL)
    oprog = ctx.program(names=["ncoffsets.c"])
    off = r7.family(oprog, r7.OFFT, "off")
    ctx.require(all(p in off for p in r7.PRODS), "ncoffsets: parser functions missing: %s" % [p for p in r7.PRODS if p not in off])
    r7.check_spec(ctx, "R7.spec", off, "ncoffsets", oprog, r7.OFFT)
    from rules import r10type
    ctx.rule("R10.typerange", "ncvalidator accepts an external type code exactly when the format version allows it")
    r10type.check(ctx, ctx.need_fn(vprog, "val_get_nc_type"), "R10.typerange", "ncvalidator")
    check_sticky(ctx, vprog)
    dprog = ctx.program(names=["ncmpidiff.c", "cdfdiff.c"])
    from rules import r9divzero, r10reccount, r10recstride
    ctx.rule("R9.divzero", "diff tools: a modulo / division by an object count is reached only when the count is positive")
    r9divzero.check(ctx, dprog, "R9.divzero", ("ncmpidiff.c", "cdfdiff.c"), min_instances=12)
    ctx.rule("R10.reccount", "a diff tool that reads numrecs from the headers compares the two files' record counts")
    r10reccount.check(ctx, dprog, "R10.reccount", ("ncmpidiff.c", "cdfdiff.c"))
    r10reccount.check_dimlen(ctx, dprog, "R10.reccount", ("cdfdiff.c",))
    from rules import r8valshape
    ctx.rule("R8.valshape", "ncvalidator var_shape64: a variable's length is its element size times the product of its non-record "
             "dimensions, rounded up to 4 (bounded: shapes of 1..3 dimensions, 4 element sizes)")
    nvs = r8valshape.check(ctx, ctx.need_fn(vprog, "var_shape64"), "R8.valshape")
    ctx.require(nvs >= 400, "R8.valshape: only %d cells evaluated" % nvs)
    from rules import r9msgbuf
    ctx.rule("R9.msgbuf", "ncvalidator, ncoffsets (and cdfdiff through the validator's decoder): every sprintf / strcpy / strcat into a "
             "character array of constant size is bounded below the size of the array; a `%s` of a name read from the file is unbounded")
    r9msgbuf.check(ctx, ctx.program(groups=["util"]), "R9.msgbuf", 6, units=("ncvalidator.c", "ncoffsets.c"))
    from rules import r10bitequal
    ctx.rule("R10.bitequal", "ncmpidiff: floating-point values count as different only when `!=` holds and their bit patterns differ "
             "(a NaN is not different from the same NaN)")
    r10bitequal.check(ctx, dprog, "R10.bitequal", "ncmpidiff.c", 8)
    ctx.rule("R10.recstride", "record r of a variable is addressed at begin + r * (the file's record size)")
    r10recstride.check(ctx, ctx.program(groups=["lib", "util"]), "R10.recstride", min_instances=6)
    from rules import r4decodeorder
    ctx.rule("R4.decodeorder", "the tools' private header decoders (ncoffsets ncmpii_hdr_get_NC, ncvalidator / cdfdiff val_get_NC): no "
             "field of the header object the decoder derives is read before the write that derives it (own reads and callees to depth 3)")
    uprog = ctx.program(groups=["util"])
    ndec = 0
    for nm in ("ncmpii_hdr_get_NC", "val_get_NC"):
        for f in uprog.fns(nm):
            ctx.functions_analysed.add((f.unit.name, f.name))
            r4decodeorder.check(ctx, uprog, f, "R4.decodeorder", 10)
            ndec += 1
    ctx.require(ndec >= 2, "R4.decodeorder: only %d tool decoders found" % ndec)
    total = 0
    for uname, tool in (("ncmpidiff.c", "ncmpidiff"), ("cdfdiff.c", "cdfdiff")):
        unit = [u for n, u in dprog.units.items() if n.endswith(uname)]
        ctx.require(unit, "%s not found" % uname)
        fn = unit[0].functions.get("main")
        ctx.require(fn is not None, "%s: main() not found" % uname)
        ctx.functions_analysed.add((uname, "main"))
        total += check_diffcount(ctx, fn, tool)
        check_diffexit(ctx, fn, tool)
        nt = check_types(ctx, fn, tool, dprog)
        ctx.require(nt >= 2, "%s: expected >= 2 type-dispatch switches, found %d" % (tool, nt))
        if tool == "ncmpidiff":
            np = r8part.check_fn(ctx, fn)
            ctx.require(np >= 1, "ncmpidiff: the per-process partition slice was not found")
    ctx.require(total >= 60, "expected >= 60 DIFF report sites in the two diff tools, found %d" % total)
