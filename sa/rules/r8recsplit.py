"""R8.recsplit — ncmpio_add_record_requests(): a nonblocking request on a record variable that spans several records
is split into one sub-request per record.  The whole function is evaluated by the analyser on small requests and the
resulting sub-requests compared with the definition: sub-request r addresses record start[0] + r*stride[0] (stride 1
without a stride argument), one record each, the other dimensions unchanged, `nelems` unchanged and the buffer advanced
by one record's bytes.  Bounded: 1..3 dimensions, 1..4 records, strides 1..3, two element sizes."""
import concrete
from frontend import AnalysisBroken


def check(ctx, fn, rule):
    cells = 0
    bad = None
    pn = [p["n"] for p in fn.params]
    if len(pn) != 4:
        raise AnalysisBroken("%s: expected (lead_list, reqs, num_recs, stride), found %s" % (fn.name, pn))
    L, R, N, S = pn
    for nd in (1, 2, 3):
        for nrec in (1, 2, 3, 4):
            for st in (None, 1, 2, 3):
                for xs in (2, 8):
                    start = [2] + [1] * (nd - 1)
                    count = [nrec] + [3] * (nd - 1)
                    stride = [st] + [2] * (nd - 1) if st is not None else None
                    chunk = nd * (3 if st is not None else 2)
                    nelems = 3 ** (nd - 1)
                    env = {"$dyn": True, N: nrec, S: ("P", "ST", 0) if st is not None else 0,
                           "%s[0].lead_off" % R: 0, "%s[0].varp" % L: ("P", "VARP", 0), "VARP[0].ndims": nd, "VARP[0].xsz": xs,
                           "%s[0].start" % R: ("P", "SA", 0), "%s[0].nelems" % R: nelems, "%s[0].xbuf" % R: 1000}
                    cellsv = start + count + (stride or [])
                    for k, v in enumerate(cellsv):
                        env["SA[%d]" % k] = v
                    if stride:
                        for k, v in enumerate(stride):
                            env["ST[%d]" % k] = v

                    def memcpy(d, s_, n, env=env):
                        if not (isinstance(d, tuple) and isinstance(s_, tuple)) or n % 8:
                            raise concrete.Unsupported("memcpy of unmodelled memory")
                        vals = [env["%s[%d]" % (s_[1], s_[2] + t)] for t in range(n // 8)]
                        for t, v in enumerate(vals):
                            env["%s[%d]" % (d[1], d[2] + t)] = v
                        return d
                    env["$impl"] = {"memcpy": memcpy}
                    try:
                        concrete.run_region(fn, (fn.entry, 0), set(), env, events=None, max_steps=4000)
                    except concrete.Unsupported as u:
                        raise AnalysisBroken("%s is no longer interpretable: %s" % (fn.name, u))
                    except KeyError as u:
                        raise AnalysisBroken("%s reads an unbound location %s" % (fn.name, u))
                    cells += 1
                    why = None
                    for r in range(nrec):
                        p = env.get("%s[%d].start" % (R, r))
                        if not (isinstance(p, tuple) and p[0] == "P"):
                            why = "sub-request %d has no start array" % r
                            break
                        got = [env.get("%s[%d]" % (p[1], p[2] + t)) for t in range(chunk)]
                        want = [start[0] + r * (st or 1)] + start[1:] + [1] + count[1:] + (stride or [])
                        if got != want:
                            why = "sub-request %d has start/count/stride %s, record %d of the request is %s" % (r, got, r, want)
                            break
                        if env.get("%s[%d].nelems" % (R, r)) != nelems or env.get("%s[%d].lead_off" % (R, r)) != 0:
                            why = "sub-request %d has nelems %s / lead_off %s" % (r, env.get("%s[%d].nelems" % (R, r)), env.get("%s[%d].lead_off" % (R, r)))
                            break
                        if env.get("%s[%d].xbuf" % (R, r)) != 1000 + r * nelems * xs:
                            why = "sub-request %d reads/writes buffer offset %s, its record's data is at %d" % (
                                r, env.get("%s[%d].xbuf" % (R, r)) - 1000 if isinstance(env.get("%s[%d].xbuf" % (R, r)), int) else None, r * nelems * xs)
                            break
                    if why and bad is None:
                        bad = ("%d-dimensional request start %s count %s stride %s, element size %d" % (nd, start, count, stride, xs), why)
    inst = "%s:split" % fn.name
    if bad:
        ctx.fail(rule, fn.name, "split", "%s: %s" % bad, fn=fn, line=fn.line, inst=inst)
    else:
        ctx.ok(rule, inst, "%d requests: one sub-request per record at start + r*stride, buffer advanced by one record" % cells)
    return cells
