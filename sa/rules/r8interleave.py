"""R8.interleave — wait_getput(): the requests reach req_aggregation() sorted by starting offset, and the `interleaved`
flag passed with them is set exactly when two consecutive sorted requests overlap.  (A missing flag makes the aggregator
concatenate overlapping file types: the file view is rejected and the data never reaches the file; a missing sort does
the same.)  The classification part of the function is evaluated by the analyser on every ordering of small sets of
scalar-variable requests and compared with that specification.  Bounded: up to 4 requests, 5 positions, lengths 1..3."""
import itertools
import concrete
from facts import walk, strip
from frontend import AnalysisBroken


def check(ctx, fn, rule):
    call_blk = None
    for b, i, e in fn.elements():
        if any(c.get("k") == "call" and c.get("fn") == "req_aggregation" for c in walk(e)):
            call_blk = b
    if call_blk is None:
        raise AnalysisBroken("%s no longer calls req_aggregation" % fn.name)
    stop = {s_ for s_ in call_blk.succs if s_ is not None}
    n = 0
    bad = None
    for nreq in (1, 2, 3, 4):
        for begins in itertools.product(range(0, 5), repeat=nreq):
            for lens in itertools.product((1, 2, 3), repeat=nreq):
                if nreq == 4 and (lens[0] != 1 or begins[0] > 2):
                    continue
                env = {"$dyn": True, "num_reqs": nreq, "rw_flag": 1, "coll_indep": 1, "newnumrecs": 0, "ncp->numrecs": 0,
                       "ncp->put_lead_list": ("P", "lead", 0), "ncp->get_lead_list": ("P", "lead", 0), "reqs": ("P", "reqs", 0)}
                for k in range(nreq):
                    env["reqs[%d].lead_off" % k] = k
                    env["lead[%d].varp" % k] = ("P", "var", k)
                    env["lead[%d].flag" % k] = 0
                    env["var[%d].ndims" % k] = 0
                    env["var[%d].begin" % k] = begins[k] * 2
                    env["var[%d].xsz" % k] = lens[k] * 2
                seen = {}

                def hook(e, args, env):
                    f = e.get("fn")
                    if f == "qsort":
                        m = env["num_reqs"]
                        rows = sorted(((env["reqs[%d].offset_start" % k], env["reqs[%d].offset_end" % k], env["reqs[%d].lead_off" % k])
                                       for k in range(m)), key=lambda r: r[0])
                        for k, r in enumerate(rows):
                            env["reqs[%d].offset_start" % k], env["reqs[%d].offset_end" % k], env["reqs[%d].lead_off" % k] = r
                    elif f == "req_aggregation":
                        seen["flag"] = args[5]
                        seen["order"] = [(env["reqs[%d].offset_start" % k], env["reqs[%d].offset_end" % k]) for k in range(env["num_reqs"])]
                try:
                    concrete.run_region(fn, (fn.entry, 0), stop, env, events=None, max_steps=5000, call_hook=hook)
                except concrete.Unsupported as u:
                    raise AnalysisBroken("%s is no longer interpretable: %s" % (fn.name, u))
                except KeyError as u:
                    raise AnalysisBroken("%s reads an unbound location %s" % (fn.name, u))
                n += 1
                if "flag" not in seen:
                    raise AnalysisBroken("%s: req_aggregation was not reached" % fn.name)
                order = seen["order"]
                why = None
                if any(a[0] > b[0] for a, b in zip(order, order[1:])):
                    why = "the requests reach req_aggregation in the order %s, not sorted by starting offset" % order
                else:
                    want = any(b[0] < a[1] for a, b in zip(order, order[1:]))
                    if bool(seen["flag"]) != want:
                        why = "requests %s (sorted) %s, but interleaved=%s is passed on" % (order, "overlap" if want else "do not overlap", seen["flag"])
                if why and bad is None:
                    bad = ([(2 * b, 2 * b + 2 * l) for b, l in zip(begins, lens)], why)
    inst = "%s:classification" % fn.name
    if bad:
        ctx.fail(rule, fn.name, "classification", "requests posted with access ranges %s: %s" % bad, fn=fn, line=fn.line, inst=inst)
    else:
        ctx.ok(rule, inst, "%d request lists: sorted on arrival, interleaved flag exact" % n)
    return n
