"""R8.varshape — compute_var_shape(), which derives the data-section offsets from the variables' `begin` fields right
after the header has been read, evaluated whole by the analyser under a signed-64-bit overflow trap.  `begin` is an
unchecked 64-bit word from the file and `len` comes from the file's dimensions: for every list of up to 2 variables
(fixed-size / record) with begins and lengths from a dictionary of extremes, no sum may leave the signed 64-bit range
(undefined behaviour in C, reported by the undefined-behaviour sanitizer) - the function has to reject the header
before it adds."""
import itertools
import concrete
from frontend import AnalysisBroken

BEGINS = (512, 4096, 2 ** 62, 2 ** 63 - 8, 2 ** 63 - 1, -8)
LENS = (16, 2 ** 32, 2 ** 62, 2 ** 63 - 4)


def check(ctx, fn, rule):
    cells = 0
    bad = None
    kinds = [(k, b, l) for k in ("f", "r") for b in BEGINS for l in LENS]
    for n in (1, 2):
        for lst in itertools.product(kinds, repeat=n):
            if n == 2 and not any(b >= 2 ** 62 or l >= 2 ** 62 or b < 0 for k, b, l in lst):
                continue
            env = {"$dyn": True, "$trap64": True, "ncp->vars.ndefined": n, "ncp->xsz": 200, "ncp->begin_var": 0, "ncp->begin_rec": 0,
                   "ncp->recsize": 0}
            for i, (k, b, l) in enumerate(lst):
                env["ncp->vars.value[%d]" % i] = ("P", "V", i)
                env["V[%d].shape" % i] = ("P", "S%d" % i, 0)
                env["S%d[0]" % i] = 0 if k == "r" else 7
                env["V[%d].dsizes" % i] = ("P", "D%d" % i, 0)
                env["D%d[0]" % i] = 4
                env["V[%d].len" % i] = l
                env["V[%d].begin" % i] = b
                env["V[%d].xsz" % i] = 4
            e = None
            for attempt in range(8):
                e = dict(env)
                try:
                    concrete.run_region(fn, (fn.entry, 0), set(), e, max_steps=600)
                    break
                except concrete.Overflow64 as o:
                    if bad is None:
                        bad = (["%s variable, begin %d, %d bytes" % ("record" if k == "r" else "fixed-size", b, l) for k, b, l in lst], str(o))
                    break
                except KeyError as k_:
                    env[str(k_).strip("'\"")] = 0
                except concrete.Unsupported as u:
                    t = str(u)
                    if t.startswith("value of "):
                        env[t[len("value of "):]] = 0
                    else:
                        raise AnalysisBroken("%s is no longer interpretable: %s" % (fn.name, u))
            cells += 1
    inst = "%s:sums" % fn.name
    if bad:
        ctx.fail(rule, fn.name, "sums", "header with %s: signed 64-bit overflow in `%s` - the offset read from the file is used in "
                 "arithmetic before it has been validated" % ("; ".join(bad[0]), bad[1]), fn=fn, line=fn.line, inst=inst)
    else:
        ctx.ok(rule, inst, "%d variable lists with extreme begins / lengths: no sum leaves the signed 64-bit range" % cells)
    return cells


def check_recsize(ctx, fn, rule):
    """the reader's record size for well-formed layouts: with exactly one record variable the records are packed (record size =
    the variable's unpadded bytes per record), otherwise the record size is the sum of the record variables' padded lengths -
    the rule the writer (NC_begins) and the specification use.  Lists of up to 3 variables, fixed-size or record, record
    variables of 3 or 6 raw bytes per record (padded 4 / 8)."""
    import itertools as _it
    kinds = [("f", 16, 16), ("r", 3, 4), ("r", 6, 8), ("r", 8, 8)]
    cells = 0
    bad = None
    for n in (1, 2, 3):
        for lst in _it.product(kinds, repeat=n):
            env = {"$dyn": True, "ncp->vars.ndefined": n, "ncp->xsz": 200, "ncp->begin_var": 0, "ncp->begin_rec": 0, "ncp->recsize": 0,
                   "ncp->vars.num_rec_vars": 0}       # the decoder counts the record variables only after this call
            off = 512
            fixed = [x for x in lst if x[0] == "f"]
            recs = [x for x in lst if x[0] == "r"]
            order = fixed + recs                        # fixed-size variables precede the record section
            for i, (k, raw, ln) in enumerate(order):
                env["ncp->vars.value[%d]" % i] = ("P", "V", i)
                env["V[%d].shape" % i] = ("P", "S%d" % i, 0)
                env["S%d[0]" % i] = 0 if k == "r" else 7
                env["V[%d].dsizes" % i] = ("P", "D%d" % i, 0)
                env["D%d[0]" % i] = raw
                env["V[%d].len" % i] = ln
                env["V[%d].begin" % i] = off
                env["V[%d].xsz" % i] = 1
                off += ln
            e = None
            for attempt in range(8):
                e = dict(env)
                try:
                    concrete.run_region(fn, (fn.entry, 0), set(), e, max_steps=600)
                    break
                except KeyError as k_:
                    env[str(k_).strip("'\"")] = 0
                except concrete.Unsupported as u:
                    t = str(u)
                    if t.startswith("value of "):
                        env[t[len("value of "):]] = 0
                    else:
                        raise AnalysisBroken("%s is no longer interpretable: %s" % (fn.name, u))
            cells += 1
            if e.get("$ret"):
                continue
            want = 0 if not recs else (recs[0][1] if len(recs) == 1 else sum(x[2] for x in recs))
            got = e.get("ncp->recsize")
            if got != want and bad is None:
                bad = (["%s, %d bytes%s" % ("record variable" if k == "r" else "fixed-size variable", raw, " per record (padded %d)" % ln if k == "r" else "")
                        for k, raw, ln in order], got, want)
    inst = "%s:recsize" % fn.name
    if bad:
        ctx.fail(rule, fn.name, "recsize", "header with %s: the reader computes a record size of %s, the format rule (and the writer) give %s "
                 "- records 1.. of a reopened file are addressed at the wrong offsets" % ("; ".join(bad[0]), bad[1], bad[2]),
                 fn=fn, line=fn.line, inst=inst)
    else:
        ctx.ok(rule, inst, "%d variable lists: record size packed for a single record variable, sum of padded lengths otherwise" % cells)
    return cells
