"""C14 — API mode state machine and error precedence (rule family R11).

 R11.writers  the mode bits NC_MODE_{DEF,INDEP,CREATE,RDONLY} of PNC.flag / NC.flags are
              written only by the listed mode-changing functions.
 R11.onfail   in the dispatcher a mode bit is changed only on a path where the driver
              call of that function returned NC_NOERR.
 R11.layers   on every successful exit of the driver's mode-changing function the bit
              has the value the dispatcher records for it (both layers agree).
 R11.guard    for every public API and every mode in which it is not permitted, the
              wrapper explored with that mode injected never reaches the driver call
              and never returns NC_NOERR; the documented error is among its returns.
 R11.dguard   the same for the guards that live in the driver (wait, sync, ...).
"""
import re

from absint import (ValueDomain, InlineDomain, Explorer, State, TOP, ZERO, ONE, NONZERO, AVal, fin, cof, Budget,
                    allreduce_min_effect)
from callgraph import slot_of_call
from facts import walk, strip, strip_pre, const_value, show, lvalue_key, macro_of, key_str
from frontend import AnalysisBroken
import patterns

MODE_BITS = {"NC_MODE_RDONLY": 0x1, "NC_MODE_DEF": 0x2000, "NC_MODE_INDEP": 0x4000, "NC_MODE_CREATE": 0x4}
ERR = {"NC_EPERM": -37, "NC_EINDEFINE": -39, "NC_ENOTINDEFINE": -38, "NC_EINDEP": -203, "NC_ENOTINDEP": -26}

WRITERS = {
    "PNC": {"ncmpi_create", "ncmpi_open", "ncmpi_enddef", "ncmpi__enddef", "ncmpi_redef",
            "ncmpi_begin_indep_data", "ncmpi_end_indep_data"},
    "NC": {"ncmpio_create", "ncmpio_open", "ncmpio__enddef", "ncmpio_redef", "ncmpio_begin_indep_data",
           "ncmpio_end_indep_data", "ncmpio_close", "ncmpio_abort"},
}


def bit_values(prog):
    """numeric values of the mode bits from the macro table (re-read on every run)."""
    vals = {}
    for u in prog.units.values():
        for name in list(MODE_BITS) + list(ERR):
            if name in u.macros:
                body = u.macros[name].strip("() ")
                try:
                    vals[name] = int(body, 0)
                except ValueError:
                    pass
        if len(vals) >= len(MODE_BITS) + len(ERR):
            break
    return vals


def flag_writes(fn, rec, field):
    out = []
    for b, i, e in fn.elements():
        for x in walk(e):
            if x.get("k") == "asg":
                a = strip(x["a"])
                if a.get("k") == "mem" and a.get("f") == field and a.get("rec") == rec:
                    v = const_value(x["b"])
                    out.append((b, i, x, v))
    return out


def changed_bits(x, v):
    """(set_mask, clear_mask) of a flag-word assignment with constant rhs."""
    if v is None:
        return None
    if x["op"] == "|=":
        return v & 0xFFFFFFFF, 0
    if x["op"] == "&=":
        return 0, (~v) & 0xFFFFFFFF
    if x["op"] == "=":
        return v & 0xFFFFFFFF, (~v) & 0xFFFFFFFF
    return None


def check_writers(ctx, prog, bits):
    modemask = 0
    for n in MODE_BITS:
        modemask |= bits[n]
    n = 0
    for fn in prog.all_functions():
        for rec, field in (("PNC", "flag"), ("NC", "flags")):
            for b, i, x, v in flag_writes(fn, rec, field):
                cb = changed_bits(x, v)
                if cb is None:
                    ctx.fail("R11.writers", fn.name, rec + "." + field, "mode word written with a non-constant value "
                             "`%s`" % show(x)[:60], fn=fn, line=x.get("l", 0))
                    continue
                touched = (cb[0] | cb[1]) & modemask
                if x["op"] == "=":
                    touched = modemask
                if not touched:
                    continue
                n += 1
                inst = "%s:%s.%s %s 0x%x" % (fn.name, rec, field, x["op"], v & 0xFFFFFFFF)
                if fn.name in WRITERS[rec]:
                    ctx.ok("R11.writers", inst, "listed mode-changing function", nontrivial=False)
                else:
                    ctx.fail("R11.writers", fn.name, rec + "." + field, "%s() changes mode bits of %s.%s (`%s`) but is "
                             "not one of the mode-changing entry points" % (fn.name, rec, field, show(x)[:50]),
                             fn=fn, line=x.get("l", 0), inst=inst)
    ctx.min_instances("R11.writers", 14)


class ErrDom(ValueDomain):
    def tracked(self, key):
        if isinstance(key, str):
            return True
        if key[0] == "v":
            v = self.fn.vars.get(key[1])
            return v is not None and self.fn.type(v["t"]).get("k") in ("int", "uint")
        return False

    def on_assign(self, key, lhs, rhs, val, st, elem):
        r = strip_pre(rhs) if rhs is not None else None
        if isinstance(r, dict) and r.get("k") == "call" and slot_of_call(r):
            return st.set("$drvvar", key)
        return st


def check_onfail(ctx, prog, bits):
    modemask = sum(bits[n] for n in ("NC_MODE_DEF", "NC_MODE_INDEP"))
    for name in ("ncmpi_enddef", "ncmpi__enddef", "ncmpi_redef", "ncmpi_begin_indep_data", "ncmpi_end_indep_data"):
        fn = ctx.need_fn(prog, name)
        writes = [(b, i, x, v) for b, i, x, v in flag_writes(fn, "PNC", "flag")
                  if v is not None and (sum(changed_bits(x, v)) & modemask)]
        ctx.require(writes, "%s no longer writes a mode bit" % name)
        bad = []

        class D(ErrDom):
            def on_elem(self, elem, st, blk, idx, writes=writes, bad=bad):
                for b, i, x, v in writes:
                    if elem is x or any(y is x for y in walk(elem)):
                        dv = st.get("$drvvar", None)
                        ok = dv is not None and st.has(dv) and st.get(dv).must_be(0)
                        if not ok:
                            bad.append(x)
                return st
        ex = Explorer(fn, D(fn)).run(State())
        ctx.states += ex.visited
        if bad:
            x = bad[0]
            ctx.fail("R11.onfail", name, "flag", "`%s` executes on a path where the driver call has not been tested "
                     "equal to NC_NOERR: a failed call changes the mode" % show(x)[:50], fn=fn, line=x.get("l", 0))
        else:
            ctx.ok("R11.onfail", name, "%d mode-bit write(s), all after `err == NC_NOERR` of the driver call" % len(writes))


class BitsDom(ValueDomain):
    """tracks ncp->flags as a (known-set, known-clear) pair and the return value."""

    def __init__(self, fn, pname, field):
        super().__init__(fn)
        self.fkey = None
        for p in fn.params + fn.locals:
            if p["n"] == pname:
                self.fkey = ("m", ("v", p["id"], pname), field)

    def tracked(self, key):
        if isinstance(key, str) or key == self.fkey:
            return True
        if key[0] == "v":
            v = self.fn.vars.get(key[1])
            return v is not None and self.fn.type(v["t"]).get("k") in ("int", "uint")
        return False

    failing = None       # a call element whose callee is taken to report a failure

    def call_value(self, call, st):
        f = call.get("fn") or ""
        if self.failing is not None and call is self.failing:
            return NONZERO
        if f == "ncmpii_error_mpi2nc":
            return NONZERO
        if f.startswith("MPI_"):
            return ZERO
        return TOP

    def on_call(self, call, st, blk, idx):
        if self.failing is not None and call is self.failing:
            return st.set("$failed", ONE)
        return st

    def on_elem(self, elem, st, blk, idx):
        if elem.get("k") == "ret":
            return st.set("$ret", self.eval(elem.get("e"), st) if elem.get("e") is not None else None)
        return st


LAYER = [  # driver function, bit, expected final state on success ('set' / 'clear')
    ("ncmpio_end_indep_data", "NC_MODE_INDEP", "clear"),
    ("ncmpio_begin_indep_data", "NC_MODE_INDEP", "set"),
    ("ncmpio_redef", "NC_MODE_DEF", "set"),
    ("ncmpio__enddef", "NC_MODE_DEF", "clear"),
    ("ncmpio__enddef", "NC_MODE_CREATE", "clear"),
]
DISPATCH_EFFECT = {  # dispatcher function -> {bit: 'set'|'clear'}
    "ncmpi_end_indep_data": {"NC_MODE_INDEP": "clear"},
    "ncmpi_begin_indep_data": {"NC_MODE_INDEP": "set"},
    "ncmpi_redef": {"NC_MODE_DEF": "set"},
    "ncmpi_enddef": {"NC_MODE_DEF": "clear", "NC_MODE_INDEP": "clear"},
    "ncmpi__enddef": {"NC_MODE_DEF": "clear", "NC_MODE_INDEP": "clear"},
}


def check_layers(ctx, prog, bits):
    # dispatcher side: the table itself is re-derived from the source
    for name, want in DISPATCH_EFFECT.items():
        fn = ctx.need_fn(prog, name)
        got = {}
        for b, i, x, v in flag_writes(fn, "PNC", "flag"):
            cb = changed_bits(x, v)
            if cb is None:
                continue
            for bn in MODE_BITS:
                if cb[0] & bits[bn]:
                    got[bn] = "set"
                if cb[1] & bits[bn]:
                    got[bn] = "clear"
        if got == want:
            ctx.ok("R11.layers", name, "dispatcher effect %s" % got, nontrivial=False)
        else:
            ctx.fail("R11.layers", name, "effect", "dispatcher changes %s, the mode table expects %s" % (got, want),
                     fn=fn, line=fn.line)
    for dname, bit, want in LAYER:
        fn = ctx.need_fn(prog, dname)
        dom = BitsDom(fn, "ncp", "flags")
        ctx.require(dom.fkey is not None, "%s: variable ncp not found" % dname)
        ex = Explorer(fn, dom).run(State())
        ctx.states += ex.visited
        m = bits[bit]
        bad = None
        nok = 0
        badf = None
        for st, key in ex.exits:
            r = st.get("$ret")
            if isinstance(r, AVal) and not r.may_be_zero():
                # a failing exit: the dispatcher records nothing, so the driver must not have made the change either
                v = st.get(dom.fkey)
                k1, k0 = (v.k1, v.k0) if v is not None and v.kind == "bits" else (0, 0)
                if ((k1 & m) == m if want == "set" else (k0 & m) == m) and badf is None:
                    badf = (st, key)
                continue
            nok += 1
            v = st.get(dom.fkey)
            k1, k0 = (v.k1, v.k0) if v.kind == "bits" else (0, 0)
            good = (k1 & m) == m if want == "set" else (k0 & m) == m
            if not good:
                bad = (st, key)
        inst = "%s:%s" % (dname, bit)
        ctx.require(nok > 0, "%s has no successful exit" % dname)
        if bad:
            st, key = bad
            ctx.fail("R11.layers", dname, bit, "a path returns NC_NOERR from %s() with %s not known %s, while the "
                     "dispatcher records it as %s: the two layers disagree on the mode afterwards"
                     % (dname, bit, want, want), fn=fn, line=fn.line, inst=inst,
                     detail={"path": ex.describe_path(key), "exit_state": repr(st)})
        else:
            ctx.ok("R11.layers", inst, "%d successful exit state(s), bit %s on all" % (nok, want))
        if badf is None:
            # the same question with one callee at a time reporting a failure (a status that is only *possibly* non-zero above)
            known = {f.name for f in prog.all_functions()}
            targets = [c for b_, i_, e_ in fn.elements() for c in [strip(e_)]
                       if isinstance(c, dict) and c.get("k") == "call" and c.get("fn") in known and c.get("fn") != "ncmpii_error_mpi2nc"
                       and fn.type(c.get("t")).get("k") in ("int", "enum")]
            for tc in targets:
                d2 = BitsDom(fn, "ncp", "flags")
                d2.failing = tc
                ex2 = Explorer(fn, d2).run(State())
                ctx.states += ex2.visited
                for st, key in ex2.exits:
                    r = st.get("$ret")
                    if isinstance(r, AVal) and not r.may_be_zero() and st.has("$failed"):
                        v = st.get(d2.fkey)
                        k1, k0 = (v.k1, v.k0) if v is not None and v.kind == "bits" else (0, 0)
                        if ((k1 & m) == m if want == "set" else (k0 & m) == m):
                            badf = (st, key)
                            ex = ex2
                            break
                if badf:
                    break
        inst = "%s:%s:onfail" % (dname, bit)
        if badf:
            st, key = badf
            ctx.fail("R11.layers", dname, bit + ":onfail", "a path returns an error from %s() after it has already %s %s: the dispatcher "
                     "records the change only on success, so the failed call has changed the mode in one layer only"
                     % (dname, "set" if want == "set" else "cleared", bit), fn=fn, line=fn.line, inst=inst,
                     detail={"path": ex.describe_path(key), "exit_state": repr(st)})
        else:
            ctx.ok("R11.layers", inst, "no exit that certainly fails has %s already %s" % (bit, "set" if want == "set" else "cleared"))


class GuardDom(InlineDomain):
    INLINE = ("sanity_check", "allreduce_error", "sanity_check_put", "sanity_check_get", "check_consistency_put")
    inject = None        # (k1, k0) for pncp->flag, set per exploration
    fmt = cof(3, 4)      # pncp->format: a classic (CDF-1/2/5) file

    def tracked(self, key):
        if isinstance(key, str):
            return True
        if key[0] == "m" and key[2] in ("flag", "format"):
            return True
        if key[0] == "v":
            v = self.fn.vars.get(key[1])
            return v is not None and self.fn.type(v["t"]).get("k") in ("int", "uint", "enum")
        return False

    def sub_domain(self, callee):
        d = super().sub_domain(callee)
        d.inject = self.inject
        return d

    def extern_value(self, call, st):
        f = call.get("fn") or ""
        if f == "ncmpii_error_mpi2nc":
            return NONZERO
        if f.startswith("MPI_"):
            return ZERO
        return TOP

    def on_call(self, call, st, blk, idx):
        f = call.get("fn")
        if f == "PNC_check_id":
            a = strip(call["args"][1])
            if a.get("k") == "un" and a.get("op") == "&":
                pk = lvalue_key(a["e"])
                st = st.set(("m", pk, "flag"), AVal("bits", k1=self.inject[0], k0=self.inject[1]))
                st = st.set(("m", pk, "format"), self.fmt)
            return st
        if slot_of_call(call) == "wait" and self.wait_rejects():
            return st          # the driver's wait rejects this mode before any effect (R11.dguard decides that): not an effect
        if slot_of_call(call):
            return st.set("$drv", fin(call.get("l", 0)))
        return allreduce_min_effect(self, call, st)

    D_BIT = I_BIT = 0

    def wait_rejects(self):
        k1 = self.inject[0]
        return bool(k1 & self.D_BIT) or (bool(k1 & self.I_BIT) and self.fn.name.endswith("_all"))

    def call_value(self, call, st):
        if slot_of_call(call) == "wait" and self.wait_rejects():
            return NONZERO
        return super().call_value(call, st)

    def on_elem(self, elem, st, blk, idx):
        if elem.get("k") == "ret":
            return st.set("$ret", self.eval(elem.get("e"), st) if elem.get("e") is not None else None)
        return st



    def branch(self, blk, st):
        # the number of variables / requests is not negative: once it is known not to be zero (the function tested it), the
        # first iteration of `for (i=0; i<nvars; ..)` runs.  Where the function makes no such test both outcomes are explored.
        c = blk.cond
        if c is not None and blk.term == "for" and c.get("k") == "bin" and c.get("op") == "<":
            b = strip(c["b"])
            if isinstance(b, dict) and b.get("k") == "ref" and b.get("dk") == "param" and b.get("n") in ("nvars", "num") \
                    and self.eval(c["a"], st).must_be(0) and blk.succs[0] is not None:
                v = self.eval(b, st)
                if not v.may_be_zero():
                    return [(blk.succs[0], st)]
                key = lvalue_key(b)
                out = []
                if not v.must_be(0):
                    out.append((blk.succs[0], st.set(key, NONZERO)))      # at least one variable
                if blk.succs[1] is not None:
                    out.append((blk.succs[1], st.set(key, ZERO)))         # none (the count is not negative)
                return out
        return super().branch(blk, st)


def api_guards(name, bits):
    """[(label, k1, k0, expected error)] for a public API name."""
    D, I, R = bits["NC_MODE_DEF"], bits["NC_MODE_INDEP"], bits["NC_MODE_RDONLY"]
    g = []
    m = re.match(r"^ncmpi_(put|get|iput|iget|bput|mput|mget)_(var|varn|vard)", name)
    if m or re.match(r"^ncmpi_(m?put|m?get)_var", name):
        kind = m.group(1) if m else ("put" if "put" in name else "get")
        blocking = kind in ("put", "get", "mput", "mget")
        if "put" in kind:
            g.append(("read-only", R, 0, "NC_EPERM"))
        if blocking:
            g.append(("define-mode", D, R, "NC_EINDEFINE"))
            if name.endswith("_all"):
                g.append(("independent-mode", I, D | R, "NC_EINDEP"))
            else:
                g.append(("collective-mode", 0, I | D | R, "NC_ENOTINDEP"))
        return g
    table = {
        "ncmpi_def_dim": [("data-mode", 0, D, "NC_ENOTINDEFINE")],
        "ncmpi_def_var": [("data-mode", 0, D, "NC_ENOTINDEFINE")],
        "ncmpi_def_var_fill": [("data-mode", 0, D, "NC_ENOTINDEFINE")],
        "ncmpi_set_fill": [("read-only", R, 0, "NC_EPERM"), ("data-mode", 0, D | R, "NC_ENOTINDEFINE")],
        "ncmpi_del_att": [("read-only", R, 0, "NC_EPERM"), ("data-mode", 0, D | R, "NC_ENOTINDEFINE")],
        "ncmpi_enddef": [("data-mode", 0, D, "NC_ENOTINDEFINE")],
        "ncmpi__enddef": [("data-mode", 0, D, "NC_ENOTINDEFINE")],
        "ncmpi_redef": [("read-only", R, 0, "NC_EPERM"), ("define-mode", D, R, "NC_EINDEFINE")],
        "ncmpi_rename_dim": [("read-only", R, 0, "NC_EPERM")],
        "ncmpi_rename_var": [("read-only", R, 0, "NC_EPERM")],
        "ncmpi_rename_att": [("read-only", R, 0, "NC_EPERM")],
        "ncmpi_copy_att": [],
        "ncmpi_fill_var_rec": [("read-only", R, 0, "NC_EPERM"), ("define-mode", D, R, "NC_EINDEFINE"),
                               ("independent-mode", I, D | R, "NC_EINDEP")],
    }
    if name in table:
        return table[name]
    if re.match(r"^ncmpi_put_att(_[a-z]+)?$", name):
        return [("read-only", R, 0, "NC_EPERM")]
    return None


def check_guards(ctx, prog, bits, errs):
    napi = 0
    for fn in sorted(prog.all_functions(), key=lambda f: f.name):
        if fn.static or not fn.name.startswith("ncmpi_"):
            continue
        guards = api_guards(fn.name, bits)
        if not guards:
            continue
        if not patterns.call_sites(fn, lambda n: n == "PNC_check_id"):
            continue
        napi += 1
        ctx.functions_analysed.add((fn.unit.name, fn.name))
        for label, k1, k0, ename in guards:
            dom = GuardDom(fn, prog)
            dom.inject = (k1, k0)
            GuardDom.D_BIT, GuardDom.I_BIT = bits["NC_MODE_DEF"], bits["NC_MODE_INDEP"]
            # the number of requests / variables is left open: a call with none is still a call in a forbidden mode
            init = State()
            try:
                ex = Explorer(fn, dom, max_states=100000).run(init)
            except Budget as e:
                raise AnalysisBroken(str(e))
            ctx.states += ex.visited
            inst = "%s@%s" % (fn.name, label)
            drv = None
            zero = None
            rets = set()
            for st, key in ex.exits:
                if st.has("$drv"):
                    drv = drv or (st, key)
                r = st.get("$ret")
                if isinstance(r, AVal):
                    if r.may_be_zero():
                        zero = zero or (st, key)
                    if r.kind == "fin":
                        rets |= set(r.s)
                else:
                    zero = zero or (st, key)
            want = errs[ename]
            if drv:
                st, key = drv
                ctx.fail("R11.guard", fn.name, label, "called in %s, %s() still reaches its driver call: the API is "
                         "not rejected with %s and takes effect" % (label, fn.name, ename), fn=fn,
                         line=st.get("$drv").single() or fn.line, inst=inst,
                         detail={"path": ex.describe_path(key)})
            elif zero:
                st, key = zero
                ctx.fail("R11.guard", fn.name, label, "called in %s, %s() can return NC_NOERR" % (label, fn.name),
                         fn=fn, line=fn.line, inst=inst, detail={"path": ex.describe_path(key)})
            elif want not in rets:
                ctx.fail("R11.guard", fn.name, label + ":code", "called in %s, %s() never returns the documented %s "
                         "(returns %s)" % (label, fn.name, ename, sorted(rets)), fn=fn, line=fn.line, inst=inst)
            else:
                ctx.ok("R11.guard", inst, "driver call unreachable; returns include %s, never NC_NOERR" % ename)
    ctx.require(napi >= 700, "expected >= 700 guarded public APIs, found %d" % napi)
    ctx.min_instances("R11.guard", 1500)


class DGuardDom(ValueDomain):
    inject = (0, 0)

    def __init__(self, fn):
        super().__init__(fn)
        self.fkey = None

    def tracked(self, key):
        if isinstance(key, str):
            return True
        if key[0] == "m" and key[2] == "flags":
            return True
        if key[0] == "v":
            v = self.fn.vars.get(key[1])
            return v is not None and self.fn.type(v["t"]).get("k") in ("int", "uint")
        return False

    def on_assign(self, key, lhs, rhs, val, st, elem):
        # NC *ncp = (NC*)ncdp;  -> inject the mode on the freshly bound pointer
        if key is not None and key[0] == "v" and key[2] == "ncp" and not st.has("$inj"):
            st = st.set(("m", key, "flags"), AVal("bits", k1=self.inject[0], k0=self.inject[1]))
            st = st.set("$inj", ONE)
        return st

    def on_call(self, call, st, blk, idx):
        f = call.get("fn") or ""
        if f.startswith("MPI_") or f in ("req_commit", "ncmpio_write_numrecs", "ncmpio_file_sync",
                                         "ncmpio_sync_numrecs", "ncmpio_write_header"):
            st = st.set("$effect", fin(call.get("l", 0)))
        return st

    def on_elem(self, elem, st, blk, idx):
        if elem.get("k") == "ret":
            return st.set("$ret", self.eval(elem.get("e"), st) if elem.get("e") is not None else None)
        return st


def check_driver_guards(ctx, prog, bits, errs):
    D, I, R = bits["NC_MODE_DEF"], bits["NC_MODE_INDEP"], bits["NC_MODE_RDONLY"]
    table = [
        ("ncmpio_wait", "define-mode", D, 0, "NC_EINDEFINE"),
        ("ncmpio_wait", "independent-mode", I, D, "NC_EINDEP"),       # a collective wait (reqMode without NC_REQ_INDEP)
        ("ncmpio_wait", "collective-mode", 0, I | D, "NC_ENOTINDEP"),  # an independent wait (reqMode = NC_REQ_INDEP), any count
        ("ncmpio_sync", "define-mode", D, 0, "NC_EINDEFINE"),
        ("ncmpio_sync_numrecs", "define-mode", D, 0, "NC_EINDEFINE"),
        ("ncmpio_begin_indep_data", "define-mode", D, 0, "NC_EINDEFINE"),
        ("ncmpio_end_indep_data", "define-mode", D, 0, "NC_EINDEFINE"),
    ]
    for fname, label, k1, k0, ename in table:
        fn = ctx.need_fn(prog, fname)
        dom = DGuardDom(fn)
        dom.inject = (k1, k0)
        # parameter may already be typed NC* named ncp
        init = State()
        for p in fn.params:
            if p["n"] == "ncp":
                init = init.set(("m", ("v", p["id"], "ncp"), "flags"), AVal("bits", k1=k1, k0=k0)).set("$inj", ONE)
            if p["n"] == "reqMode" and label == "independent-mode":
                init = init.set(("v", p["id"], "reqMode"), ZERO)
            if p["n"] == "reqMode" and label == "collective-mode":
                rq = None
                for u in prog.units.values():
                    if "NC_REQ_INDEP" in u.macros:
                        try:
                            rq = int(u.macros["NC_REQ_INDEP"].strip("() "), 0)
                        except ValueError:
                            pass
                        break
                ctx.require(rq, "macro NC_REQ_INDEP not found / not a constant")
                init = init.set(("v", p["id"], "reqMode"), fin(rq))
        ex = Explorer(fn, dom).run(init)
        ctx.states += ex.visited
        bad = None
        rets = set()
        for st, key in ex.exits:
            r = st.get("$ret")
            if st.has("$effect") or not isinstance(r, AVal) or r.may_be_zero():
                bad = bad or (st, key)
            elif r.kind == "fin":
                rets |= set(r.s)
        inst = "%s@%s" % (fname, label)
        if bad:
            st, key = bad
            ctx.fail("R11.dguard", fname, label, "called in %s, %s() %s" % (
                label, fname, "performs communication / I/O before rejecting" if st.has("$effect")
                else "can return NC_NOERR"), fn=fn, line=fn.line, inst=inst, detail={"path": ex.describe_path(key)})
        elif errs[ename] not in rets:
            ctx.fail("R11.dguard", fname, label + ":code", "never returns %s in %s (returns %s)"
                     % (ename, label, sorted(rets)), fn=fn, line=fn.line, inst=inst)
        else:
            ctx.ok("R11.dguard", inst, "rejected with %s before any effect" % ename)


MUTATORS = {"ncmpio_update_name_lookup_table", "ncmpio_hash_insert", "ncmpio_hash_delete", "ncmpio_hash_replace",
            "ncmpio_write_header", "incr_NC_dimarray", "incr_NC_vararray", "incr_NC_attrarray", "NCI_Free_fn",
            "ncmpio_free_NC_attr", "ncmpio_free_NC_var", "ncmpio_free_NC_dim", "ncmpio_write_numrecs",
            "ncmpio_sync_numrecs"}
HEADER_RECS = {"NC", "NC_dim", "NC_var", "NC_attr", "NC_dimarray", "NC_vararray", "NC_attrarray", "NC_nametable"}
MODE_ERRS = {"NC_ENOTINDEFINE", "NC_EINDEFINE", "NC_EPERM", "NC_EINDEP", "NC_ENOTINDEP"}


class NoEffectDom(ValueDomain):
    errvals = frozenset()

    def tracked(self, key):
        if isinstance(key, str):
            return True
        if key[0] == "v":
            v = self.fn.vars.get(key[1])
            return v is not None and self.fn.type(v["t"]).get("k") in ("int", "uint") and v["n"] in ("err", "status")
        return False

    def on_call(self, call, st, blk, idx):
        if call.get("fn") in MUTATORS and not st.has("$effect"):
            return st.set("$effect", fin(call.get("l", 0)))
        return st

    def on_assign(self, key, lhs, rhs, val, st, elem):
        l = strip(lhs) if lhs is not None else None
        if isinstance(l, dict) and l.get("k") == "mem" and l.get("rec") in HEADER_RECS and not st.has("$effect"):
            # stores into local struct copies are not header state
            base = strip(l.get("b"))
            if l.get("arrow") or (isinstance(base, dict) and base.get("k") != "ref"):
                return st.set("$effect", fin(elem.get("l", 0) if elem else 0))
        return st

    def on_elem(self, elem, st, blk, idx):
        if elem.get("k") == "ret" and elem.get("e") is not None:
            v = self.eval(elem["e"], st)
            if v.kind == "fin" and v.s and v.s <= self.errvals:
                st = st.set("$moderr", v)
                if st.has("$effect"):
                    return st.set("$bad", fin(elem.get("l", 0)))
        return st


def check_noeffect(ctx, prog, errs):
    """a call rejected with a mode error has not yet touched header state."""
    n = 0
    names = {v: k for k, v in errs.items()}
    for fn in sorted(prog.all_functions(), key=lambda f: f.name):
        if not (fn.name.startswith("ncmpio_") or fn.name.startswith("ncmpi_")):
            continue
        uses = any(m in MODE_ERRS for b, i, e in fn.elements() for x in walk(e, into_pre=True)
                   for m in x.get("m", ()))
        if not uses:
            continue
        dom = NoEffectDom(fn)
        dom.errvals = frozenset(errs.values())
        try:
            ex = Explorer(fn, dom, max_states=100000).run(State())
        except Budget as e:
            raise AnalysisBroken(str(e))
        ctx.states += ex.visited
        bad = None
        nret = 0
        for st, key in ex.exits:
            if st.has("$moderr"):
                nret += 1
            if st.has("$bad"):
                bad = bad or (st, key)
        if nret == 0:
            continue
        n += 1
        ctx.functions_analysed.add((fn.unit.name, fn.name))
        if bad:
            st, key = bad
            en = "/".join(sorted(names.get(x, str(x)) for x in st.get("$moderr").s))
            ctx.fail("R11.noeffect", fn.name, en, "%s() returns %s (line %s) after header state was "
                     "already modified at line %s: the rejected call is not without effect" %
                     (fn.name, en, st.get("$bad").single(), st.get("$effect").single()), fn=fn,
                     line=st.get("$effect").single() or fn.line, detail={"path": ex.describe_path(key)})
        else:
            ctx.ok("R11.noeffect", fn.name, "%d mode-error exit state(s), none preceded by a header-state mutation" % nret)
    ctx.min_instances("R11.noeffect", 30)


# documented precedence of the error codes (test/testcases/error_precedence.m4 states these lists)
PREC = {
    "var": ["NC_EBADID", "NC_EPERM", "NC_EINDEFINE", "NC_ENOTVAR", "NC_ECHAR", "NC_EINVALCOORDS", "NC_EEDGE", "NC_ESTRIDE",
            "NC_EINVAL", "NC_ERANGE"],
    "putatt": ["NC_EBADID", "NC_EPERM", "NC_ENOTVAR", "NC_EBADNAME", "NC_EBADTYPE", "NC_ECHAR", "NC_EINVAL", "NC_ENOTINDEFINE",
               "NC_ERANGE"],
    "getatt": ["NC_EBADID", "NC_ENOTVAR", "NC_EBADNAME", "NC_ENOTATT", "NC_ECHAR", "NC_EINVAL", "NC_ERANGE"],
}
PREC_HELPERS = {"sanity_check": "var", "check_start_count_stride": "var", "sanity_check_put": "putatt", "sanity_check_get": "getatt"}


def error_sites(fn):
    """macro name of a returned / assigned error constant -> blocks whose branch leads to it"""
    import cfg as _cfg
    out = {}
    for b, i, e in fn.elements():
        tgt = None
        if e.get("k") == "ret" and e.get("e") is not None and const_value(e["e"]) is not None and const_value(e["e"]) < 0:
            tgt = e["e"]
        elif e.get("k") == "asg" and const_value(e["b"]) is not None and const_value(e["b"]) < 0 and \
                strip(e["a"]).get("k") == "ref" and strip(e["a"]).get("n") in ("err", "status"):
            tgt = e["b"]
        if tgt is None:
            continue
        ms = [m for x in walk(tgt, into_pre=True) for m in (x.get("m") or []) if m.startswith("NC_E")]
        if not ms:
            continue
        guards = [p for p in b.preds if fn.blocks[p].cond is not None]
        out.setdefault(ms[-1], []).extend(guards or [b.id])
    return out


def check_precedence(ctx, prog):
    import cfg as _cfg
    n = 0
    for name, fam in sorted(PREC_HELPERS.items()):
        fn = ctx.need_fn(prog, name)
        sites = error_sites(fn)
        order = [e for e in PREC[fam] if e in sites]
        ctx.require(len(order) >= 2, "%s: fewer than two of the documented error codes are produced here (%s)" % (name, sorted(sites)))
        for a, b in zip(order, order[1:]):
            n += 1
            inst = "%s:%s<%s" % (name, a, b)
            # every test producing `a` comes first: no test of `b` can be followed by a test of `a`
            bad = [(ga, gb) for ga in sites[a] for gb in sites[b] if gb != ga and _cfg.can_reach(fn, gb, ga) and not _cfg.can_reach(fn, ga, gb)]
            first = any(_cfg.can_reach(fn, ga, gb) or ga == gb for ga in sites[a] for gb in sites[b])
            if bad or not first:
                ctx.fail("R11.prec", name, "%s<%s" % (a, b), "%s() can test the condition for %s before the one for %s; the documented "
                         "precedence puts %s first, so a call with both problems returns the wrong code" % (name, b, a, a),
                         fn=fn, line=fn.blocks[(bad[0][1] if bad else sites[b][0])].tl or fn.line, inst=inst)
            else:
                ctx.ok("R11.prec", inst, "the test for %s precedes the test for %s on every path" % (a, b))
    # the wrappers call id check -> sanity check -> start/count check -> driver, in this order
    wr = 0
    for fn in prog.all_functions():
        if not fn.name.startswith("ncmpi_") or not fn.relfile().endswith(("var_getput.c", "var_getput.m4)")):
            continue
        calls = {}
        for b, i, e in fn.elements():
            for c in walk(e):
                if c.get("k") == "call":
                    nm = c.get("fn") or ("driver" if "var" in (slot_of_call(c) or "") else None)
                    if nm in ("PNC_check_id", "sanity_check", "check_start_count_stride", "driver"):
                        calls.setdefault(nm, []).append((b.id, i))
        if "driver" not in calls or "PNC_check_id" not in calls or len(calls) < 3:
            continue
        wr += 1

        def before(px, py):
            (bx, ix), (by, iy) = px, py
            if bx == by:
                return ix < iy
            if _cfg.pos_dominates(fn, px, py):
                return True             # also inside a loop over variables / sub-requests
            return _cfg.can_reach(fn, bx, by) and not _cfg.can_reach(fn, by, bx)

        def never_before(py, px):
            """the call at py never runs before the call at px"""
            (bx, ix), (by, iy) = px, py
            if bx == by:
                return ix < iy
            return not _cfg.can_reach(fn, by, bx)
        idc = calls["PNC_check_id"][0]
        ok = all(_cfg.pos_dominates(fn, idc, p) for k, ps in calls.items() if k != "PNC_check_id" for p in ps)
        for d in calls["driver"]:
            for k in ("sanity_check", "check_start_count_stride"):
                ok = ok and all(never_before(d, c) for c in calls.get(k, []))
        for s_ in calls.get("sanity_check", []):
            for c in calls.get("check_start_count_stride", []):
                ok = ok and before(s_, c)
        if ok:
            ctx.ok("R11.prec", "%s:order" % fn.name, "id check first, mode/argument checks before the start/count check, no data call "
                   "of the driver before a check", nontrivial=False)
        else:
            ctx.fail("R11.prec", fn.name, "order", "the wrapper does not keep the order id check -> sanity_check -> "
                     "check_start_count_stride -> driver data call on every path", fn=fn, line=fn.line, inst="%s:order" % fn.name)
    ctx.require(wr >= 500, "R11.prec: only %d put/get wrappers found" % wr)
    ctx.require(n >= 8, "R11.prec: only %d precedence pairs found" % n)


def run(ctx):
    ctx.rule("R11.prec", "the argument/mode checks produce their error codes in the documented precedence order")
    ctx.rule("R11.noeffect", "no path that returns NC_ENOTINDEFINE/NC_EINDEFINE/NC_EPERM/NC_EINDEP/NC_ENOTINDEP has "
             "modified header state (lookup tables, object arrays, names) before the return")
    ctx.rule("R11.writers", "mode bits of PNC.flag / NC.flags are written only by the listed mode-changing functions")
    ctx.rule("R11.onfail", "dispatcher mode-bit writes happen only after the driver call returned NC_NOERR")
    ctx.rule("R11.layers", "driver and dispatcher record the same mode bit on every successful exit")
    ctx.rule("R11.guard", "every public API explored with a forbidden mode injected never reaches its driver call, "
             "never returns NC_NOERR and can return the documented error (helpers sanity_check/allreduce_error inlined)")
    ctx.rule("R11.dguard", "driver-level mode guards reject before any communication or I/O")
    ctx.assume("the number of variables / requests handed to a multi-variable API is not negative (zero is explored)")
    ctx.assume("classic-format file (pncp->format not NETCDF4); MPI communication calls succeed")
    ctx.assume("the full product automaton's return codes for arbitrary histories are not decided")
    ctx.rule("R4.rdonly", "every test of the open mode that depends on the NC_WRITE bit depends on no other bit (dispatcher, driver "
             "open functions, MPI-IO access mode), and NC_MODE_RDONLY is stored on the NC_WRITE-clear side (mode words evaluated)")
    prog = ctx.program(groups=["lib"])
    vals = bit_values(prog)
    for n in list(MODE_BITS) + list(ERR):
        ctx.require(n in vals, "macro %s not found in the analysed headers" % n)
    bits = {n: vals[n] for n in MODE_BITS}
    errs = {n: vals[n] for n in ERR}
    check_writers(ctx, prog, bits)
    check_onfail(ctx, prog, bits)
    check_layers(ctx, prog, bits)
    check_guards(ctx, prog, bits, errs)
    check_driver_guards(ctx, prog, bits, errs)
    check_noeffect(ctx, prog, errs)
    check_precedence(ctx, prog)
    from rules import r4rdonly
    wbit = None
    for u in prog.units.values():
        if "NC_WRITE" in u.macros:
            try:
                wbit = int(u.macros["NC_WRITE"].strip("() "), 0)
            except ValueError:
                pass
            break
    ctx.require(wbit, "macro NC_WRITE not found / not a constant")
    r4rdonly.check(ctx, prog, "R4.rdonly", wbit, "NC_MODE_RDONLY", 3)
