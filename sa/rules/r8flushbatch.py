"""R8.flushbatch — ncbbio_log_flush_core(): how one flush round gathers the logged data it is going to replay.

The part of the function from the start of a round (`databufferused = 0`) to the point where the replay of the batch
begins (`databufferoff = databuffer`) is evaluated by the analyser on small logs: up to 4 entries, each valid or cancelled,
with data sizes 1..3, and two flush-buffer sizes.  Reads and seeks on the data log are events acting on a modelled file
position.  At the end of each round the flush buffer must hold, back to back, exactly the data-log bytes of the valid
entries of the batch [lb, ub) - a cancelled entry's bytes are skipped *after* what precedes it has been read - and the
file position must stand at the first entry of the next round.  Rounds are chained until the log is consumed."""
import itertools
import concrete
from facts import walk, strip, canon
from frontend import AnalysisBroken
import patterns


def check(ctx, fn, rule):
    lp = None
    for l in patterns.loops(fn):
        if l.var == "lb":
            lp = l
    if lp is None or lp.body_entry is None:
        raise AnalysisBroken("%s: the round loop over lb was not found" % fn.name)
    stop = None
    for b, i, e in fn.elements():
        if e.get("k") == "asg" and canon(e["a"]) == "databufferoff" and canon(e["b"]) == "databuffer" and b.id in lp.body_ext:
            stop = b.id
    if stop is None:
        raise AnalysisBroken("%s: the start of the replay (`databufferoff = databuffer`) was not found" % fn.name)
    cells = 0
    bad = None
    for n in range(1, 5):
        for valid in itertools.product((1, 0), repeat=n):
            for sizes in itertools.product((1, 2, 3), repeat=n):
                if n == 4 and (sizes[0] != 1 or sizes[3] != 2):
                    continue
                for bufsize in (3, 5):
                    starts = [sum(sizes[:k]) for k in range(n)]
                    pos = 0
                    lb = 0
                    rounds = 0
                    why = None
                    while lb < n and why is None:
                        rounds += 1
                        if rounds > n + 1:
                            why = "the rounds do not advance"
                            break
                        env = {"$dyn": True, "lb": lb, "ub": lb, "ncbbp->metaidx.nused": n, "databuffersize": bufsize,
                               "databuffer": ("P", "BUF", 0), "ncbbp->datalog_fd": 1, "err": 0, "databufferused": 0, "dataread": 0}
                        for k in range(n):
                            env["ncbbp->metaidx.entries[%d].valid" % k] = valid[k]
                            env["ncbbp->entrydatasize.values[%d]" % k] = sizes[k]
                        buf = {}
                        st = {"pos": pos}

                        def hook(e, args, env_, buf=buf, st=st):
                            f = e.get("fn")
                            if f == "ncbbio_sharedfile_read":
                                dst, ln = args[1], args[2]
                                if not (isinstance(dst, tuple) and dst[1] == "BUF") or ln is None:
                                    raise AnalysisBroken("%s: read into an unmodelled buffer" % fn.name)
                                for t in range(ln):
                                    buf[dst[2] + t] = st["pos"] + t
                                st["pos"] += ln
                            elif f == "ncbbio_sharedfile_seek":
                                st["pos"] += args[1]
                        try:
                            concrete.run_region(fn, (lp.body_entry, 0), {stop}, env, events=None, max_steps=600, call_hook=hook)
                        except concrete.Unsupported as u:
                            raise AnalysisBroken("%s: the gathering part of a flush round is no longer interpretable: %s" % (fn.name, u))
                        except KeyError as u:
                            raise AnalysisBroken("%s: the gathering part of a flush round reads an unbound location %s" % (fn.name, u))
                        ub = env.get("ub")
                        if not isinstance(ub, int) or ub <= lb and any(valid[lb:]):
                            if not any(valid[lb:]):
                                ub = n
                            else:
                                why = "round starting at entry %d selects nothing (ub = %s)" % (lb, ub)
                                break
                        want = []
                        for k in range(lb, min(ub, n)):
                            if valid[k]:
                                want += list(range(starts[k], starts[k] + sizes[k]))
                        got = [buf.get(t) for t in range(len(want))]
                        if got != want:
                            why = "round over entries [%d, %d): the flush buffer holds data-log bytes %s, the valid entries' data are bytes %s" % (lb, ub, got, want)
                            break
                        pos = st["pos"]
                        # the position may lag behind cancelled entries at the end only if nothing valid follows in this round
                        if ub < n and pos != starts[ub]:
                            why = "after the round over [%d, %d) the data log stands at byte %d, entry %d starts at %d" % (lb, ub, pos, ub, starts[ub])
                            break
                        lb = ub
                    cells += 1
                    if why and bad is None:
                        bad = (list(valid), list(sizes), bufsize, why)
    inst = "%s:gather" % fn.name
    if bad:
        ctx.fail(rule, fn.name, "gather", "log entries valid=%s with data sizes %s, flush buffer of %d bytes: %s" % bad, fn=fn,
                 line=lp.head.tl or fn.line, inst=inst)
    else:
        ctx.ok(rule, inst, "%d logs: every round's buffer holds exactly the valid entries' data, the log position follows" % cells)
    return cells
