"""R7 — grammar agreement between the header encoder (hdr_put_NC_*), the decoder (hdr_get_NC_*) and the size
function (hdr_len_NC_*).

Every function of the three families is summarised, per format version 1/2/5, as the set of token sequences it
emits / consumes on its successful paths (an effect summary over the CFG):
    W4 / W8      one 4- / 8-byte big-endian word
    RUN          a run of bytes (name characters, attribute values, the magic) including its padding
    NT(x)        a nested production x in {name, dim, dimarray, attrV, attr, attrarray, var, vararray}
    rep[...]     a loop body repeated
Branches on the format version are decided for the version being summarised; branches that test an error status
take the success side; blocks that return / assign a constant error are not on successful paths; every other
branch is followed both ways.  The rules compare the summaries (closed under "a RUN or a loop may be empty")."""
import itertools
from facts import walk, strip, strip_pre, const_value, canon, show, lvalue_key
from frontend import AnalysisBroken
import patterns

PRODS = ["name", "dim", "dimarray", "attrV", "attr", "attrarray", "var", "vararray", "NC"]
ENC = {"hdr_put_NC_" + p: p for p in PRODS}
ENC["ncmpio_hdr_put_NC"] = "NC"
DEC = {"hdr_get_NC_" + p: p for p in PRODS}
DEC["ncmpio_hdr_get_NC"] = "NC"
VAL = {"val_get_NC_" + p: p for p in PRODS}
VAL["hdr_get_name"] = "name"
VAL["val_get_NC"] = "NC"
VAL["hdr_get_NON_NEG"] = "NONNEG"
del VAL["val_get_NC_name"], VAL["val_get_NC_NC"]
OFFT = {"hdr_get_NC_" + p: p for p in PRODS}
OFFT["ncmpii_hdr_get_NC"] = "NC"
del OFFT["hdr_get_NC_NC"]
W4_CALLS = {"hdr_get_NCtype", "ncmpix_put_uint32", "hdr_get_uint32", "hdr_get_NC_tag", "hdr_get_nc_type",
            "get_uint32", "val_get_NC_tag", "val_get_nc_type"}
W8_CALLS = {"ncmpix_put_uint64", "hdr_get_uint64", "get_uint64"}
RUN_CALLS = {"ncmpix_pad_putn_text", "ncmpix_putn_text", "ncmpix_getn_text"}
NT_TABLE = {"enc": ENC, "dec": DEC, "val": VAL, "off": OFFT}
STATUS_NAMES = {"err", "status"}


class Summ:
    def __init__(self, fn, version, family):
        self.fn, self.v, self.family = fn, version, family
        self.loops = {lp.head.id: lp for lp in patterns.loops(fn)}
        self.memo = {}
        self.budget = 0

    # ---- branch decisions --------------------------------------------------------------------
    def decide(self, c):
        """True / False / None for a branch condition under this version"""
        c = strip_pre(c)
        if not isinstance(c, dict):
            return None
        if c.get("k") == "bin" and c.get("op") in ("<", ">", "<=", ">=", "==", "!="):
            a, b = strip(c["a"]), c["b"]
            k = const_value(b)
            if isinstance(a, dict) and k is not None:
                if (a.get("k") == "mem" and a.get("f") in ("version", "format")) or canon(a) in ("magic[3]", "magic[NC_MAGIC_LEN - 1]", "magic[4 - 1]"):
                    v = self.v
                    return {"<": v < k, ">": v > k, "<=": v <= k, ">=": v >= k, "==": v == k, "!=": v != k}[c["op"]]
                if a.get("k") == "ref" and a.get("n") in STATUS_NAMES and c["op"] in ("==", "!="):
                    ok = (k == 0)
                    return ok if c["op"] == "==" else (not ok)
        if c.get("k") == "call" and c.get("fn") == "memcmp":
            return False if "magic" in canon(c) else None
        if c.get("k") == "bin" and c.get("op") == "!=" and isinstance(strip(c["a"]), dict) and strip(c["a"]).get("fn") in ("memcmp", "strncmp"):
            return False
        return None

    def error_block(self, blk):
        for e in blk.elems:
            if e.get("k") == "ret" and e.get("e") is not None:
                v = const_value(e["e"])
                if v is not None and v != 0:
                    return True
            if e.get("k") == "asg" and e.get("op") == "=":
                l = strip(e["a"])
                v = const_value(e["b"])
                if isinstance(l, dict) and l.get("k") == "ref" and l.get("n") in STATUS_NAMES and v is not None and v < 0:
                    return True
        return False

    # ---- tokens of one block -------------------------------------------------------------------
    def tokens(self, blk):
        out = []
        for e in blk.elems:
            for c in walk(e):
                if c.get("k") == "call":
                    f = c.get("fn")
                    if f in W4_CALLS:
                        out.append("W4")
                    elif f in W8_CALLS:
                        out.append("W8")
                    elif f in RUN_CALLS:
                        out.append("RUN")
                    elif f in NT_TABLE.get(self.family, {}):
                        out.append("NT:" + NT_TABLE[self.family][f])
            if e.get("k") == "asg":
                l = strip(e["a"])
                if isinstance(l, dict) and l.get("k") == "mem" and l.get("f") == "pos" and l.get("rec") == "bufferinfo":
                    # pos = base (rewind) is not an advance
                    r = canon(e["b"])
                    if e.get("op") == "+=" or (e.get("op") == "=" and "pos" in r and "+" in r):
                        out.append("RUN")
        return out

    # ---- sequences -----------------------------------------------------------------------------
    def seqs(self, b, stop, done):
        """set of token tuples from block b to the function exit (or to `stop`)"""
        key = (b, stop, done)
        if key in self.memo:
            return self.memo[key]
        self.budget += 1
        if self.budget > 200000:
            raise AnalysisBroken("R7: path budget exceeded in %s" % self.fn.name)
        fn = self.fn
        if b == stop:
            return {()}
        if b == fn.exit:
            return {()} if stop is None else set()
        blk = fn.blocks[b]
        if blk.noreturn or self.error_block(blk):
            return set()
        self.memo[key] = set()          # cycles (outside recognised loops) contribute nothing
        here = tuple(self.tokens(blk))
        res = set()
        if b in self.loops and b not in done:
            lp = self.loops[b]
            d2 = done | {b}
            after = self.seqs(lp.exit, stop, d2) if lp.exit is not None else set()
            body = self.seqs(lp.body_entry, b, d2) if lp.body_entry is not None else set()
            body = {s for s in body}
            # paths that leave the function from inside the body
            leave = self.seqs(lp.body_entry, None, d2) if (stop is None and lp.body_entry is not None) else set()
            for a in after:
                res.add(here + a)
                if body and any(s for s in body):
                    rep = ("rep", tuple(sorted(body - {()})))
                    res.add(here + (rep,) + a)
            for l in leave:
                pass            # early exits from loop bodies are error / goto-cleanup paths: pruned or equal to `after`
        else:
            succs = list(blk.succs)
            if blk.cond is not None and len(succs) == 2:
                d = self.decide(blk.cond)
                if d is True:
                    succs = [succs[0]]
                elif d is False:
                    succs = [succs[1]]
            for s in succs:
                if s is None:
                    continue
                for t in self.seqs(s, stop, done):
                    res.add(here + t)
        self.memo[key] = res
        return res


def normalise(seq):
    """merge adjacent byte runs (and loops that only advance the position) into one RUN"""
    out = []
    for t in seq:
        if isinstance(t, tuple) and t[0] == "rep":
            bodies = tuple(sorted({normalise(s) for s in t[1]}))
            if all(all(x == "RUN" for x in s) for s in bodies):
                t = "RUN"
            else:
                t = ("rep", bodies)
        if t == "RUN" and out and out[-1] == "RUN":
            continue
        out.append(t)
    return tuple(out)


def closure(seqs):
    """every RUN and every loop may be empty"""
    out = set()
    for s in seqs:
        opt = [i for i, t in enumerate(s) if t == "RUN" or (isinstance(t, tuple) and t[0] == "rep")]
        if len(opt) > 8:
            opt = opt[:8]
        for r in range(len(opt) + 1):
            for drop in itertools.combinations(opt, r):
                out.add(tuple(t for i, t in enumerate(s) if i not in drop))
    return out


def summarise(fn, family):
    res = {}
    for v in (1, 2, 5):
        sm = Summ(fn, v, family)
        raw = sm.seqs(fn.entry, None, frozenset())
        res[v] = {normalise(s) for s in raw}
    return res


def show_seq(s):
    out = []
    for t in s:
        if isinstance(t, tuple):
            out.append("rep{%s}" % " | ".join(show_seq(x) for x in t[1]))
        else:
            out.append(t)
    return " ".join(out) or "(nothing)"


def expand_inline(summ, prod, v, depth=0):
    """inline NT:attrV (values are part of the attr production in the grammar) and the validator's NON_NEG helper"""
    out = set()
    for s in summ[prod][v]:
        variants = [()]
        for t in s:
            if t in ("NT:attrV", "NT:NONNEG") and t[3:] in summ:
                subs = summ[t[3:]][v] or {()}
                variants = [a + b for a in variants for b in subs]
            else:
                variants = [a + (t,) for a in variants]
        out.update(normalise(x) for x in variants)
    return out


def family(prog, table, fam):
    out = {}
    for name, p in table.items():
        for fn in prog.fns(name):
            out[p] = summarise(fn, fam)
    return out


def families(prog):
    enc, dec = {}, {}
    for name, p in ENC.items():
        for fn in prog.fns(name):
            enc[p] = summarise(fn, "enc")
    for name, p in DEC.items():
        for fn in prog.fns(name):
            dec[p] = summarise(fn, "dec")
    return enc, dec


def check_seq(ctx, prog, rule):
    enc, dec = families(prog)
    missing = [p for p in PRODS if p not in enc or p not in dec]
    ctx.require(not missing, "R7: encoder/decoder function for production(s) %s not found" % missing)
    n = 0
    for p in PRODS:
        if p == "attrV":
            continue
        for v in (1, 2, 5):
            e = closure(expand_inline(enc, p, v))
            d = closure(expand_inline(dec, p, v))
            inst = "%s@CDF-%d" % (p, v)
            n += 1
            if not e or not d:
                raise AnalysisBroken("R7: no successful path summarised for production %s (CDF-%d): enc=%d dec=%d" % (p, v, len(e), len(d)))
            if e == d:
                longest = max(e, key=len)
                ctx.ok(rule, inst, "encoder and decoder agree: %s" % show_seq(longest))
            else:
                only_e = sorted(e - d, key=len, reverse=True)
                only_d = sorted(d - e, key=len, reverse=True)
                fn = prog.fns([k for k, q in DEC.items() if q == p][0])[0]
                ctx.fail(rule, fn.name, inst, "for CDF-%d the encoder writes `%s` but the decoder reads `%s` for production "
                         "'%s': the two sides disagree on the header grammar" %
                         (v, show_seq(only_e[0]) if only_e else show_seq(max(e, key=len)),
                          show_seq(only_d[0]) if only_d else show_seq(max(d, key=len)), p), fn=fn, line=fn.line, inst=inst)
    return n, enc, dec


# ---- the grammar of the specification, written down independently of the code ------------------------------
NN = {1: "W4", 2: "W4", 5: "W8"}
OFF = {1: "W4", 2: "W8", 5: "W8"}


def spec(p, v):
    nn, off = NN[v], OFF[v]
    rep = lambda *body: ("rep", (tuple(body),))
    return {
        "name": (nn, "RUN"),
        "dim": ("NT:name", nn),
        "dimarray": ("W4", nn, rep("NT:dim")),
        "attr": ("NT:name", "W4", nn, "RUN"),
        "attrarray": ("W4", nn, rep("NT:attr")),
        "var": ("NT:name", nn, rep(nn), "NT:attrarray", "W4", nn, off),
        "vararray": ("W4", nn, rep("NT:var")),
        "NC": ("RUN", nn, "NT:dimarray", "NT:attrarray", "NT:vararray"),
    }[p]


def check_spec(ctx, rule, summ, family_name, prog, table):
    for p in PRODS:
        if p == "attrV":
            continue
        for v in (1, 2, 5):
            got = closure(expand_inline(summ, p, v))
            want = closure({spec(p, v)})
            inst = "%s:%s@CDF-%d" % (family_name, p, v)
            if got == want:
                ctx.ok(rule, inst, "matches the specification grammar: %s" % show_seq(spec(p, v)))
            else:
                fn = prog.fns([k for k, q in table.items() if q == p][0])[0]
                extra = sorted(got - want, key=len, reverse=True)
                ctx.fail(rule, fn.name, "%s@CDF-%d" % (p, v), "the %s's production '%s' for CDF-%d is `%s`; the format "
                         "specification says `%s`" % (family_name, p, v, show_seq(extra[0] if extra else max(got, key=len)),
                                                      show_seq(spec(p, v))), fn=fn, line=fn.line, inst=inst)


# ---- the size function -------------------------------------------------------------------------------------
LEN = {"hdr_len_NC_" + p: p for p in ("dim", "dimarray", "attr", "attrarray", "var", "vararray")}
LEN["ncmpio_hdr_len_NC"] = "NC"


def add_terms(n):
    s = strip(n)
    if isinstance(s, dict) and s.get("k") == "bin" and s.get("op") == "+" and "cv" not in s:
        return add_terms(s["a"]) + add_terms(s["b"])
    return [n]


class LenSumm(Summ):
    def __init__(self, fn, version):
        Summ.__init__(self, fn, version, "len")
        self.acc = None
        for b, i, e in fn.elements():
            if e.get("k") == "ret" and e.get("e") is not None:
                r = strip(e["e"])
                if isinstance(r, dict) and r.get("k") == "ref" and const_value(e["e"]) is None:
                    self.acc = r["n"]
        self.role = {}          # local name -> constant assigned under this version (top-level function only)

    def classify(self, term):
        v = self.v
        cv = const_value(term)
        t = strip(term)
        if cv is not None:
            return {4: "W4", 8: "W8"}.get(cv, "K%d" % cv)
        if isinstance(t, dict) and t.get("k") == "ref":
            if t["n"] in self.role:
                return {4: "W4", 8: "W8"}.get(self.role[t["n"]], "K%s" % self.role[t["n"]])
            if "NON_NEG" in t["n"]:
                return NN[v]
            if "off_t" in t["n"]:
                return OFF[v]
        if isinstance(t, dict) and t.get("k") == "call" and t.get("fn") in LEN:
            return "NT:" + LEN[t["fn"]]
        if isinstance(t, dict) and t.get("k") == "bin" and t.get("op") == "*":
            for x, y in ((t["a"], t["b"]), (t["b"], t["a"])):
                sx = strip(x)
                if isinstance(sx, dict) and sx.get("k") == "ref" and ("NON_NEG" in sx["n"] or "off_t" in sx["n"]):
                    return ("rep", ((self.classify(x),),))
        txt = canon(term)
        if "name_len" in txt or txt.endswith("->xsz"):
            return "RUN"
        return "?" + txt[:30]

    def tokens(self, blk):
        out = []
        for e in blk.elems:
            if e.get("k") == "decl":
                continue
            if e.get("k") != "asg":
                continue
            l = strip(e["a"])
            if not (isinstance(l, dict) and l.get("k") == "ref"):
                continue
            if l["n"] == self.acc and e.get("op") in ("=", "+="):
                for t in add_terms(e["b"]):
                    out.append(self.classify(t))
            elif e.get("op") == "=" and const_value(e["b"]) is not None:
                self.role[l["n"]] = const_value(e["b"])
        return out


def len_summary(prog):
    out = {}
    roles = {}
    for name, p in LEN.items():
        for fn in prog.fns(name):
            out[p] = {}
            for v in (1, 2, 5):
                sm = LenSumm(fn, v)
                raw = sm.seqs(fn.entry, None, frozenset())
                out[p][v] = {tuple(s) for s in raw}
                if p == "NC":
                    roles[v] = dict(sm.role)
    return out, roles


def flat_multiset(seq, inline_name):
    out = []
    for t in seq:
        if t == "NT:name" and inline_name is not None:
            out.extend(inline_name)
        elif isinstance(t, tuple) and t[0] == "rep":
            out.append(("rep", tuple(sorted(tuple(sorted(flat_multiset(b, inline_name), key=str)) for b in t[1]))))
        else:
            out.append(t)
    return sorted(out, key=str)


def check_len(ctx, prog, rule, enc):
    lens, roles = len_summary(prog)
    missing = [p for p in LEN.values() if p not in lens]
    ctx.require(not missing, "R7: size function(s) for %s not found" % missing)
    # roles at the top: the two widths handed down are (4,4) / (4,8) / (8,8)
    top = prog.fns("ncmpio_hdr_len_NC")[0]
    for v in (1, 2, 5):
        r = roles.get(v, {})
        nn = [val for k, val in r.items() if "NON_NEG" in k]
        off = [val for k, val in r.items() if "off_t" in k]
        want = ({"W4": 4, "W8": 8}[NN[v]], {"W4": 4, "W8": 8}[OFF[v]])
        inst = "widths@CDF-%d" % v
        if nn == [want[0]] and off == [want[1]]:
            ctx.ok(rule, inst, "sizeof NON_NEG = %d, sizeof OFFSET = %d" % want)
        else:
            ctx.fail(rule, top.name, inst, "for CDF-%d the size function uses NON_NEG width %s and OFFSET width %s (the format "
                     "says %d and %d): the computed header size disagrees with what is written" % (v, nn, off, want[0], want[1]),
                     fn=top, line=top.line)
    # argument roles are handed down to the parameter of the same role
    for name in LEN:
        for fn in prog.fns(name):
            for b, i, e in fn.elements():
                for c in walk(e):
                    if c.get("k") == "call" and c.get("fn") in LEN:
                        cal = prog.fns(c["fn"])[0]
                        for k, a in enumerate(c.get("args", [])):
                            sa = strip(a)
                            if isinstance(sa, dict) and sa.get("k") == "ref" and k < len(cal.params) and \
                                    ("NON_NEG" in sa["n"] or "off_t" in sa["n"]):
                                pn = cal.params[k]["n"]
                                inst = "%s->%s#%d" % (fn.name, cal.name, k)
                                same = ("NON_NEG" in sa["n"]) == ("NON_NEG" in pn)
                                if same:
                                    ctx.ok(rule, inst, "argument %s -> parameter %s" % (sa["n"], pn), nontrivial=False)
                                else:
                                    ctx.fail(rule, fn.name, inst, "%s() passes %s where %s() expects %s: the NON_NEG and OFFSET "
                                             "widths are swapped, so CDF-2 header sizes are wrong" % (fn.name, sa["n"], cal.name, pn),
                                             fn=fn, line=c.get("l", fn.line))
    # term multisets against the encoder's maximal sequences
    for p in LEN.values():
        for v in (1, 2, 5):
            inst = "%s@CDF-%d" % (p, v)
            le = max(lens[p][v], key=len) if lens[p][v] else None
            en = max(expand_inline(enc, p, v), key=len)
            if le is None:
                raise AnalysisBroken("R7: no path summarised for size function of %s" % p)
            name_inline = (NN[v], "RUN")
            a = flat_multiset(le, None)
            b = flat_multiset(en, name_inline)
            if p == "NC":
                # the magic is a 4-byte run
                b = sorted([("W4" if t == "RUN" else t) for t in b], key=str)
            if a == b:
                ctx.ok(rule, inst, "size terms equal the encoder's tokens: %s" % " + ".join(str(x) for x in a))
            else:
                fn = prog.fns([k for k, q in LEN.items() if q == p][0])[0]
                ctx.fail(rule, fn.name, inst, "for CDF-%d the size function adds up [%s] for production '%s' but the encoder "
                         "writes [%s]: the reported header size / allocated buffer disagrees with the bytes written" %
                         (v, ", ".join(map(str, a)), p, ", ".join(map(str, b))), fn=fn, line=fn.line)
