"""R4.decodeorder — header decoders build the in-memory header object field by field; a field the decoder derives must not
be consulted before the point where it is derived.

For a decoder D(obj) (the functions that turn the bytes of a file header into an NC object: ncmpio_hdr_get_NC in the
library, the private copies in ncoffsets and ncvalidator) every member path rooted at the object parameter is followed
through D and - mapped through the arguments `obj` / `&obj->member` - through the functions D calls (to depth 3).  A read
of path p at program point R is an ordering error when

  * no write of p dominates R (a call to a function that writes p counts as a write at the call), and
  * D writes p at a point that can follow R,

i.e. p is one of the fields this very function is in the middle of deriving and R sees the value from before (zero: the
object is calloc'ed; garbage in the tools).  Fields D never writes are inputs of the decoder and are not constrained.
Reads and writes in the same CFG element (`n += ...`) are an accumulation, not an ordering error."""
import cfg
from facts import walk, strip, canon
from frontend import AnalysisBroken

DEPTH = 3


def _trunc(p):
    k = p.find("[")
    return p if k < 0 else p[:k]


def _accesses(fn):
    """[(blk, idx, 'r'|'w', path)] for member paths rooted at a parameter of fn"""
    if getattr(fn, "_dacc", None) is not None:
        return fn._dacc
    params = {p["n"] for p in fn.params}
    out = []
    for b, i, e in fn.elements():
        written = set()
        s = strip(e)
        if isinstance(s, dict) and s.get("k") == "asg":
            l = strip(s["a"])
            if isinstance(l, dict) and l.get("k") == "mem":
                p = canon(l)
                if "[" not in p:
                    written.add((p, s.get("op") == "="))
        if isinstance(s, dict) and s.get("k") == "un" and s.get("op") in ("post++", "post--", "pre++", "pre--"):
            l = strip(s["e"])
            if isinstance(l, dict) and l.get("k") == "mem" and "[" not in canon(l):
                written.add((canon(l), False))
        pure = {p for p, eq in written if eq}
        seen = set()
        lhs_id = id(strip(s["a"])) if isinstance(s, dict) and s.get("k") == "asg" else None
        for n in walk(e):
            if isinstance(n, dict) and n.get("k") == "mem":
                if id(n) == lhs_id and canon(n) in pure:
                    continue
                p = _trunc(canon(n))
                root = p.split("->", 1)[0].split(".", 1)[0]
                if root in params and p != root and p not in seen:
                    seen.add(p)
                    out.append((b.id, i, "r", p))
        for p, eq in written:
            root = p.split("->", 1)[0].split(".", 1)[0]
            if root in params:
                out.append((b.id, i, "w", p))
    fn._dacc = out
    return out


def _map(path, param, arg):
    """path of the callee (rooted at its parameter) expressed in the caller, for argument text `x` or `&x->m`"""
    suffix = path[len(param):]
    if arg.startswith("&"):
        base = arg[1:]
        if suffix.startswith("->"):
            return base + "." + suffix[2:]
        return None
    return arg + suffix


def _events(prog, fn, depth, stack=()):
    """accesses of fn's parameter-rooted paths, own and through callees: [(blk, idx, kind, path, via)]"""
    ev = [(b, i, k, p, None) for (b, i, k, p) in _accesses(fn)]
    if depth == 0:
        return ev
    params = {p["n"] for p in fn.params}
    for b, i, e in fn.elements():
        s = strip(e)
        if not (isinstance(s, dict) and s.get("k") == "call" and s.get("fn")):
            continue
        callee = prog.resolve_call(fn, s["fn"])
        if callee is None or callee.name in stack or callee is fn:
            continue
        amap = {}
        for q, a in zip(callee.params, s.get("args", [])):
            t = canon(strip(a))
            base = t[1:] if t.startswith("&") else t
            root = base.split("->", 1)[0].split(".", 1)[0]
            if root in params and "[" not in t and "(" not in t and " " not in t:
                amap[q["n"]] = t
        if not amap:
            continue
        sub = _events(prog, callee, depth - 1, stack + (fn.name,))
        dom_w = {}
        for (cb, ci, k, p, via) in sub:
            root = p.split("->", 1)[0].split(".", 1)[0]
            if root not in amap:
                continue
            m = _map(p, root, amap[root])
            if m is None:
                continue
            if k == "w":
                ev.append((b.id, i, "w", m, via or callee.name))
            else:
                # a read inside the callee that one of the callee's own writes dominates is not a read of the caller's value
                covered = any(k2 == "w" and p2 == p and (cb2, ci2) != (cb, ci) and cfg.pos_dominates(callee, (cb2, ci2), (cb, ci))
                              for (cb2, ci2, k2, p2, v2) in sub)
                if not covered:
                    ev.append((b.id, i, "r", m, via or callee.name))
    return ev


def check(ctx, prog, fn, rule, min_fields):
    if not fn.params:
        raise AnalysisBroken("%s has no object parameter" % fn.name)
    ev = _events(prog, fn, DEPTH)
    writes = {}
    for (b, i, k, p, via) in ev:
        if k == "w":
            writes.setdefault(p, []).append((b, i, via))
    ctx.require(len(writes) >= min_fields, "%s: only %d header fields are written by the decoder (expected >= %d)" % (rule, len(writes), min_fields))
    nreads = 0
    bad = []
    for (b, i, k, p, via) in ev:
        if k != "r" or p not in writes:
            continue
        nreads += 1
        if any((wb, wi) != (b, i) and cfg.pos_dominates(fn, (wb, wi), (b, i)) for (wb, wi, _) in writes[p]):
            continue
        if any((wb, wi) == (b, i) for (wb, wi, _) in writes[p]) and via is None:
            # accumulation in one element; an initialising write has to dominate it, which the test above covers
            pass
        later = [(wb, wi, wv) for (wb, wi, wv) in writes[p]
                 if (wb == b and wi > i) or (wb != b and cfg.can_reach(fn, b, wb))]
        if later:
            bad.append((b, i, p, via, later[0]))
    inst = "%s:order" % fn.name
    if bad:
        seen = set()
        for (b, i, p, via, (wb, wi, wv)) in bad:
            if p in seen:
                continue
            seen.add(p)
            e = fn.blocks[b].elems[i]
            we = fn.blocks[wb].elems[wi]
            ctx.fail(rule, fn.name, p, "%s is read%s at line %s before the decoder derives it (first assigned%s at line %s): the "
                     "value seen is the one from before the header was decoded" %
                     (p, " by %s()" % via if via else "", e.get("l", "?"), " by %s()" % wv if wv else "", we.get("l", "?")),
                     fn=fn, line=e.get("l", fn.line), inst="%s:%s" % (fn.name, p))
    else:
        ctx.ok(rule, inst, "%d header fields derived by the decoder, %d reads of them (own and through callees to depth %d): "
               "each read is dominated by the write that derives the field" % (len(writes), nreads, DEPTH))
    return len(writes)
