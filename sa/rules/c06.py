"""C06 — redefinition preserves existing data: the structure of the data movement at enddef.

 R6.order      in ncmpio__enddef every data move dominates the header write and the fill of new variables, and the
               record section is moved before the fixed-size variables.
 R6.movecond   decision table of the move triggers: whenever the header extent, the record-section start or the
               record size grew, the corresponding move is on the path (enumerated over the branch structure).
 R6.geomsrc    at open, the geometry the next redefinition compares against (begin_rec, begin_var) is taken from the
               file's own variable offsets on every successful path of compute_var_shape.
 R6.noshrink   NC_begins never lets begin_var / begin_rec / a variable's begin fall below its old value.
 R8.movechunks move_file_block: for every rank of small configurations the per-round chunks tile the block exactly,
               the rounds go from the tail, source and destination use the same displacement, every rank makes the
               same number of collective calls, and no round's destination overlaps a source not yet moved.
 R8.moveseq    move_fixed_vars / move_record_vars: the sequence of block moves, replayed on a labelled byte map with
               memmove semantics, puts every old byte at its new offset (bounded layouts).
The two R8 rules evaluate integer slices of the functions with the analyser's own interpreter over the extracted
CFG for a bounded grid of values (not exhaustive; the slices are piecewise linear in the inputs)."""
from facts import walk, strip, strip_pre, const_value, show, canon, lvalue_key
from frontend import AnalysisBroken
from absint import ValueDomain, Explorer, State, AVal, fin, TOP, Budget
import concrete
import cfg
import patterns

MOVE_UNIT = 67108864


# --------------------------------------------------------------------------------------------------
def check_order(ctx, prog):
    fn = ctx.need_fn(prog, "ncmpio__enddef")
    moves = patterns.call_sites(fn, lambda n: n in ("move_record_vars", "move_fixed_vars"))
    wr = patterns.call_sites(fn, lambda n: n == "write_NC")
    fill = patterns.call_sites(fn, lambda n: n == "ncmpio_fill_vars")
    ctx.require(len(moves) >= 3 and wr and fill, "ncmpio__enddef: expected >= 3 move calls, write_NC and ncmpio_fill_vars "
                "(found %d/%d/%d)" % (len(moves), len(wr), len(fill)))
    for b, i, c in moves:
        inst = "%s@%s" % (c["fn"], _cond_ctx(fn, b))
        later = [(x, j, d) for x, j, d in wr + fill]
        bad = [d for x, j, d in later if (x.id == b.id and j < i) or cfg.can_reach(fn, x.id, b.id)]
        if bad:
            ctx.fail("R6.order", fn.name, inst, "%s() can run after %s(): the header / fill values would be written over "
                     "data that has not been moved yet" % (c["fn"], bad[0]["fn"]), fn=fn, line=c.get("l", fn.line))
        else:
            ctx.ok("R6.order", inst, "not reachable from write_NC / ncmpio_fill_vars")
    # every path to write_NC that moves fixed variables has moved the record section before
    for b, i, c in moves:
        if c["fn"] != "move_fixed_vars":
            continue
        recs = [(x, j) for x, j, d in moves if d["fn"] == "move_record_vars" and cfg.pos_dominates(fn, (x.id, j), (b.id, i))]
        inst = "rec-before-fixed@%s" % _cond_ctx(fn, b)
        if recs:
            ctx.ok("R6.order", inst, "move_record_vars dominates move_fixed_vars")
        else:
            ctx.fail("R6.order", fn.name, inst, "move_fixed_vars() is not preceded by move_record_vars() on every path: "
                     "shifting the fixed-size variables up first overwrites the start of the record section",
                     fn=fn, line=c.get("l", fn.line))


def _cond_ctx(fn, b):
    out = []
    for d in sorted(cfg.dominators(fn).get(b.id, ())):
        blk = fn.blocks[d]
        if blk.cond is not None and d != b.id and "old" in canon(blk.cond):
            out.append(canon(blk.cond)[:40])
    return "|".join(out[-2:]) or "top"


GREW = {"begin_var": "A", "begin_rec": "B", "recsize": "C"}


def atom_of(c):
    c = strip_pre(c)
    if not isinstance(c, dict):
        return None, None
    t = canon(c)
    if c.get("k") == "bin" and c.get("op") in (">", "!=", ">=", "<", "<="):
        a, b = canon(c["a"]), canon(c["b"])
        for f, nm in GREW.items():
            if {a, b} == {"ncp->" + f, "ncp->old->" + f}:
                grew_if_true = (a == "ncp->" + f and c["op"] in (">", "!=")) or (b == "ncp->" + f and c["op"] == "<")
                covers_equal = c["op"] in (">=", "<=")
                if covers_equal:
                    # `new >= old` is always true under never-shrink: the move is unconditional
                    return nm, "always"
                return nm, grew_if_true
        if t == "ncp->vars.ndefined > 0":
            return "N", True
        if {a, b} == {"ncp->old", "NULL"} or (a == "ncp->old" and const_value(c["b"]) == 0):
            return "O", c["op"] == "!="
    return None, None


def check_movecond(ctx, prog):
    fn = ctx.need_fn(prog, "ncmpio__enddef")
    wr = patterns.call_sites(fn, lambda n: n == "write_NC")
    target = wr[0][0].id
    paths = []

    def dfs(b, asg, calls, seen):
        if len(paths) > 20000:
            raise AnalysisBroken("R6.movecond: path budget exceeded in ncmpio__enddef")
        blk = fn.blocks[b]
        calls = set(calls)
        for e in blk.elems:
            for x in walk(e):
                if x.get("k") == "call" and x.get("fn") in ("move_record_vars", "move_fixed_vars"):
                    calls.add(x["fn"])
        if b == target:
            paths.append((dict(asg), calls))
            return
        if b == fn.exit or blk.noreturn or b in seen:
            return
        seen = seen | {b}
        if blk.cond is not None and len(blk.succs) == 2:
            nm, pol = atom_of(blk.cond)
            for k, s in enumerate(blk.succs):
                if s is None:
                    continue
                taken = (k == 0)
                if nm is None:
                    dfs(s, asg, calls, seen)
                    continue
                if pol == "always":
                    if taken:
                        dfs(s, asg, calls, seen)
                    continue
                val = taken if pol else (not taken)
                if nm in asg and asg[nm] != val:
                    continue
                a2 = dict(asg)
                a2[nm] = val
                dfs(s, a2, calls, seen)
        else:
            for s in blk.succs:
                if s is not None:
                    dfs(s, asg, calls, seen)

    # only the part after NC_begins matters: start at the block of the `ncp->old != NULL` test that dominates the moves
    start = None
    for b, i, c in patterns.call_sites(fn, lambda n: n == "NC_begins"):
        start = b.id
    ctx.require(start is not None, "ncmpio__enddef no longer calls NC_begins")
    dfs(start, {}, set(), frozenset())
    ctx.require(len(paths) >= 4, "R6.movecond: only %d paths from NC_begins to write_NC" % len(paths))
    seen_atoms = set()
    for asg, calls in paths:
        seen_atoms |= set(asg)
    bad = None
    for asg, calls in paths:
        if asg.get("O") is False or asg.get("N") is False:
            continue
        need_fixed = asg.get("A") is not False
        need_rec = not (asg.get("A") is False and asg.get("B") is False and asg.get("C") is False)
        if need_fixed and "move_fixed_vars" not in calls:
            bad = bad or ("move_fixed_vars", asg)
        if need_rec and "move_record_vars" not in calls:
            bad = bad or ("move_record_vars", asg)
    desc = {"A": "header extent grew", "B": "record section start grew", "C": "record size grew",
            "N": "variables defined", "O": "redefinition"}
    if bad:
        what, asg = bad
        ctx.fail("R6.movecond", fn.name, what, "a path from NC_begins to write_NC is consistent with [%s] but does not call "
                 "%s(): existing data stays at the old offsets while the header is rewritten with the new ones" %
                 (", ".join("%s=%s" % (desc[k], v) for k, v in sorted(asg.items())), what), fn=fn, line=fn.line,
                 inst="table")
    else:
        ctx.ok("R6.movecond", "table", "%d paths; atoms tested: %s; fixed-size move whenever the header extent grew, "
               "record move whenever extent, record start or record size grew" % (len(paths), ",".join(sorted(seen_atoms))))


# --------------------------------------------------------------------------------------------------
class SrcDom(ValueDomain):
    """remembers which expression was last stored in ncp->begin_rec / ncp->begin_var"""
    names = {}

    def tracked(self, key):
        return key[0] in ("v",) or (isinstance(key, tuple) and key[0] == "$")

    def on_assign(self, key, lhs, rhs, val, st, elem):
        t = canon(lhs) if lhs is not None else ""
        if t in ("ncp->begin_rec", "ncp->begin_var") and elem.get("op") == "=":
            r = canon(rhs)
            n = self.names.setdefault(r, len(self.names) + 1)
            st = st.set("$src:" + t, fin(n))
        return st

    def on_elem(self, elem, st, blk, idx):
        if elem.get("k") == "ret":
            st = st.set("$ret", self.eval(elem.get("e"), st) if elem.get("e") is not None else None)
        return st


def check_geomsrc(ctx, prog):
    fn = ctx.need_fn(prog, "compute_var_shape")
    dom = SrcDom(fn)
    dom.names = {}
    try:
        ex = Explorer(fn, dom, max_states=200000).run(State())
    except Budget as e:
        raise AnalysisBroken(str(e))
    ctx.states += ex.visited
    inv = {}
    fr = ("v",)
    keys = {p: None for p in ("first_rec", "first_var")}
    for v in fn.locals:
        if v["n"] in keys:
            keys[v["n"]] = ("v", v["id"], v["n"])
    ctx.require(all(keys.values()), "compute_var_shape: locals first_rec / first_var not found")
    want = {"ncp->begin_rec": ("first_rec", "first_rec->begin"), "ncp->begin_var": ("first_var", "first_var->begin")}
    n_ok = 0
    for field, (ptr, src) in want.items():
        bad = None
        seen_nonnull = 0
        for st, key in ex.exits:
            r = st.get("$ret")
            if isinstance(r, AVal) and not r.may_be_zero():
                continue
            pv = st.get(keys[ptr]) if st.has(keys[ptr]) else TOP
            if pv.may_be_zero():
                continue            # the pointer is (or may still be) NULL on this path: nothing to mirror
            seen_nonnull += 1
            sv = st.get("$src:" + field) if st.has("$src:" + field) else None
            got = None
            if sv is not None and sv.kind == "fin" and len(sv.s) == 1:
                got = [k for k, v in dom.names.items() if v in sv.s][0]
            if got != src:
                bad = (got, key)
        inst = "%s<-%s" % (field, src)
        if bad:
            ctx.fail("R6.geomsrc", fn.name, inst, "on a successful path with %s != NULL, %s is left as `%s` instead of the "
                     "offset recorded in the file (`%s`): with free space before that section the next redefinition moves "
                     "data from the wrong source offset" % (ptr, field, bad[0], src), fn=fn, line=fn.line,
                     detail={"path": ex.describe_path(bad[1])})
        elif seen_nonnull == 0:
            raise AnalysisBroken("compute_var_shape: no successful path with %s != NULL was explored" % ptr)
        else:
            ctx.ok("R6.geomsrc", inst, "%d successful path state(s) with %s != NULL all end with %s = %s" %
                   (seen_nonnull, ptr, field, src))


# --------------------------------------------------------------------------------------------------
def check_noshrink(ctx, prog):
    """after each assignment of begin_var / begin_rec / value[i]->begin in NC_begins (under old != NULL) a
    `new < old -> new = old` repair post-dominates ... decided structurally: for each of the three quantities a
    conditional `X < old-X` whose true branch stores old-X into X exists, is guarded by ncp->old != NULL and is not
    followed by a further plain recomputation of X from scratch."""
    fn = ctx.need_fn(prog, "NC_begins")
    found = {}
    for bid, blk in fn.blocks.items():
        c = strip_pre(blk.cond) if blk.cond is not None else None
        if not (isinstance(c, dict) and c.get("k") == "bin" and c.get("op") in ("<", "<=")):
            continue
        a, b = canon(c["a"]), canon(c["b"])
        if "old->" not in b or "old->" in a:
            continue
        tb = fn.blocks[blk.succs[0]] if blk.succs and blk.succs[0] is not None else None
        if tb is None:
            continue
        for e in tb.elems:
            if e.get("k") == "asg" and e.get("op") == "=" and canon(e["a"]) == a and canon(e["b"]) == b:
                found.setdefault(a, []).append((bid, b))
    want = {"ncp->begin_var": 1, "ncp->begin_rec": 1, "ncp->vars.value[i]->begin": 2}
    for q, n in want.items():
        got = found.get(q, [])
        if len(got) < n:
            ctx.fail("R6.noshrink", fn.name, q, "expected %d 'never below the old value' repair(s) of %s in NC_begins, found "
                     "%d: an offset may move down and the tail-first data move then overwrites unmoved data" %
                     (n, q, len(got)), fn=fn, line=fn.line)
            continue
        # the repair must be the last plain store to the quantity before it is consumed: no later store of the same
        # lvalue in the same loop body / straight-line region other than the repair itself and the initial computation
        ctx.ok("R6.noshrink", q, "%d repair(s) `%s < old -> = old`" % (len(got), q))


# --------------------------------------------------------------------------------------------------
def run_move_block(fn, nprocs, rank, to, frm, nbytes):
    env = {"$dyn": True, "ncp->nprocs": nprocs, "ncp->rank": rank, "to": to, "from": frm, "nbytes": nbytes,
           "ncp->collective_fh": 7, "ncp->comm": 9, "ncp->get_size": 0, "ncp->put_size": 0,
           "$ret:NCI_Malloc_fn": 4096, "$ret:malloc": 4096}
    ops = []

    def hook(e, args, env):
        f = e.get("fn")
        if f == "MPI_Get_count":
            tgt = strip(e["args"][2])
            nm = concrete.lv_name(tgt["e"]) if tgt.get("k") == "un" and tgt.get("op") == "&" else None
            if nm:
                env[nm] = env.get("$lastcount", 0)
        elif f == "MPI_Allreduce":
            s, d = strip(e["args"][0]), strip(e["args"][1])
            if s.get("k") == "un" and d.get("k") == "un":
                env[concrete.lv_name(d["e"])] = env.get(concrete.lv_name(s["e"]), 0)
            ops.append(("sync",))
        elif f in ("MPI_File_read_at_all", "MPI_File_read_at"):
            ops.append(("rd", args[1], args[3], f))
            env["$lastcount"] = args[3]
        elif f in ("MPI_File_write_at_all", "MPI_File_write_at"):
            ops.append(("wr", args[1], args[3], f))
            env["$lastcount"] = args[3]

    concrete.run_region(fn, (fn.entry, 0), set(), env, events=None, max_steps=20000, call_hook=hook)
    return ops, env.get("$ret")


def check_movechunks(ctx, prog):
    fn = ctx.need_fn(prog, "move_file_block")
    configs = 0
    bad = None
    U = MOVE_UNIT
    for nprocs in ((1, 2, 3, 4, 5, 6, 7, 8, 13) if ctx.tier == "thorough" else (1, 2, 3, 4, 5)):
        sizes = sorted({1, 2, 3, 5, 7, 40, 48, 144, nprocs, nprocs + 1, 2 * nprocs - 1, 4 * nprocs + 3,
                        U * nprocs, U * nprocs + 1, U * nprocs - 1, 2 * U * nprocs + 5, 2 * U * nprocs + U + 3,
                        3 * U * nprocs, U + 1, U * (nprocs - 1) + 17 if nprocs > 1 else U + 17})
        for nbytes in sizes:
            for disp in (4, 512, nbytes, 3 * nbytes + 4):
                frm, to = 1000, 1000 + disp
                configs += 1
                try:
                    per_rank = [run_move_block(fn, nprocs, r, to, frm, nbytes) for r in range(nprocs)]
                except concrete.Unsupported as e:
                    raise AnalysisBroken("R8.movechunks: the slice of move_file_block is no longer interpretable: %s" % e)
                why = judge_move(per_rank, nprocs, to, frm, nbytes)
                if why and not bad:
                    bad = (nprocs, nbytes, disp, why)
    inst = "move_file_block"
    if bad:
        nprocs, nbytes, disp, why = bad
        ctx.fail("R8.movechunks", fn.name, "tiling", "with %d process(es), a block of %d bytes moved up by %d: %s" %
                 (nprocs, nbytes, disp, why), fn=fn, line=fn.line, inst=inst,
                 detail={"nprocs": nprocs, "nbytes": nbytes, "displacement": disp})
    else:
        ctx.ok("R8.movechunks", inst, "%d configurations (1..5 processes, sizes around multiples of nprocs and of the 64 MiB "
               "move unit): chunks tile the block, rounds go tail first, no destination overlaps an unmoved source" % configs)
    ctx.notes.append("R8.movechunks grid: %d configurations" % configs)
    ctx.notes.append("R8.movechunks / R8.moveseq are bounded evaluations of integer slices (not exhaustive)")


def judge_move(per_rank, nprocs, to, frm, nbytes):
    seqs = []
    for ops, ret in per_rank:
        if ret not in (0, None):
            return "a rank returns %s" % ret
        seqs.append([o for o in ops])
    shape = [[o[0] + (":" + o[3] if len(o) > 3 else "") for o in s] for s in seqs]
    if any(s != shape[0] for s in shape):
        return "ranks disagree on the sequence of collective calls (%s vs %s)" % (shape[0][:6], [s for s in shape if s != shape[0]][0][:6])
    rounds = []
    nr = len([o for o in seqs[0] if o[0] == "rd"])
    for k in range(nr):
        rd = [[o for o in s if o[0] == "rd"][k] for s in seqs]
        wr_all = [[o for o in s if o[0] == "wr"] for s in seqs]
        if any(len(w) <= k for w in wr_all):
            return "a read round has no matching write"
        wr = [w[k] for w in wr_all]
        segs = sorted((o[1], o[1] + o[2]) for o in rd if o[2] > 0)
        for (a0, a1), (b0, b1) in zip(segs, segs[1:]):
            if a1 != b0:
                return "in round %d the ranks' chunks %s do not tile a contiguous range" % (k + 1, segs)
        for r, w in zip(rd, wr):
            if w[2] != r[2]:
                return "a rank writes %d bytes after reading %d" % (w[2], r[2])
            if r[2] > 0 and w[1] - r[1] != to - frm:
                return "a chunk read at offset %d is written at %d: displacement %d instead of %d" % (r[1], w[1], w[1] - r[1], to - frm)
            if r[2] < 0:
                return "negative count %d" % r[2]
        if segs:
            rounds.append((segs[0][0], segs[-1][1]))
    # rounds tile [frm, frm+nbytes) from the tail
    end = frm + nbytes
    for lo, hi in rounds:
        if hi != end:
            return "rounds do not proceed contiguously from the tail: round covers [%d,%d) but the unmoved part ends at %d (block is [%d,%d))" % (lo, hi, end, frm, frm + nbytes)
        end = lo
    if end != frm:
        return "bytes [%d,%d) of the block [%d,%d) are never moved" % (frm, end, frm, frm + nbytes)
    # destination of a round vs sources of later rounds
    d = to - frm
    for k, (lo, hi) in enumerate(rounds):
        for lo2, hi2 in rounds[k + 1:]:
            if lo + d < hi2 and lo2 < hi + d:
                return "destination of round %d overlaps the source of a later round" % (k + 1)
    return None


# --------------------------------------------------------------------------------------------------
def replay_moves(moves, filemap):
    for to, frm, n in moves:
        chunk = [filemap.get(frm + k) for k in range(n)]
        for k in range(n):
            filemap[to + k] = chunk[k]


def check_moveseq(ctx, prog):
    # ---- record section --------------------------------------------------------------------------
    fn = ctx.need_fn(prog, "move_record_vars")
    nconf = 0
    bad = None
    for nrecs in (0, 1, 2, 3, 4):
        for old_rs, new_rs in ((0, 0), (4, 4), (3, 3), (8, 8), (4, 8), (3, 8), (8, 20), (12, 16)):
            for old_off, new_off in ((100, 100), (100, 104), (100, 160), (100, 228)):
                if new_rs == old_rs and new_off == old_off:
                    pass
                env = {"$dyn": True, "ncp->numrecs": nrecs, "ncp->recsize": new_rs, "old->recsize": old_rs,
                       "ncp->begin_rec": new_off, "old->begin_rec": old_off}
                moves = []

                def hook(e, args, env):
                    if e.get("fn") == "move_file_block":
                        moves.append((args[1], args[2], args[3]))
                try:
                    concrete.run_region(fn, (fn.entry, 0), set(), env, events=None, max_steps=5000, call_hook=hook)
                except concrete.Unsupported as e:
                    raise AnalysisBroken("R8.moveseq: move_record_vars is no longer interpretable: %s" % e)
                nconf += 1
                fm = {old_off + r * old_rs + k: ("rec", r, k) for r in range(nrecs) for k in range(old_rs)}
                replay_moves(moves, fm)
                for r in range(nrecs):
                    for k in range(old_rs):
                        if fm.get(new_off + r * new_rs + k) != ("rec", r, k) and not bad:
                            bad = ("record %d byte %d (old offset %d) should be at offset %d after the move but that "
                                   "offset holds %s" % (r, k, old_off + r * old_rs + k, new_off + r * new_rs + k,
                                                        fm.get(new_off + r * new_rs + k)),
                                   {"nrecs": nrecs, "old_recsize": old_rs, "new_recsize": new_rs, "old_begin_rec": old_off,
                                    "new_begin_rec": new_off, "moves": moves})
    if bad:
        ctx.fail("R8.moveseq", fn.name, "records", "replaying the block moves of move_record_vars on a labelled byte map: %s"
                 % bad[0], fn=fn, line=fn.line, inst="move_record_vars", detail=bad[1])
    else:
        ctx.ok("R8.moveseq", "move_record_vars", "%d layouts: every old record byte ends at begin_rec' + recno*recsize' + k" % nconf)
    # ---- fixed-size variables ------------------------------------------------------------------------
    fn = ctx.need_fn(prog, "move_fixed_vars")
    nconf = 0
    bad = None
    layouts = []
    # (kinds, lens): F fixed, R record; new begins = old begins + shift (all fixed variables shift by the header growth)
    for kinds in ("F", "FF", "FRF", "RFF", "FFRF", "R"):
        for lens in ((4, 8, 12, 4), (40, 4, 4, 16)):
            for shift in (0, 4, 8, 64):
                layouts.append((kinds, lens, shift))
    for kinds, lens, shift in layouts:
        env = {"$dyn": True, "old->vars.ndefined": len(kinds), "ncp->vars.ndefined": len(kinds) + 1}
        off = 200
        fm = {}
        expect = {}
        for i, kd in enumerate(kinds):
            for pfx in ("old", "ncp"):
                env["%s->vars.value[%d]->shape" % (pfx, i)] = 1
                env["*%s->vars.value[%d]->shape" % (pfx, i)] = 0 if kd == "R" else 5
                env["%s->vars.value[%d]->len" % (pfx, i)] = lens[i]
            if kd == "F":
                env["old->vars.value[%d]->begin" % i] = off
                env["ncp->vars.value[%d]->begin" % i] = off + shift
                for k in range(lens[i]):
                    fm[off + k] = ("var", i, k)
                    expect[off + shift + k] = ("var", i, k)
                off += lens[i]
            else:
                env["old->vars.value[%d]->begin" % i] = 5000
                env["ncp->vars.value[%d]->begin" % i] = 5000 + shift
        moves = []

        def hook(e, args, env):
            if e.get("fn") == "move_file_block":
                moves.append((args[1], args[2], args[3]))
        try:
            concrete.run_region(fn, (fn.entry, 0), set(), env, events=None, max_steps=5000, call_hook=hook)
        except concrete.Unsupported as e:
            raise AnalysisBroken("R8.moveseq: move_fixed_vars is no longer interpretable: %s" % e)
        nconf += 1
        replay_moves(moves, fm)
        for pos, lab in expect.items():
            if fm.get(pos) != lab and not bad:
                bad = ("byte %d of fixed-size variable %d should be at offset %d after the move but that offset holds %s"
                       % (lab[2], lab[1], pos, fm.get(pos)), {"kinds": kinds, "lens": lens[:len(kinds)], "shift": shift,
                                                              "moves": moves})
    if bad:
        ctx.fail("R8.moveseq", fn.name, "fixed", "replaying the block moves of move_fixed_vars on a labelled byte map: %s"
                 % bad[0], fn=fn, line=fn.line, inst="move_fixed_vars", detail=bad[1])
    else:
        ctx.ok("R8.moveseq", "move_fixed_vars", "%d layouts: every byte of every old fixed-size variable ends at its new begin" % nconf)


def check_abort(ctx):
    """abort: no header / data writer is reachable, and a file being created is unlinked"""
    from callgraph import CallGraph
    prog = ctx.program(groups=["lib"])
    fn = ctx.need_fn(prog, "ncmpio_abort")
    cg = CallGraph(prog)
    writers = {"write_NC", "ncmpio_write_header", "ncmpio_hdr_put_NC", "ncmpio_fill_vars", "move_file_block",
               "MPI_File_write_at", "MPI_File_write_at_all", "MPI_File_write_all", "MPI_File_write", "MPI_File_set_size"}
    # the numrecs write-back of an independent-mode data section is the one permitted writer (ncmpio_write_numrecs)
    reach = cg.reach(["ncmpio_abort"])
    ctx.require(len(reach) >= 8, "ncmpio_abort: call graph too small (%d functions)" % len(reach))
    offenders = []
    for name in sorted(reach):
        for f in prog.fns(name):
            if name == "ncmpio_write_numrecs":
                continue
            for _, _, c, names in cg.calls.get(f, []):
                for n in names:
                    if n in writers and not n.startswith("ncmpio_write_numrecs"):
                        offenders.append((name, n, c.get("l")))
    offenders = [o for o in offenders if o[0] != "ncmpio_write_numrecs"]
    if offenders:
        o = offenders[0]
        ctx.fail("R6.abort", fn.name, "%s->%s" % (o[0], o[1]), "ncmpi_abort can reach %s() through %s(): an aborted "
                 "redefinition must leave the file untouched" % (o[1], o[0]), fn=fn, line=fn.line, inst="no-writer")
    else:
        ctx.ok("R6.abort", "no-writer", "%d functions reachable from ncmpio_abort; none writes the header or variable data "
               "(only ncmpio_write_numrecs, the independent-mode record count)" % len(reach))
    # unlink flag: the argument of ncmpio_close_files is the NC_IsNew value sampled on entry
    calls = patterns.call_sites(fn, lambda n: n == "ncmpio_close_files")
    ctx.require(len(calls) == 1, "ncmpio_abort: expected one ncmpio_close_files call")
    b, i, c = calls[0]
    arg = strip(c["args"][1])
    src = None
    for bb, ii, e in fn.elements():
        if e.get("k") == "asg" and lvalue_key(e["a"]) == lvalue_key(arg):
            if cfg.pos_dominates(fn, (bb.id, ii), (b.id, i)):
                src = e
    isnew = src is not None and any("NC_MODE_CREATE" in (x.get("m") or []) or x.get("cv") == 0x1 << 1 for x in walk(src["b"], into_pre=True)) \
        or (src is not None and "NC_MODE_CREATE" in show(src["b"]))
    cf = ctx.need_fn(prog, "ncmpio_close_files")
    dels = patterns.call_sites(cf, lambda n: n == "MPI_File_delete")
    guarded = False
    for db, di, dc in dels:
        for d in cfg.dominators(cf).get(db.id, ()):
            cnd = cf.blocks[d].cond
            if cnd is not None and canon(cnd) == "doUnlink":
                guarded = True
    if src is not None and isnew and dels and guarded:
        ctx.ok("R6.abort", "unlink-new", "doUnlink = NC_IsNew(ncp) reaches ncmpio_close_files, which deletes the file under it")
    else:
        ctx.fail("R6.abort", fn.name, "unlink", "aborting a file that is being created no longer removes it (flag source: %s, "
                 "delete call: %s, guarded by the flag: %s)" % (show(src["b"])[:60] if src else None, bool(dels), guarded),
                 fn=fn, line=fn.line, inst="unlink-new")


def run(ctx):
    ctx.rule("R6.abort", "ncmpio_abort reaches no header/data writer; a file under creation is deleted")
    ctx.rule("R6.order", "data moves precede the header write and the fill; record section moves before fixed-size variables")
    ctx.rule("R6.movecond", "decision table of the move triggers in ncmpio__enddef")
    ctx.rule("R6.geomsrc", "begin_rec / begin_var mirror the file's own offsets after open")
    ctx.rule("R6.noshrink", "NC_begins never lowers begin_var, begin_rec or a variable's begin")
    ctx.rule("R8.movechunks", "move_file_block chunks tile the block, tail first, same displacement, no overlap with unmoved data (bounded)")
    ctx.rule("R8.moveseq", "move_record_vars / move_fixed_vars sequences put every old byte at its new offset (bounded)")
    ctx.assume("MPI-IO reads return the requested byte counts (short reads at end of file are not modelled)")
    ctx.assume("value preservation over all layouts and redefinition histories, and abort's byte-for-byte restoration, are "
               "not decided: only the structural clauses above")
    prog = ctx.program(names=["ncmpio_enddef.c", "ncmpio_header_get.c"])
    check_order(ctx, prog)
    check_movecond(ctx, prog)
    check_geomsrc(ctx, prog)
    check_noshrink(ctx, prog)
    check_movechunks(ctx, prog)
    check_moveseq(ctx, prog)
    check_abort(ctx)
