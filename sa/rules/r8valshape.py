"""R8.valshape — ncvalidator's var_shape64(): the length it derives for a variable (which its overlap and file-size checks
rely on) is the byte size of the variable: element size x the product of all dimensions except the record dimension,
rounded up to 4.  The whole function is evaluated on shapes of 1..3 dimensions with lengths 1, 2, 5, 6 (and the record
dimension in front), element sizes 1, 2, 4, 8."""
import itertools
import concrete
from frontend import AnalysisBroken


def check(ctx, fn, rule):
    cells = 0
    bad = None
    for nd in (1, 2, 3):
        for shape in itertools.product((0, 1, 2, 5, 6), repeat=nd):
            if any(s == 0 for s in shape[1:]):
                continue                        # only the first dimension may be the record dimension
            for xsz in (1, 2, 4, 8):
                env = {"$dyn": True, "varp": ("P", "VAR", 0), "VAR[0].ndims": nd, "VAR[0].xtype": 4, "VAR[0].dimids": ("P", "DID", 0),
                       "VAR[0].shape": ("P", "SH", 0), "VAR[0].dsizes": ("P", "DS", 0), "dims": ("P", "DA", 0), "DA[0].ndefined": nd,
                       "loc": "x", "verbose": 0, "VAR[0].xsz": 0, "VAR[0].len": 0}
                for i, s in enumerate(shape):
                    env["DID[%d]" % i] = i
                    env["DIM[%d].size" % i] = s
                    env["SH[%d]" % i] = -7
                    env["DS[%d]" % i] = -7

                def elem(dims, i):
                    return ("P", "DIM", i)
                env["$impl"] = {"elem_NC_dimarray": elem, "xlen_nc_type": (lambda t, xsz=xsz: xsz)}
                try:
                    concrete.run_region(fn, (fn.entry, 0), set(), env, max_steps=800)
                except concrete.Unsupported as u:
                    raise AnalysisBroken("%s is no longer interpretable: %s" % (fn.name, u))
                except KeyError as u:
                    raise AnalysisBroken("%s reads an unbound location %s" % (fn.name, u))
                cells += 1
                if env.get("$ret") or bad is not None:
                    continue
                prod = 1
                for s in shape:
                    if s != 0:
                        prod *= s
                want = prod * xsz
                want += (-want) % 4
                got = env.get("VAR[0].len")
                if got != want:
                    bad = (list(shape), xsz, got, want)
    inst = "%s:len" % fn.name
    if bad:
        ctx.fail(rule, fn.name, "len", "shape %s (0 = record dimension), %d-byte elements: the validator takes the variable to occupy %s "
                 "bytes, it occupies %s - a following variable placed inside its data is not seen as overlapping" % bad,
                 fn=fn, line=fn.line, inst=inst)
    else:
        ctx.ok(rule, inst, "%d (shape, element size) cells: length = element size x product of the non-record dimensions, rounded to 4" % cells)
    return cells
