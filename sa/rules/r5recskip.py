"""R5.recskip — "treat one record of a record variable as a fixed-size variable": the code drops the record dimension
with `ndims--` and advances the per-dimension arrays (`start++, count++, stride++, shape++`).  Every per-dimension array
that is afterwards handed, together with the reduced dimension count, to a callee that reads it (pointer-to-const
parameter) must have been advanced in the same conditional arm — an array left behind is read shifted by one dimension
(wrong row pitch, wrong offsets).  Instances are located structurally: an arm that decrements an int local and
increments at least two pointer locals."""
from facts import walk, strip, canon
from frontend import AnalysisBroken
import cfg
import patterns


def _controlling(fn, bid, pd):
    best = None
    for d, blk in fn.blocks.items():
        if blk.cond is None or len(blk.succs) != 2 or d == bid or blk.term in ("for", "while", "do"):
            continue
        if bid in pd.get(d, set()):
            continue
        succs = [s for s in blk.succs if s is not None]
        if any(s == bid or bid in pd.get(s, set()) for s in succs):
            # innermost: the one dominated by all other candidates
            if best is None or d not in cfg.dominators(fn).get(best, set()):
                if best is None or best in cfg.dominators(fn).get(d, set()):
                    best = d
    return best


def check(ctx, prog, rule, min_instances=4):
    n = 0
    fns = {}
    for fn in prog.all_functions():
        fns.setdefault(fn.name, fn)
    for fn in prog.all_functions():
        pd = None
        seen_arms = set()
        for bid, blk in fn.blocks.items():
            incs, decs = {}, {}
            for e in blk.elems:
                for x in walk(e):
                    if x.get("k") == "un" and x.get("op") in ("post++", "pre++", "post--", "pre--"):
                        t = strip(x["e"])
                        if t.get("k") == "ref" and t.get("dk") in ("local", "param"):
                            ty = fn.type(t.get("t"))
                            if "++" in x["op"] and ty.get("k") == "ptr":
                                incs[t["id"]] = t["n"]
                            if "--" in x["op"] and ty.get("k") == "int":
                                decs[t["id"]] = t["n"]
            if len(incs) < 2 or not decs:
                continue
            if pd is None:
                pd = cfg.postdominators(fn)
            cnd = _controlling(fn, bid, pd)
            if cnd is None:
                continue
            join = patterns.ipdom(fn, cnd)
            side = [s for s in fn.blocks[cnd].succs if s is not None and (s == bid or bid in patterns.region(fn, s, {join} if join is not None else set()))]
            if not side or (cnd, side[0]) in seen_arms:
                continue
            seen_arms.add((cnd, side[0]))
            arm = patterns.region(fn, side[0], {join} if join is not None else set())
            # all increments in the arm
            S = dict(incs)
            for ab in arm:
                for e in fn.blocks[ab].elems:
                    for x in walk(e):
                        if x.get("k") == "un" and x.get("op") in ("post++", "pre++"):
                            t = strip(x["e"])
                            if t.get("k") == "ref" and fn.type(t.get("t")).get("k") == "ptr":
                                S[t["id"]] = t["n"]
            n += 1
            ctx.functions_analysed.add((fn.unit.name, fn.name))
            dname = sorted(decs.values())[0]
            inst = "%s:recskip@%s" % (fn.name, "+".join(sorted(S.values())))
            # calls after the arm, within the same loop iteration, that take the reduced count
            stop = set()
            for lp in patterns.loops(fn):
                if bid in lp.body:
                    stop.add(lp.head.id)
            after = patterns.region(fn, join, stop) if join is not None else set()
            missing = None
            ncalls = 0
            for ab in after:
                for e in fn.blocks[ab].elems:
                    for c in walk(e):
                        if c.get("k") != "call" or not c.get("fn") or c["fn"] not in fns:
                            continue
                        args = c.get("args", [])
                        if not any(strip(a).get("k") == "ref" and strip(a).get("id") in decs for a in args):
                            continue
                        callee = fns[c["fn"]]
                        ncalls += 1
                        for k, a in enumerate(args):
                            sa = strip(a)
                            if sa.get("k") != "ref" or fn.type(sa.get("t")).get("k") != "ptr" or k >= len(callee.params):
                                continue
                            pt = callee.type(callee.params[k]["t"])
                            if pt.get("k") != "ptr" or "const" not in (pt.get("s") or ""):
                                continue
                            if sa.get("id") not in S and missing is None:
                                missing = (sa["n"], c["fn"], callee.params[k]["n"], c.get("l", 0))
            if missing:
                ctx.fail(rule, fn.name, "recskip:%s" % missing[0], "the record dimension is dropped (`%s--`, %s advanced) but `%s` is not advanced: "
                         "%s() reads it as `%s` with the reduced dimension count, one dimension off" % (
                             dname, ", ".join(sorted(S.values())), missing[0], missing[1], missing[2]),
                         fn=fn, line=missing[3], inst=inst)
            else:
                ctx.ok(rule, inst, "%d call(s) with the reduced count: every per-dimension input array was advanced" % ncalls,
                       nontrivial=ncalls > 0)
    if n < min_instances:
        raise AnalysisBroken("%s: only %d record-skip arms found (%d confirmed by hand)" % (rule, n, min_instances))
    return n
