"""C11 — I/O failures are never dropped (rule family R1).

Local obligation (R1.site): for every MPI-IO data-transfer / sync call site,
on every path from the call with a failing return (any error class) to a
function exit, the function returns a non-zero status.
Interprocedural obligation (R1.call): every call site of a function that can
return such an error must do the same with the callee's result, up through the
PNC_driver slot and the dispatcher wrapper to the public ncmpi_* function.
R1.map: ncmpii_error_mpi2nc never maps a failure to NC_NOERR.
"""
from absint import ValueDomain, Explorer, State, TOP, NONZERO, ONE, Budget
from callgraph import CallGraph, slot_of_call
from facts import walk, strip, strip_pre, const_value, show, line_of, lvalue_key, macro_of
from frontend import AnalysisBroken

IO_CALLS = set()
for base in ("read", "write"):
    for at in ("", "_at"):
        for al in ("", "_all"):
            IO_CALLS.add("MPI_File_%s%s%s" % (base, at, al))
            IO_CALLS.add("MPI_File_%s%s%s_c" % (base, at, al))
IO_CALLS.add("MPI_File_sync")

# reasoned exceptions of the call-site rule: (caller, callee) -> reason.
# A caller listed here is allowed not to return the callee's I/O error.
CALL_EXCEPTIONS = {
}


import os
ONCE = os.environ.get('C11_ONCE', '1') == '1'   # a faulted site fails the first time it runs; later runs may succeed


class Dom(ValueDomain):
    def __init__(self, fn, target):
        super().__init__(fn)
        self.target = target

    def tracked(self, key):
        if isinstance(key, str):
            return True
        if key[0] == "m" and key[2] == "rank":
            return True
        if key[0] == "v":
            v = self.fn.vars.get(key[1])
            if v is None:
                return False
            return self.fn.type(v["t"]).get("k") in ("int", "uint", "enum")
        return False

    def call_value(self, call, st):
        if call is self.target:
            if ONCE and st.has("$again"):
                return TOP
            return NONZERO
        if call.get("fn") == "ncmpii_error_mpi2nc":
            return NONZERO
        return TOP

    def on_call(self, call, st, blk, idx):
        if call is self.target:
            if ONCE and st.has("$f"):
                return st.set("$again", ONE)
            return st.set("$f", ONE)
        if call.get("fn") == "MPI_Allreduce":
            # MIN-reduction of a failing (negative) NC status is failing on every rank
            a = call.get("args", [])
            if len(a) >= 5 and macro_of(a[4]) == "MPI_MIN" and const_value(a[2]) == 1:
                s0, r0 = strip(a[0]), strip(a[1])
                if s0.get("k") == "un" and s0.get("op") == "&" and r0.get("k") == "un" and r0.get("op") == "&":
                    sv = self.eval(s0["e"], st)
                    rk = lvalue_key(r0["e"])
                    if rk is not None and not sv.may_be_zero() and self.tracked(rk):
                        return st.set(rk, NONZERO)
        return st

    def on_elem(self, elem, st, blk, idx):
        if elem.get("k") == "ret":
            e = elem.get("e")
            return st.set("$ret", self.eval(e, st) if e is not None else None)
        return st


def is_zero_length_participation(call):
    """MPI-IO call with a literal NULL buffer and literal zero count."""
    args = call.get("args", [])
    name = call.get("fn", "")
    if name == "MPI_File_sync":
        return False
    # (fh, [offset,] buf, count, type, status)
    bi = 2 if "_at" in name else 1
    if len(args) <= bi + 1:
        return False
    return const_value(args[bi]) == 0 and const_value(args[bi + 1]) == 0


def site_id(fn, call, all_calls):
    name = call.get("fn") or ("driver->" + (slot_of_call(call) or "?"))
    same = [c for c in all_calls if (c.get("fn") or ("driver->" + (slot_of_call(c) or "?"))) == name]
    same.sort(key=lambda c: c.get("l", 0))
    k = [id(c) for c in same].index(id(call)) + 1
    return "%s#%d" % (name, k)


def check_site(ctx, fn, call, rule, sid, what_callee, dom_cls=None):
    """explore fn with `call` failing; all faulted exits must return non-zero."""
    dom = (dom_cls or Dom)(fn, call)
    ex = Explorer(fn, dom)
    try:
        ex.run(State())
    except Budget as e:
        raise AnalysisBroken(str(e))
    ctx.states += ex.visited
    bad = None
    faulted = 0
    for st, key in ex.exits:
        if not st.has("$f"):
            continue
        faulted += 1
        r = st.get("$ret", None)
        if r is None or (hasattr(r, "may_be_zero") and r.may_be_zero()):
            bad = (st, key)
            break
    ftype = fn.type(fn.ret)
    inst = "%s:%s" % (fn.name, sid)
    if faulted == 0:
        # call site not reachable on any explored path (dead code): nothing to show
        ctx.instance(rule, inst)
        return True
    if bad is None:
        ctx.ok(rule, inst, "all %d exit state(s) after a failing %s return non-zero" % (faulted, what_callee))
        return True
    st, key = bad
    path = ex.describe_path(key)
    if ftype.get("k") == "void":
        what = "%s can fail but %s() returns void: the failure cannot reach the caller" % (what_callee, fn.name)
    else:
        what = ("a failing %s can reach a return of %s() whose value may be NC_NOERR "
                "(error dropped or overwritten before it is tested)" % (what_callee, fn.name))
    ctx.fail(rule, fn.name, sid, what, fn=fn, line=call.get("l", 0), inst=inst,
             detail={"entry": fn.name, "failing_call": show(call)[:160], "call_line": call.get("l"),
                     "path": path, "exit_state": repr(st)})
    return False


def run(ctx):
    ctx.rule("R1.site", "every MPI_File_{read,write}{,_at}{,_all} / MPI_File_sync call: on all paths after a "
             "non-MPI_SUCCESS return (error class free) the enclosing function returns non-zero")
    ctx.rule("R1.call", "every call site of a function that can return an I/O error (fixpoint from the sites, "
             "through PNC_driver slots and dispatcher wrappers): on all paths after a non-zero result the "
             "caller returns non-zero")
    ctx.rule("R1.map", "ncmpii_error_mpi2nc returns a non-zero constant on every path")
    ctx.assume("NC error codes are negative: an MPI_MIN reduction of a failing status is failing on every rank")
    ctx.assume("MPI communication calls and allocations succeed (assume_alloc_ok); only file I/O faults are injected")
    ctx.assume("faults inside MPI_File_open/close/set_view/set_size/delete are not reads, writes or syncs and are "
               "not injected")
    groups = ["lib"] if ctx.tier == "quick" else ["lib", "bb"]
    prog = ctx.program(groups=groups)
    cg = CallGraph(prog)

    # ---- R1.map ---------------------------------------------------------------
    m = ctx.need_fn(prog, "ncmpii_error_mpi2nc")
    nret = 0
    for b, i, e in m.elements():
        if e.get("k") == "ret":
            nret += 1
            v = const_value(e.get("e"))
            if v is None or v == 0:
                ctx.fail("R1.map", m.name, "return", "ncmpii_error_mpi2nc may return NC_NOERR / a non-constant "
                         "for a failed MPI call", fn=m, line=e.get("l", 0))
            else:
                ctx.ok("R1.map", "ncmpii_error_mpi2nc:return@%s" % show(e.get("e")), "non-zero constant")
    ctx.require(nret >= 5, "ncmpii_error_mpi2nc: expected >= 5 return statements, found %d" % nret)

    # ---- R1.site ----------------------------------------------------------------
    sites = []     # (fn, call)
    for fn in prog.all_functions():
        for (b, i, c, names) in cg.calls.get(fn, []):
            if c.get("fn") in IO_CALLS:
                sites.append((fn, c))
    info = []
    ioerr = set()
    for fn, c in sites:
        ctx.functions_analysed.add((fn.unit.name, fn.name))
        allc = [cc for (_, _, cc, _) in cg.calls[fn]]
        sid = site_id(fn, c, allc)
        ioerr.add(fn.name)
        if is_zero_length_participation(c):
            # a collective call joined with a zero-length request can still report the failure of the collective on this
            # process (an aggregator writes other processes' data): its result has to reach the caller like any other
            info.append("%s %s (line %s): zero-length participation" % (fn.name, sid, c.get("l")))
        check_site(ctx, fn, c, "R1.site", sid, c["fn"])
    ctx.min_instances("R1.site", 28)
    for s in info:
        ctx.notes.append(s)

    # ---- R1.call ----------------------------------------------------------------
    # IOERR closure over direct calls and driver slots
    changed = True
    lib_fns = {}
    for fn in prog.all_functions():
        lib_fns.setdefault(fn.name, []).append(fn)
    while changed:
        changed = False
        for fn in prog.all_functions():
            if fn.name in ioerr:
                continue
            for (b, i, c, names) in cg.calls.get(fn, []):
                if any(n in ioerr for n in names):
                    ioerr.add(fn.name)
                    changed = True
                    break
    ncalls = 0
    for fn in prog.all_functions():
        allc = [cc for (_, _, cc, _) in cg.calls.get(fn, [])]
        for (b, i, c, names) in cg.calls.get(fn, []):
            tgt = [n for n in names if n in ioerr]
            if not tgt:
                continue
            ncalls += 1
            ctx.functions_analysed.add((fn.unit.name, fn.name))
            sid = site_id(fn, c, allc)
            callee = c.get("fn") or "driver->%s [%s]" % (slot_of_call(c), ",".join(tgt))
            exc = CALL_EXCEPTIONS.get((fn.name, c.get("fn") or slot_of_call(c)))
            if exc:
                ctx.instance("R1.call", "%s:%s" % (fn.name, sid))
                ctx.notes.append("exception %s -> %s: %s" % (fn.name, callee, exc))
                continue
            check_site(ctx, fn, c, "R1.call", sid, callee)
    ctx.min_instances("R1.call", 100)
    ctx.note("I/O sites: %d (%d zero-length participation), IOERR functions: %d, call sites checked: %d"
             % (len(sites), len(info), len(ioerr), ncalls))
