"""R3.siblings — every place that releases an object held in a longer-lived structure releases the same owned parts.

An *owned field* g of a structure type S is one that some function fills from an allocator (`x->g = NCI_Malloc(..)`).
A *release site* is a call free(P) where P is a member / element expression (so the object hangs off something that
outlives the function) of type S*.  For each S with owned fields the release sites are compared: a site must release,
before P itself, every owned field that some sibling site releases - directly (`free(P->g)`, `free(P[i].g)`) or by
handing P (or P[i]) to a function that releases that field of its parameter.  A site that releases less than its
siblings keeps memory the others give back (ncmpio_free_NC released the attached-buffer descriptor only, while
ncmpi_buffer_detach also released the buffer and its slot table)."""
from facts import walk, strip, canon
from frontend import AnalysisBroken
import cfg
import patterns
from rules.r3free import ALLOC_FNS, FREE_FNS

FREES = set(FREE_FNS) | {"free", "NCI_Free_fn"}


def _unc(a):
    a = strip(a)
    while isinstance(a, dict) and a.get("k") == "cast":
        a = strip(a["e"])
    return a


def _pointee(fn, node):
    t = fn.type(node.get("t")) if isinstance(node, dict) and node.get("t") is not None else {}
    if t.get("k") != "ptr" or t.get("to") is None:
        return None
    s = (fn.type(t["to"]).get("s") or "").replace("struct ", "").replace("const ", "").strip()
    return s or None


def owned_fields(prog):
    owned = {}
    for fn in prog.all_functions():
        for b, i, e in fn.elements():
            for x in walk(e):
                if x.get("k") == "asg" and x.get("op") == "=":
                    l = strip(x["a"])
                    if l.get("k") == "mem" and l.get("rec"):
                        r = _unc(x["b"])
                        if isinstance(r, dict) and r.get("k") == "call" and r.get("fn") in ALLOC_FNS:
                            owned.setdefault(l["rec"], set()).add(l["f"])
    return owned


def param_field_frees(prog):
    """function -> {param index -> set(fields of the parameter (or of its elements) it releases)}"""
    out = {}
    for fn in prog.all_functions():
        pn = {p["n"]: k for k, p in enumerate(fn.params)}
        for b, i, c in patterns.call_sites(fn, lambda n: n in FREES):
            a = _unc(c["args"][0])
            if not (isinstance(a, dict) and a.get("k") == "mem"):
                continue
            base = strip(a["b"])
            while isinstance(base, dict) and base.get("k") in ("idx",):
                base = strip(base["b"])
            if isinstance(base, dict) and base.get("k") == "ref" and base.get("n") in pn:
                out.setdefault(fn.name, {}).setdefault(pn[base["n"]], set()).add(a["f"])
    return out


def check(ctx, prog, rule, min_sites=8):
    owned = owned_fields(prog)
    pff = param_field_frees(prog)
    sites = {}          # S -> [(fn, call, P text, released fields)]
    for fn in prog.all_functions():
        if fn.relfile().endswith("mem_alloc.c"):
            continue
        frees = [(b, i, c, _unc(c["args"][0])) for b, i, c in patterns.call_sites(fn, lambda n: n in FREES)]
        for b, i, c, a in frees:
            if not (isinstance(a, dict) and a.get("k") in ("mem", "idx")):
                continue
            S = _pointee(fn, a)
            if S not in owned:
                continue
            P = canon(a)
            rel = set()
            for b2, i2, c2, a2 in frees:
                if isinstance(a2, dict) and a2.get("k") == "mem" and a2.get("rec") == S and a2["f"] in owned[S]:
                    base = canon(a2["b"])
                    if base == P or base.startswith(P + "[") or base == "(*%s)" % P or base == "*" + P:
                        rel.add(a2["f"])
            for b2, i2, e2 in fn.elements():
                for c2 in walk(e2):
                    if c2.get("k") == "call" and c2.get("fn") in pff:
                        for k, arg in enumerate(c2.get("args", [])):
                            t = canon(_unc(arg))
                            if (t == P or t.startswith(P + "[")) and k in pff[c2["fn"]]:
                                rel |= pff[c2["fn"]][k] & owned[S]
            sites.setdefault(S, []).append((fn, c, P, rel))
    n = 0
    for S, lst in sorted(sites.items()):
        union = set()
        for fn, c, P, rel in lst:
            union |= rel
        for fn, c, P, rel in lst:
            n += 1
            ctx.functions_analysed.add((fn.unit.name, fn.name))
            inst = "%s:free(%s)" % (fn.name, P)
            miss = sorted(union - rel)
            if miss:
                others = sorted({f2.name for f2, c2, P2, r2 in lst if set(miss) & r2})
                ctx.fail(rule, fn.name, "free(%s)" % P, "the %s object `%s` is released without its %s, which %s release(s) first: those "
                         "blocks stay allocated after the last close" % (S, P, ", ".join("`%s`" % m for m in miss), ", ".join(others)),
                         fn=fn, line=c.get("l", 0), inst=inst)
            else:
                ctx.ok(rule, inst, "releases %s like its %d sibling site(s)" % (sorted(rel) or "no owned field", len(lst) - 1),
                       nontrivial=len(lst) > 1 and bool(union))
    if n < min_sites:
        raise AnalysisBroken("%s: only %d release sites of objects with owned fields found" % (rule, n))
    return n
