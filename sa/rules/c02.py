"""C02 — nonblocking aggregation equivalent to blocking execution: structural clauses.

 R5.queue  every loop that indexes a request queue with its induction variable ranges over
           the queue's own length field.
 R5.shift  inside a loop that shifts queue elements (A[j-1] = A[j] / A[i+1] = A[i]) nothing is
           read through a pointer into A that was taken before the shift (stale alias).
 R6.init   on every path of the two enqueue functions that increments the lead counter and
           returns NC_NOERR, every field of the new NC_lead_req (and of its first NC_req) has
           been assigned.
 R6.id     put ids are even, get ids are odd: both assigners and all classifiers agree.
"""
from absint import ValueDomain, Explorer, State, TOP, ZERO, ONE, AVal, fin, Budget
from facts import walk, strip, strip_pre, const_value, show, lvalue_key, macro_of, key_str, canon
from frontend import AnalysisBroken
import patterns
from rules import r5

LEAD_FIELDS = ["flag", "id", "nonlead_off", "nonlead_num", "abuf_index", "buf", "xbuf", "varp", "nelems",
               "max_rec", "bufcount", "start", "buftype", "itype", "imaptype", "status"]
REQ_FIELDS = ["nelems", "start", "xbuf", "lead_off"]   # offset_start/end are computed at wait time


class InitDom(ValueDomain):
    def __init__(self, fn):
        super().__init__(fn)
        self.req_bad = []

    def tracked(self, key):
        if isinstance(key, str):
            return True
        if key[0] == "v":
            v = self.fn.vars.get(key[1])
            return v is not None and self.fn.type(v["t"]).get("k") in ("int", "uint") and v["n"] in ("err", "status", "mpireturn")
        return False

    def call_value(self, call, st):
        f = call.get("fn") or ""
        if f.startswith("MPI_"):
            return ZERO      # assume_mpi_ok
        return TOP

    def on_assign(self, key, lhs, rhs, val, st, elem):
        if key is None:
            return st
        if key[0] == "v" and key[2] in ("lead_req", "req"):
            # pointer re-seated / advanced: a different record from now on
            pre = "$L:" if key[2] == "lead_req" else "$R:"
            if key[2] == "req" and elem is not None and elem.get("k") == "asg" and elem.get("op") == "+=":
                miss = [f for f in REQ_FIELDS if not st.has("$R:" + f)]
                if miss:
                    self.req_bad.append((elem, miss))
                st = st.set("$reqloop", ONE)
            return st.drop(lambda k: isinstance(k, str) and k.startswith(pre))
        if key[0] == "m" and isinstance(key[1], tuple) and key[1][0] == "v":
            base = key[1][2]
            if base == "lead_req":
                return st.set("$L:" + key[2], ONE)
            if base == "req":
                return st.set("$R:" + key[2], ONE)
        if key[0] == "m" and key[2] in ("numLeadPutReqs", "numLeadGetReqs"):
            return st.set("$enq", ONE)
        return st

    def on_call(self, call, st, blk, idx):
        # MPI_Type_dup(buftype, &lead_req->buftype) style out-parameters
        for a in call.get("args", []):
            sa = strip(a)
            if isinstance(sa, dict) and sa.get("k") == "un" and sa.get("op") == "&":
                k = lvalue_key(sa["e"])
                if k and k[0] == "m" and isinstance(k[1], tuple) and k[1][0] == "v" and k[1][2] == "lead_req":
                    st = st.set("$L:" + k[2], ONE)
        return st

    def branch(self, blk, st):
        out = super().branch(blk, st)
        c = blk.cond
        if c is not None and c.get("k") == "bin" and c.get("op") == "<" and len(blk.succs) == 2 and \
                strip(c["a"]).get("n") == "lead_off":
            res = []
            for succ, s2 in out:
                if succ == blk.succs[0] and blk.succs[0] != blk.succs[1]:
                    s2 = s2.set("$sorted", ONE)
                res.append((succ, s2))
            return res
        return out

    def on_elem(self, elem, st, blk, idx):
        if elem.get("k") == "ret":
            v = self.eval(elem.get("e"), st)
            return st.set("$ret", v)
        # x++ on the counters; req++ closes one sub-request record
        for x in walk(elem):
            if x.get("k") == "un" and "++" in x.get("op", ""):
                k = lvalue_key(x["e"])
                if k and k[0] == "v" and k[2] == "req":
                    miss = [f for f in REQ_FIELDS if not st.has("$R:" + f)]
                    if miss:
                        self.req_bad.append((x, miss))
                    st = st.drop(lambda kk: isinstance(kk, str) and kk.startswith("$R:"))
                    st = st.set("$reqloop", ONE)
                if k and k[0] == "m" and k[2] in ("numLeadPutReqs", "numLeadGetReqs"):
                    st = st.set("$enq", ONE)
        return st


def check_init(ctx, prog):
    for fname in ("ncmpio_igetput_varm", "igetput_varn"):
        fn = ctx.need_fn(prog, fname)
        dom = InitDom(fn)
        ex = Explorer(fn, dom, max_states=300000)
        try:
            ex.run(State())
        except Budget as e:
            raise AnalysisBroken(str(e))
        ctx.states += ex.visited
        missing = {}
        npaths = 0
        for st, key in ex.exits:
            if not st.has("$enq"):
                continue
            r = st.get("$ret")
            if isinstance(r, AVal) and not (r.may_be(0) or r.may_be(-60)):
                continue     # failing return (only reachable through an MPI failure after the counter moved)
            npaths += 1
            for f in LEAD_FIELDS:
                if st.has("$L:" + f):
                    continue
                if f == "nonlead_off" and st.has("$sorted"):
                    continue   # inherited from the shifted slot on the sorted-insert path
                missing.setdefault(("lead_req", f), key)
            for f in REQ_FIELDS:
                if fname == "ncmpio_igetput_varm" and not st.has("$R:" + f):
                    missing.setdefault(("req", f), key)
        for x, miss in dom.req_bad:
            for f in miss:
                missing.setdefault(("req", f), None)
        ctx.require(npaths > 0, "%s: no path increments a lead request counter" % fname)
        for obj, fields in (("lead_req", LEAD_FIELDS), ("req", REQ_FIELDS)):
            for f in fields:
                inst = "%s:%s->%s" % (fname, obj, f)
                if (obj, f) in missing:
                    ctx.fail("R6.init", fname, "%s->%s" % (obj, f), "a path enqueues a request without assigning "
                             "%s->%s: wait/cancel read an indeterminate value" % (obj, f), fn=fn, line=fn.line,
                             inst=inst, detail={"path": ex.describe_path(missing[(obj, f)]) if missing[(obj, f)] else []})
                else:
                    ctx.ok("R6.init", inst, "assigned on all %d enqueueing exit states" % npaths)
    ctx.min_instances("R6.init", 40)


def check_perrec(ctx, prog):
    """R6.perrec: ncmpio_add_record_requests(list, R, N, ..) treats R->nelems as the size of ONE
    record; each caller must have divided R->nelems by the same N on the way to the call."""
    import cfg
    n = 0
    for fn in prog.all_functions():
        for b, i, c in patterns.call_sites(fn, lambda nm: nm == "ncmpio_add_record_requests"):
            n += 1
            ctx.functions_analysed.add((fn.unit.name, fn.name))
            rk = lvalue_key(c["args"][1])
            nshow = show(c["args"][2])
            ok = False
            for b2, i2, e2 in fn.elements():
                for x in walk(e2):
                    if x.get("k") == "asg" and x.get("op") == "/=":
                        k = lvalue_key(x["a"])
                        if k and k[0] == "m" and k[1] == rk and k[2] == "nelems" and show(x["b"]) == nshow \
                                and cfg.pos_dominates(fn, (b2.id, i2), (b.id, i)):
                            ok = True
            inst = "%s:add_record_requests#%d" % (fn.name, n)
            if ok:
                ctx.ok("R6.perrec", inst, "%s->nelems /= %s dominates the split" % (key_str(rk), nshow))
            else:
                ctx.fail("R6.perrec", fn.name, "ncmpio_add_record_requests", "the request is split into %s per-record "
                         "requests without first dividing its nelems by %s: every record request claims the size of "
                         "the whole request (wrong data, buffer overrun)" % (nshow, nshow), fn=fn, line=c.get("l", 0),
                         inst=inst)
    ctx.require(n >= 2, "expected >= 2 callers of ncmpio_add_record_requests, found %d" % n)


def check_shift(ctx, prog):
    n = 0
    for fn in prog.all_functions():
        for lp in patterns.loops(fn):
            if lp.var_key is None:
                continue
            shifted = set()
            for blk, i, e in lp.body_elems(ext=False):
                if e.get("k") == "asg" and e.get("op") == "=":
                    l, r = strip(e["a"]), strip(e["b"])
                    if l.get("k") == "idx" and r.get("k") == "idx" and lvalue_key(r["i"]) == lp.var_key:
                        li = strip(l["i"])
                        off_ok = li.get("k") == "bin" and li.get("op") in ("+", "-") and \
                            lvalue_key(li["a"]) == lp.var_key
                        la, ra = r5.array_fields(fn, l["b"]), r5.array_fields(fn, r["b"])
                        if off_ok and la and la == ra and len(la) == 1:
                            shifted |= la
            if not shifted:
                continue
            n += 1
            ctx.functions_analysed.add((fn.unit.name, fn.name))
            # pointer locals that alias the shifted array
            stale = None
            for blk, i, e in lp.body_elems(ext=False):
                for x in walk(e):
                    if x.get("k") == "mem" and x.get("arrow"):
                        b = strip(x["b"])
                        if b.get("k") == "ref" and b.get("dk") == "local":
                            t = fn.type(b.get("t"))
                            if t.get("k") != "ptr":
                                continue
                            al, other = r5.alias_fields(fn, b["n"], set(r5.PAIR), b.get("id"))
                            # also pointers computed as list + k
                            if not al:
                                al = ptr_into(fn, b)
                            if al & shifted and not reseated_in(fn, lp, b):
                                stale = (x, b["n"])
            same = sum(1 for l2 in patterns.loops(fn) if l2.head.tl and l2.head.tl <= (lp.head.tl or 0))
            site = "%s-shift#%d" % ("+".join(sorted(shifted)), n)
            inst = "%s:%s@%s" % (fn.name, "+".join(sorted(shifted)), same)
            if stale:
                x, nm = stale
                ctx.fail("R5.shift", fn.name, "+".join(sorted(shifted)) + ":" + nm, "`%s` is read inside the loop "
                         "that shifts %s, but `%s` points into that array and its element has already been "
                         "overwritten by the first iteration" % (show(x), "/".join(sorted(shifted)), nm), fn=fn,
                         line=x.get("l", 0), inst=inst)
            else:
                ctx.ok("R5.shift", inst, "no read through a pre-shift element pointer")
    ctx.min_instances("R5.shift", 8)


def reseated_in(fn, lp, ref):
    """is the pointer local assigned/declared inside the loop body?"""
    for blk, i, e in lp.body_elems(ext=False):
        for x in walk(e):
            if x.get("k") == "asg" and strip(x["a"]).get("id") == ref.get("id") and strip(x["a"]).get("n") == ref["n"]:
                return True
            if x.get("k") == "decl":
                for v in x.get("vars", []):
                    if v.get("id") == ref.get("id") and v["n"] == ref["n"]:
                        return True
    return False


def ptr_into(fn, ref):
    """queue fields a pointer local may point into: p = ncp->list + k ; p = ncp->list ; p++"""
    out = set()
    for b, i, e in fn.elements():
        rhs = None
        if e.get("k") == "asg" and e.get("op") == "=" and strip(e["a"]).get("id") == ref.get("id") \
                and strip(e["a"]).get("n") == ref["n"]:
            rhs = e["b"]
        elif e.get("k") == "decl":
            for v in e.get("vars", []):
                if v.get("id") == ref.get("id") and v["n"] == ref["n"] and v.get("init") is not None:
                    rhs = v["init"]
        if rhs is None:
            continue
        for x in walk(rhs, into_pre=True):
            f = r5.field_of(x)
            if f in r5.PAIR:
                out.add(f)
    return out


def check_ids(ctx, prog):
    """assigners: lead_req->id = 0|1 with max += 2; classifiers: id % 2 / id & 1 tests."""
    assigners = []
    for fname in ("ncmpio_igetput_varm", "igetput_varn"):
        fn = ctx.need_fn(prog, fname)
        for b, i, e in fn.elements():
            if e.get("k") == "asg" and e.get("op") == "=":
                k = lvalue_key(e["a"])
                if k and k[0] == "m" and k[2] == "id" and const_value(e["b"]) is not None:
                    # which queue? decided by the counter tested in the dominating branch
                    assigners.append((fn, b, e, const_value(e["b"])))
            if e.get("k") == "asg" and e.get("op") == "+=":
                k = lvalue_key(e["a"])
                if k and k[0] == "m" and k[2] in ("maxPutReqID", "maxGetReqID"):
                    step = const_value(e["b"])
                    inst = "%s:%s+=%s" % (fname, k[2], step)
                    if step == 2:
                        ctx.ok("R6.id", inst, "id step 2 keeps parity", nontrivial=False)
                    else:
                        ctx.fail("R6.id", fname, k[2], "request id counter advances by %s, parity is lost" % step,
                                 fn=fn, line=e.get("l", 0), inst=inst)
    seen = set()
    for fn, b, e, v in assigners:
        # parity must match the max-id field initialised next to it
        peer = None
        for e2 in b.elems:
            if e2.get("k") == "asg" and e2.get("op") == "=":
                k2 = lvalue_key(e2["a"])
                if k2 and k2[0] == "m" and k2[2] in ("maxPutReqID", "maxGetReqID"):
                    peer = (k2[2], const_value(e2["b"]))
        inst = "%s:first-id=%s" % (fn.name, v)
        if peer is None:
            ctx.fail("R6.id", fn.name, "first-id", "first request id %s is not paired with the max-id initialisation"
                     % v, fn=fn, line=e.get("l", 0), inst=inst)
            continue
        want = 0 if peer[0] == "maxPutReqID" else 1
        if v % 2 != want or peer[1] != v:
            ctx.fail("R6.id", fn.name, "first-id:" + peer[0], "first %s id is %s (max initialised to %s): put ids must "
                     "be even and get ids odd" % ("put" if want == 0 else "get", v, peer[1]), fn=fn,
                     line=e.get("l", 0), inst=inst)
        else:
            ctx.ok("R6.id", inst + ":" + peer[0], "parity %d" % want, nontrivial=False)
        seen.add(peer[0])
    ctx.require(seen == {"maxPutReqID", "maxGetReqID"}, "id assigners for both queues not found: %s" % seen)
    # classifiers
    ncls = 0
    for fn in prog.all_functions():
        for bid, blk in fn.blocks.items():
            c = blk.cond
            if c is None:
                continue
            for x in walk(c, into_pre=True):
                if x.get("k") == "bin" and x.get("op") in ("%", "&") and const_value(x["b"]) in (1, 2):
                    s = show(x["a"])
                    if "req_id" in s or s.endswith("id"):
                        ok = (x["op"] == "%" and const_value(x["b"]) == 2) or (x["op"] == "&" and const_value(x["b"]) == 1)
                        ncls += 1
                        inst = "%s:classify@%d" % (fn.name, ncls)
                        if ok:
                            ctx.ok("R6.id", inst, show(x), nontrivial=False)
                        else:
                            ctx.fail("R6.id", fn.name, "classifier", "id parity test `%s` is not %%2 / &1" % show(x),
                                     fn=fn, line=x.get("l", 0), inst=inst)
    ctx.require(ncls >= 3, "expected >= 3 id parity classifiers, found %d" % ncls)


def check_growby(ctx, prog):
    """sorted insertion into the request queues: the amount the non-lead queue grows by, the amount its elements are
    shifted by and the amount added to the `nonlead_off` of the lead requests moved behind the new one are one value"""
    import re
    n = 0
    for name in ("ncmpio_igetput_varm", "igetput_varn"):
        fn = ctx.need_fn(prog, name)
        for kind in ("Put", "Get"):
            lst, lead, cnt = "ncp->%s_list" % kind.lower(), "ncp->%s_lead_list" % kind.lower(), "ncp->num%sReqs" % kind
            grow, offadj, shift = set(), set(), set()
            for b, i, e in fn.elements():
                for x in walk(e):
                    if x.get("k") != "asg":
                        continue
                    l = strip(x["a"])
                    lt = canon(x["a"])
                    if x.get("op") == "+=" and lt == cnt:
                        grow.add(canon(x["b"]))
                    if x.get("op") == "+=" and lt.startswith(lead + "[") and lt.endswith(".nonlead_off"):
                        offadj.add(canon(x["b"]))
                    if x.get("op") == "=" and isinstance(l, dict) and l.get("k") == "idx" and canon(l["b"]) == lst:
                        r = strip(x["b"])
                        if isinstance(r, dict) and r.get("k") == "idx" and canon(r["b"]) == lst:
                            li, ri = strip(l["i"]), canon(r["i"])
                            if isinstance(li, dict) and li.get("k") == "bin" and li.get("op") == "+" and canon(li["a"]) == ri:
                                shift.add(canon(li["b"]))
                            elif isinstance(li, dict) and li.get("k") == "bin" and li.get("op") == "+" and canon(li["b"]) == ri:
                                shift.add(canon(li["a"]))
            inst = "%s:%s" % (name, kind.lower())
            n += 1
            if not grow:
                raise AnalysisBroken("%s: the %s queue length update was not found" % (name, kind.lower()))
            if not offadj and not shift:
                ctx.instance("R5.growby", inst)       # queues are append-only in this build
                continue
            vals = grow | offadj | shift
            if len(vals) == 1 and offadj and shift:
                ctx.ok("R5.growby", inst, "queue grows by, elements shift by and nonlead_off is adjusted by `%s`" % sorted(vals)[0])
            else:
                ctx.fail("R5.growby", name, "%s-queue" % kind.lower(), "inserting into the sorted %s queues: the non-lead queue grows by "
                         "`%s`, its elements are shifted by `%s`, but the lead requests moved behind the new one get their "
                         "nonlead_off adjusted by `%s`: a later wait on a subset of the requests extracts the wrong slice" %
                         (kind.lower(), "/".join(sorted(grow)), "/".join(sorted(shift)) or "-", "/".join(sorted(offadj)) or "-"),
                         fn=fn, line=fn.line, inst=inst)
    return n


def check_copy_applied(ctx, wprog):
    """the copies merge_requests records for overlapping get requests are carried out by its caller after the read:
    the list handed to merge_requests is the one a memmove/memcpy loop walks, that loop follows ncmpio_read_write, and the
    list is handed over for reads (a NULL argument is allowed for writes only)."""
    from rules import r8merge
    import cfg as _cfg
    mfn = ctx.need_fn(wprog, "merge_requests")
    lp, _ = r8merge.find_merge_loop(mfn)
    copy = r8merge.find_copy_list(mfn, lp, {"off": "*segs[%d].off"}) if lp is not None else None
    if copy is None:
        return      # no copy list on this tree: R8.readmerge has already decided whether one is needed
    arr = copy[0].replace("(", "").replace(")", "").lstrip("*")
    pidx = [k for k, p in enumerate(mfn.params) if p["n"] == arr]
    ctx.require(len(pidx) == 1, "R8.readmerge: copy list %s is not a parameter of merge_requests" % arr)
    n = 0
    for fn in wprog.all_functions():
        for b, i, c in patterns.call_sites(fn, lambda nm: nm == "merge_requests"):
            n += 1
            inst = "%s->merge_requests:copies" % fn.name
            a = strip(c["args"][pidx[0]])
            # accepted forms: &list, or (rw_flag == NC_REQ_RD) ? &list : NULL
            txt = canon(a)
            cand = None
            for x in walk(c["args"][pidx[0]], into_pre=True):
                if x.get("k") == "un" and x.get("op") == "&" and strip(x["e"]).get("k") == "ref":
                    cand = strip(x["e"])
            if cand is None:
                ctx.fail("R8.readmerge", fn.name, "copies", "merge_requests is called with `%s` for its copy list: overlapped regions "
                         "of get requests are never delivered" % txt[:60], fn=fn, line=c.get("l", 0), inst=inst)
                continue
            if a.get("k") == "cond" and not (macro_of(strip_pre(a["c"]).get("b")) == "NC_REQ_RD" and strip_pre(a["c"]).get("op") == "=="
                                             and strip(strip_pre(a["a"])).get("k") == "un"):
                ctx.fail("R8.readmerge", fn.name, "copies", "the copy list is handed over under `%s`, not for reads" % canon(a.get("c", {}))[:60],
                         fn=fn, line=c.get("l", 0), inst=inst)
                continue
            key = lvalue_key(cand)
            rw = [(b2, i2) for b2, i2, c2 in patterns.call_sites(fn, lambda nm: nm == "ncmpio_read_write")]
            applied = False
            for b2, i2, c2 in patterns.call_sites(fn, lambda nm: nm in ("memmove", "memcpy")):
                ar = c2.get("args", [])
                if len(ar) < 3:
                    continue
                flds = []
                for x in ar[:3]:
                    m = strip(x)
                    while isinstance(m, dict) and m.get("k") == "cast":
                        m = strip(m.get("e"))
                    if isinstance(m, dict) and m.get("k") == "mem":
                        bb = strip(m["b"])
                        if bb.get("k") == "idx" and lvalue_key(bb["b"]) == key:
                            flds.append(m["f"])
                if flds == [copy[3], copy[2], copy[4]] and any(_cfg.pos_dominates(fn, (rb.id, ri), (b2.id, i2)) for rb, ri in rw):
                    applied = True
            if applied:
                ctx.ok("R8.readmerge", inst, "list %s: copied (dst, src, len) in a loop that follows ncmpio_read_write" % cand.get("n"))
            else:
                ctx.fail("R8.readmerge", fn.name, "copies", "the copies recorded in `%s` are not carried out after ncmpio_read_write "
                         "(no memmove/memcpy of its %s/%s/%s entries follows the read)" % (cand.get("n"), copy[3], copy[2], copy[4]),
                         fn=fn, line=c.get("l", 0), inst=inst)
    ctx.require(n >= 1, "R8.readmerge: no caller of merge_requests")


def run(ctx):
    ctx.rule("R5.queue", "loops over the request queues are bounded by the queue's own length field")
    ctx.rule("R5.shift", "no read through a pre-shift element pointer inside a queue-compaction loop")
    ctx.rule("R6.init", "every field of an enqueued NC_lead_req / NC_req is assigned before a successful return")
    ctx.rule("R6.perrec", "callers of ncmpio_add_record_requests divide the request's nelems by the record count first")
    ctx.rule("R6.id", "id parity: assigners (0/1, +=2) and classifiers (%2, &1) agree")
    ctx.assume("equivalence of file contents, merge/sort correctness in req_aggregation and values are not decided")
    prog = ctx.program(names=r5.UNITS)
    r5.run_r5(ctx, prog)
    ctx.min_instances("R5.queue", 30)
    check_shift(ctx, prog)
    check_perrec(ctx, prog)
    check_init(ctx, prog)
    check_ids(ctx, prog)
    from rules import r8extract
    ctx.rule("R8.extract", "extract_reqs selects exactly the requests named by the non-NULL ids (bounded)")
    wprog = ctx.program(names=["ncmpio_wait.c"])
    unit = list(wprog.units.values())[0]
    def mac(nm):
        try:
            return int(unit.macros[nm].strip("() "), 0)
        except Exception:
            raise AnalysisBroken("macro %s not found / not a constant" % nm)
    ne = r8extract.check(ctx, ctx.need_fn(wprog, "extract_reqs"), "R8.extract", mac("NC_REQ_TO_FREE"), mac("NC_REQ_NULL"))
    ctx.require(ne >= 500, "R8.extract: only %d cells evaluated" % ne)
    from rules import r8interleave
    ctx.rule("R8.interleave", "wait_getput hands the requests on sorted, with the interleaved flag exact (bounded)")
    ni = r8interleave.check(ctx, ctx.need_fn(wprog, "wait_getput"), "R8.interleave")
    ctx.require(ni >= 1000, "R8.interleave: only %d request lists evaluated" % ni)
    from rules import r8recsplit
    ctx.rule("R8.recsplit", "ncmpio_add_record_requests: sub-request r addresses record start + r*stride, one record, own buffer slice (bounded)")
    gprog = ctx.program(names=["ncmpio_i_getput.c"])
    nr = r8recsplit.check(ctx, ctx.need_fn(gprog, "ncmpio_add_record_requests"), "R8.recsplit")
    ctx.require(nr >= 90, "R8.recsplit: only %d requests evaluated" % nr)
    from rules import r8merge
    ctx.rule("R8.readmerge", "merge_requests, read form: after the read through the merged segments and the copies the function "
             "records, every get request's buffer holds all of its file bytes, also where requests overlap (bounded)")
    nm = r8merge.check(ctx, ctx.need_fn(wprog, "merge_requests"), "R8.readmerge",
                       {"off": "*segs[%d].off", "len": "*segs[%d].len", "addr": "*segs[%d].buf_addr", "n": "*nsegs"}, reads=True)
    ctx.require(nm >= 1000, "R8.readmerge: only %d segment lists evaluated" % nm)
    check_copy_applied(ctx, wprog)
    ctx.rule("R5.growby", "sorted queue insertion: growth, element shift and nonlead_off adjustment use one amount")
    check_growby(ctx, prog)
