"""C19 — memory safety; malformed files fail cleanly: structural clauses.

 R9a.bound   every integer read from the file header (out-parameter of hdr_get_uint32/uint64) is
             bounded before its first use other than a comparison: either an upper-bound test on the
             raw word (false edge) dominates the conversion, or — for a 64-bit word converted to a
             signed type — a sign test of the converted value follows before any other use, or the
             word is one of the listed fields validated later / dead.
 R9a.refill  every primitive read from the header buffer is dominated by a test that the bytes are
             there (pos + n > end -> hdr_fetch) — the buffer is never over-read at a chunk boundary.
 R9a.hint    hint values used as table sizes / divisors are rejected unless >= 1 (shared with C10).
 R5.queue    request-queue loops stay inside the queue (shared with C02).
"""
from absint import ValueDomain, Explorer, State, TOP, ZERO, ONE, NONZERO, AVal, fin, Budget
from facts import walk, strip, strip_pre, const_value, show, canon, lvalue_key, macro_of, key_str
from frontend import AnalysisBroken
import cfg
import patterns
from rules import r5

# header words that are deliberately not bounded at the read site: field -> (reason, checked how)
LATER = {
    "len": "vsize is dead: compute_var_shape overwrites NC_var.len before any use (re-verified by R9a.dead)",
    "begin": "validated by ncmpio_NC_check_voffs (monotone, >= header size), which rejects a negative begin",
}


class SrcDom(ValueDomain):
    """$raw:<key> = width  : variable holds an unchecked header word
       $cvt:<key> = 1      : signed variable converted from an unchecked 64-bit word (may be negative)"""

    def __init__(self, fn):
        super().__init__(fn)
        self.bad = []
        self.srcs = {}

    def tracked(self, key):
        if isinstance(key, str) or (isinstance(key, tuple) and key and key[0] in ("$raw", "$cvt")):
            return True
        return isinstance(key, tuple) and key[0] == "v" and key[2] in ("err", "status")

    def on_call(self, call, st, blk, idx):
        f = call.get("fn") or ""
        if f in ("hdr_get_uint32", "hdr_get_uint64") and len(call.get("args", [])) == 2:
            a = strip(call["args"][1])
            if a.get("k") == "un" and a.get("op") == "&":
                k = lvalue_key(a["e"])
                if k is not None:
                    self.srcs[(call.get("l"), k[2])] = f
                    st = st.set(("$raw", k), fin(64 if f.endswith("64") else 32))
        return st

    def uses(self, n, st, out, top=True):
        """collect tainted variables used in n outside comparisons"""
        n = strip_pre(n)
        if not isinstance(n, dict):
            return
        k = n.get("k")
        if k == "bin" and n.get("op") in ("<", ">", "<=", ">=", "==", "!="):
            return
        if k == "ref":
            key = lvalue_key(n)
            if key is not None and (st.has(("$raw", key)) or st.has(("$cvt", key))):
                out.append((n, key))
            return
        if k == "un" and n.get("op") == "&":
            return
        for kk in ("e", "a", "b", "c", "i"):
            if isinstance(n.get(kk), dict):
                self.uses(n[kk], st, out, False)
        for a in n.get("args", []) or []:
            self.uses(a, st, out, False)

    def on_assign(self, key, lhs, rhs, val, st, elem):
        if rhs is None:
            return st
        r = strip(rhs)     # through casts
        rk = lvalue_key(r)
        if rk is not None and st.has(("$raw", rk)):
            width = st.get(("$raw", rk)).single()
            lt = self.fn.type(strip(lhs).get("t")) if lhs is not None and isinstance(strip(lhs), dict) else {}
            if width == 64 and lt.get("k") == "int" and key is not None:
                # 64-bit word -> signed: negative unless a sign test follows
                fld = key[2] if key[0] == "m" else None
                if fld in LATER:
                    return st
                if key[0] == "v":
                    return st.set(("$cvt", key), fin(elem.get("l", 0) if elem else 0))
                self.bad.append((elem, "the 64-bit header word `%s` is stored into the signed field %s without an "
                                 "upper bound: a value >= 2^63 becomes negative" % (rk[2], key_str(key)), key_str(key)))
                return st
            if width == 32 and lt.get("k") == "int" and lt.get("bits", 64) <= 32 and key is not None and key[0] != "v":
                fld = key[2] if key[0] == "m" else None
                if fld not in LATER:
                    self.bad.append((elem, "the 32-bit header word `%s` is stored into the signed field %s without an "
                                     "upper bound: a value >= 2^31 becomes negative" % (rk[2], key_str(key)), key_str(key)))
                return st
            if width == 32 or lt.get("k") == "uint":
                if key is not None and key[0] == "v" and lt.get("bits", 64) < width:
                    self.bad.append((elem, "header word `%s` narrowed to %d bits unchecked" % (rk[2], lt.get("bits")),
                                     key_str(key)))
                return st
        return st

    def on_elem(self, elem, st, blk, idx):
        # uses of a possibly-negative converted value (other than comparisons / the defining assignment)
        k = elem.get("k")
        if k in ("bin",) and elem.get("op") in ("<", ">", "<=", ">=", "==", "!="):
            return st
        out = []
        if k == "asg":
            self.uses(elem.get("b"), st, out)
            l = strip(elem.get("a"))
            if isinstance(l, dict) and l.get("k") == "idx":
                self.uses(l.get("i"), st, out)
        elif k == "call":
            for a in elem.get("args", []):
                self.uses(a, st, out)
        elif k == "decl":
            for v in elem.get("vars", []):
                if v.get("init") is not None:
                    self.uses(v["init"], st, out)
        elif k == "ret":
            pass
        for n, key in out:
            if st.has(("$cvt", key)):
                # plain copy into another variable/field keeps the obligation on the copy
                if k == "asg" and lvalue_key(strip(elem.get("b"))) == key:
                    lk = lvalue_key(elem.get("a"))
                    if lk is not None and lk[0] == "m" and lk[2] in LATER:
                        continue
                self.bad.append((elem, "`%s` comes from a 64-bit header word with no upper bound and is used (%s) "
                                 "without a sign test: a value >= 2^63 is negative here" % (key[2], show(elem)[:50]),
                                 key[2]))
        return st

    def branch(self, blk, st):
        out = super().branch(blk, st)
        c = blk.cond
        if c is None or len(blk.succs) != 2 or c.get("k") != "bin":
            return out
        op = c.get("op")
        a, b = strip(c["a"]), strip(c["b"])
        ka, kb = lvalue_key(a), lvalue_key(b)

        def reinterpreted(n):
            """is the word converted to a signed or narrower type before it is compared?  Then the test bounds the
            converted value: (int)x < n lets every x >= 2^31 through as a negative number."""
            n = strip_pre(n)
            while isinstance(n, dict) and n.get("k") in ("cast", "paren"):
                if n.get("k") == "cast" and n.get("ck") == "IntegralCast":
                    ft, tt = self.fn.type(n.get("ft")), self.fn.type(n.get("t"))
                    if ft.get("k") == "uint" and (tt.get("k") == "int" and tt.get("bits", 64) <= ft.get("bits", 64)
                                                  or tt.get("bits", 64) < ft.get("bits", 64)):
                        return True
                n = strip_pre(n.get("e"))
            return False
        ra, rb = reinterpreted(c["a"]), reinterpreted(c["b"])
        res = []
        for succ, s2 in out:
            truth = succ == blk.succs[0]
            if blk.succs[0] != blk.succs[1]:
                # raw word bounded above on the edge where  x <= LIMIT  holds
                for x, kx, other, o, reint in ((a, ka, b, op, ra), (b, kb, a, {"<": ">", ">": "<", "<=": ">=", ">=": "<="}.get(op, op), rb)):
                    if kx is None:
                        continue
                    if s2.has(("$raw", kx)) and not reint:
                        bounded = (o in (">", ">=") and not truth) or (o in ("<", "<=") and truth)
                        if bounded and (const_value(other) is not None or lvalue_key(other) is not None):
                            lim = const_value(other)
                            if lim is None or lim <= (1 << 63) - 1:
                                s2 = s2.set(("$raw", kx), None)
                    if s2.has(("$cvt", kx)):
                        # sign test:  x < 0  (true edge = error) or x >= 0
                        if const_value(other) == 0 and ((o == "<" and not truth) or (o == ">=" and truth)):
                            s2 = s2.set(("$cvt", kx), None)
            res.append((succ, s2))
        return res


def check_bound(ctx, prog):
    u = prog.unit("ncmpio_header_get.c")
    ctx.require(u is not None, "ncmpio_header_get.c missing")
    nsrc = 0
    for name, fn in sorted(u.functions.items()):
        sites = patterns.call_sites(fn, lambda n: n in ("hdr_get_uint32", "hdr_get_uint64"))
        if not sites:
            continue
        dom = SrcDom(fn)
        try:
            ex = Explorer(fn, dom, max_states=400000).run(State())
        except Budget as e:
            raise AnalysisBroken(str(e))
        ctx.states += ex.visited
        ctx.functions_analysed.add((fn.unit.name, fn.name))
        nsrc += len(sites)
        seen = set()
        for elem, why, var in dom.bad:
            site = var
            if (name, site) in seen:
                continue
            seen.add((name, site))
            ctx.fail("R9a.bound", name, site, why, fn=fn, line=elem.get("l", fn.line) if elem else fn.line)
        if not seen:
            ctx.ok("R9a.bound", name, "%d header word(s): bounded, sign-tested, or listed as validated later" % len(sites))
    ctx.require(nsrc >= 20, "expected >= 20 header-word reads, found %d" % nsrc)
    # R9a.dead: NC_var.len read from the file is overwritten before use
    fn = ctx.need_fn(prog, "compute_var_shape")
    wr = any(c.get("fn") == "ncmpio_NC_var_shape64" for b, i, e in fn.elements() for c in walk(e) if c.get("k") == "call")
    if wr:
        ctx.ok("R9a.dead", "vsize", "compute_var_shape recomputes NC_var.len through ncmpio_NC_var_shape64",
               nontrivial=False)
    else:
        ctx.fail("R9a.dead", "compute_var_shape", "vsize", "NC_var.len read from the file is no longer recomputed",
                 fn=fn, line=fn.line)
    v = ctx.need_fn(prog, "ncmpio_NC_check_voffs")
    neg = False
    for bid, blk in v.blocks.items():
        c = blk.cond
        if c is not None and c.get("k") == "bin" and c.get("op") == "<":
            if "begin" in canon(c["a"]):
                neg = True
    if neg:
        ctx.ok("R9a.dead", "begin", "ncmpio_NC_check_voffs compares every begin with a lower bound", nontrivial=False)
    else:
        ctx.fail("R9a.dead", "ncmpio_NC_check_voffs", "begin", "no lower-bound test on NC_var.begin", fn=v, line=v.line)


def check_refill(ctx, prog):
    """hdr_get_uint32 / hdr_get_uint64: the refill test uses the width that is then read."""
    for name, width in (("hdr_get_uint32", 4), ("hdr_get_uint64", 8)):
        fn = ctx.need_fn(prog, name)
        reads = patterns.call_sites(fn, lambda n: n.startswith("ncmpix_get_uint"))
        ctx.require(reads, "%s: primitive read not found" % name)
        ok = False
        why = ""
        for bid, blk in fn.blocks.items():
            c = blk.cond
            if c is None or c.get("k") != "bin" or c.get("op") not in (">", ">="):
                continue
            t = canon(c["a"])
            if "pos" in t and "+" in t and "end" in canon(c["b"]):
                # the addend
                add = None
                for x in walk(c["a"], into_pre=True):
                    if x.get("k") == "bin" and x.get("op") == "+":
                        add = const_value(x["b"]) if const_value(x["b"]) is not None else const_value(x["a"])
                calls = [cc.get("fn") for e in fn.blocks[blk.succs[0]].elems for cc in walk(e) if cc.get("k") == "call"] \
                    if blk.succs[0] is not None else []
                if add == width and "hdr_fetch" in calls and cfg.pos_dominates(fn, (bid, 0), (reads[0][0].id, reads[0][1])):
                    ok = True
                else:
                    why = "refill test adds %s bytes (needs %d) / calls %s" % (add, width, calls)
        if ok:
            ctx.ok("R9a.refill", name, "`pos + %d > end` -> hdr_fetch dominates the %d-byte read" % (width, width))
        else:
            ctx.fail("R9a.refill", name, "refill", "the %d-byte read is not guarded by `pos + %d > end` -> hdr_fetch (%s): "
                     "a word straddling the chunk boundary is read past the buffer" % (width, width, why), fn=fn,
                     line=fn.line)


def check_hints(ctx, prog):
    """hash-table sizes parsed from hints must be >= 1 (index is h & (size-1))."""
    fn = ctx.need_fn(prog, "ncmpio_set_pnetcdf_hints")
    fields = ("hash_size", "hash_size_attr")
    found = 0
    for b, i, e in fn.elements():
        if e.get("k") != "asg" or e.get("op") != "=":
            continue
        l = strip(e["a"])
        if not (l.get("k") == "mem" and l.get("f") in fields):
            continue
        r = strip(e["b"])
        if const_value(r) is not None:
            continue     # default value
        found += 1
        # either a test rejecting values < 1 dominates the store, or the store is followed by the repair
        #   if (... || field < 1 [<= 0]) field = DEFAULT;
        rk = lvalue_key(r)
        fk = lvalue_key(l)
        good = False
        for d in cfg.dominators(fn).get(b.id, ()):
            c = fn.blocks[d].cond
            if c is None or c.get("k") != "bin":
                continue
            if lvalue_key(c["a"]) == rk or canon(c["a"]) == canon(e["b"]):
                lim = const_value(c["b"])
                succ_t, succ_f = fn.blocks[d].succs
                on_false = (succ_f == b.id) or (succ_f in cfg.dominators(fn).get(b.id, ()))
                on_true = (succ_t == b.id) or (succ_t in cfg.dominators(fn).get(b.id, ()))
                if (c["op"] == "<" and lim is not None and lim >= 1 and on_false) or \
                        (c["op"] == "<=" and lim is not None and lim >= 0 and on_false) or \
                        (c["op"] == ">" and lim is not None and lim >= 0 and on_true) or \
                        (c["op"] == ">=" and lim is not None and lim >= 1 and on_true):
                    good = True
        if not good:
            # repair-after: a block reachable right after the store tests the field and, on the true
            # edge, overwrites it with a constant
            for bid, blk in fn.blocks.items():
                c = blk.cond
                if c is None or c.get("k") != "bin" or lvalue_key(c["a"]) != fk:
                    continue
                if not cfg.pos_dominates(fn, (b.id, i), (bid, 0)) and bid != b.id:
                    continue
                lim = const_value(c["b"])
                rejects_zero = (c["op"] == "<" and lim is not None and lim >= 1) or \
                    (c["op"] == "<=" and lim is not None and lim >= 0)
                tb = fn.blocks[blk.succs[0]] if blk.succs[0] is not None else None
                repairs = tb is not None and any(x.get("k") == "asg" and lvalue_key(x["a"]) == fk and
                                                 const_value(x["b"]) is not None and const_value(x["b"]) >= 1
                                                 for x in tb.elems)
                if rejects_zero and repairs:
                    good = True
        site = "%s.%s" % (key_str(lvalue_key(l.get("b"))) if lvalue_key(l.get("b")) else "?", l.get("f"))
        inst = "hint->%s" % site
        if good:
            ctx.ok("R9a.hint", inst, "parsed value tested >= 1 before it becomes a table size")
        else:
            ctx.fail("R9a.hint", fn.name, site, "a hash-table size taken from a hint (`%s`) is stored without "
                     "rejecting values < 1: size 0 makes the bucket index `h & (size-1)` run over the table"
                     % show(e)[:60], fn=fn, line=e.get("l", 0), inst=inst)
    ctx.require(found >= 3, "expected >= 3 hash-size hints, found %d" % found)


def check_ptrarray(ctx, prog):
    """the object arrays (NC_dimarray / NC_attrarray / NC_vararray .value) are arrays of pointers released by destructors
    that walk [0, ndefined) and skip NULL cells.  A function that installs such an array must either get it zeroed
    (calloc, or malloc + memset 0) or keep `ndefined` equal to the number of cells it has stored (set to 0, then
    incremented): otherwise an error half-way - a malformed file - hands uninitialised pointers to the destructor."""
    ZEROING = {"NCI_Calloc_fn", "calloc"}
    RAW = {"NCI_Malloc_fn", "malloc", "NCI_Realloc_fn", "realloc"}
    n = 0
    for fn in prog.all_functions():
        for b, i, e in fn.elements():
            for x in walk(e):
                if x.get("k") != "asg" or x.get("op") != "=":
                    continue
                l = strip(x["a"])
                if not (l.get("k") == "mem" and l.get("f") == "value" and str(l.get("rec", "")).endswith("array")):
                    continue
                r = strip(x["b"])
                while isinstance(r, dict) and r.get("k") == "cast":
                    r = strip(r["e"])
                if not (isinstance(r, dict) and r.get("k") == "call" and r.get("fn") in ZEROING | RAW):
                    continue
                n += 1
                ctx.functions_analysed.add((fn.unit.name, fn.name))
                base = canon(l["b"])
                inst = "%s:%s.value" % (fn.name, base)
                if r["fn"] in ZEROING:
                    ctx.ok("R9.ptrarray", inst, "zero-initialised (%s)" % r["fn"], nontrivial=False)
                    continue
                zeroed = False
                for b2, i2, c2 in patterns.call_sites(fn, lambda nm: nm == "memset"):
                    a = c2.get("args", [])
                    if len(a) == 3 and canon(a[0]) == canon(x["a"]) and const_value(a[1]) == 0 and cfg.pos_dominates(fn, (b.id, i), (b2.id, i2)):
                        zeroed = True
                counted = True
                why = None
                for b2, i2, e2 in fn.elements():
                    for y in walk(e2):
                        tgt = None
                        if y.get("k") == "asg":
                            tgt = strip(y["a"])
                        if tgt is not None and tgt.get("k") == "mem" and tgt.get("f") == "ndefined" and canon(tgt["b"]) == base:
                            if y.get("op") == "=" and const_value(y["b"]) == 0:
                                continue
                            if y.get("op") == "+=" and const_value(y["b"]) == 1:
                                continue
                            counted = False
                            why = show(y)[:50]
                if zeroed:
                    ctx.ok("R9.ptrarray", inst, "malloc followed by memset 0")
                elif counted:
                    ctx.ok("R9.ptrarray", inst, "not zeroed, but %s.ndefined only counts stored cells (0, then ++)" % base)
                else:
                    ctx.fail("R9.ptrarray", fn.name, "%s.value" % base, "the pointer array is allocated with %s (not zeroed) while `%s` "
                             "announces cells that are not stored yet: if reading element k fails, the destructor walks all announced "
                             "cells and releases uninitialised pointers" % (r["fn"].replace("_fn", ""), why), fn=fn, line=x.get("l", 0), inst=inst)
    ctx.require(n >= 8, "R9.ptrarray: only %d allocations of object arrays found" % n)


def check_gotoinit(ctx, prog):
    """a scalar local must not be read on a path that reaches the read through a `goto` and has not passed an
    initialisation or assignment of it (a jump over an initialising declaration leaves the variable indeterminate; a jump
    to a shared error/exit label before the first assignment does the same)"""
    n = nf = 0
    for fn in prog.all_functions():
        if not any(b.goto for b in fn.blocks.values()):
            continue
        nf += 1
        decl = {}
        for b, i, e in fn.elements():
            if e.get("k") == "decl":
                for v in e.get("vars", []):
                    if "id" in v and fn.type(v.get("t")).get("k") in ("int", "uint", "ptr", "enum", "float"):
                        decl[v["id"]] = (b.id, i, v["n"], v.get("init") is not None)
        if not decl:
            continue
        defs = {vid: ([(b, i)] if init else []) for vid, (b, i, nm, init) in decl.items()}
        uses = {vid: [] for vid in decl}
        for b, i, e in fn.elements():
            lhs = set()
            for x in walk(e):
                if x.get("k") == "asg" and x.get("op") == "=":
                    l = strip(x["a"])
                    if l.get("k") == "ref" and l.get("id") in decl:
                        defs[l["id"]].append((b.id, i))
                        lhs.add(id(l))
                if x.get("k") == "un" and x.get("op") == "&":
                    t = strip(x["e"])
                    if isinstance(t, dict) and t.get("k") == "ref" and t.get("id") in decl:
                        defs[t["id"]].append((b.id, i))
                        lhs.add(id(t))
            if e.get("k") != "decl":
                for x in walk(e):
                    if x.get("k") == "ref" and x.get("id") in decl and id(x) not in lhs:
                        uses[x["id"]].append((b.id, i, x.get("l")))
        for bid, blk in fn.blocks.items():
            if blk.cond is not None:
                for x in walk(blk.cond):
                    if x.get("k") == "ref" and x.get("id") in decl:
                        uses[x["id"]].append((bid, len(blk.elems), x.get("l")))
        for vid, (db, di, nm, init) in decl.items():
            if not uses[vid]:
                continue
            n += 1
            dblocks = {}
            for (b, i) in defs[vid]:
                dblocks[b] = min(dblocks.get(b, 1 << 30), i)
            bad = None
            for (ub, ui, ul) in uses[vid]:
                if ub in dblocks and dblocks[ub] < ui:
                    continue
                seen = set()
                st = [(fn.entry, False)]
                while st and bad is None:
                    x, g = st.pop()
                    if (x, g) in seen:
                        continue
                    seen.add((x, g))
                    if x == ub and g:
                        bad = ul
                        break
                    if x in dblocks:
                        continue
                    g2 = g or bool(fn.blocks[x].goto)
                    st.extend((s_, g2) for s_ in fn.blocks[x].succs if s_ is not None)
                if bad is not None:
                    break
            if bad is not None:
                ctx.fail("R9.gotoinit", fn.name, nm, "`%s` is read after a goto that can be taken before it is initialised "
                         "(%s): its value is indeterminate there" % (nm, "the jump skips its initialising declaration" if init
                                                                       else "no assignment precedes the jump"),
                         fn=fn, line=bad or fn.line, inst="%s:%s" % (fn.name, nm))
    ctx.require(nf >= 20 and n >= 200, "R9.gotoinit: only %d functions with goto / %d locals examined" % (nf, n))
    if not any(f.rule == "R9.gotoinit" for f in ctx.findings):
        ctx.ok("R9.gotoinit", "all", "%d scalar locals in %d functions that use goto: none is read across a jump before being set" % (n, nf))
    else:
        ctx.instance("R9.gotoinit", "all")


# functions too large for the path-sensitive release analysis within its state budget; they are not summarised and
# not reported on.  A function joining this set ends the run as analysis-broken instead of passing unseen.
BUDGET_SKIPS = {"extract_reqs", "igetput_varn", "intra_node_aggregation", "ncmpio_igetput_varm", "req_commit", "ncmpi_open",
                "put_varm"}


def run(ctx):
    ctx.rule("R9a.bound", "every header word is upper-bounded (raw) or sign-tested (after conversion to a signed type) "
             "before its first non-comparison use, or is a listed field validated later")
    ctx.rule("R9a.refill", "hdr_get_uint32/64: `pos + width > end` -> hdr_fetch dominates the width-byte read")
    ctx.rule("R9a.hint", "hash-table sizes from hints are tested >= 1 before use")
    ctx.rule("R5.queue", "request-queue loops stay inside the queue")
    ctx.assume("absence of all undefined behaviour is not decided (needs the sanitizers the property names); "
               "typed access to byte-sliced buffers (design rule R9b) is not built")
    prog = ctx.program(names=["ncmpio_header_get.c", "ncmpio_util.c", "ncmpio_enddef.c"] + r5.UNITS)
    check_bound(ctx, prog)
    check_refill(ctx, prog)
    check_hints(ctx, prog)
    r5.run_r5(ctx, prog)
    ctx.min_instances("R5.queue", 30)
    from rules import r8attrsize, r8aggrgroup
    ctx.rule("R8.attrsize", "every attribute element count the header reader accepts has an external size below 2^63 "
             "(exhaustive over version x type, bounded over a dictionary of extreme words)")
    hprog = ctx.program(names=["ncmpio_attr.c", "ncmpio_header_get.c"])
    na = r8attrsize.check(ctx, hprog, "R8.attrsize")
    ctx.require(na >= 400, "R8.attrsize: only %d cells evaluated" % na)
    ctx.rule("R8.aggrgroup", "intra-node aggregation groups: membership, aggregator and the rank-list copy stay inside the node's "
             "rank list (bounded: 1..9 processes x 1..5 aggregators x every rank)")
    iprog = ctx.program(names=["ncmpio_intra_node.c"])
    ng = r8aggrgroup.check(ctx, ctx.need_fn(iprog, "ncmpio_intra_node_aggr_init"), "R8.aggrgroup")
    ctx.require(ng >= 200, "R8.aggrgroup: only %d cells evaluated" % ng)
    from rules import r8varshape
    ctx.rule("R8.varshape", "compute_var_shape: no sum of file-supplied begin / length values leaves the signed 64-bit range (bounded, "
             "overflow trap)")
    nvs = r8varshape.check(ctx, ctx.need_fn(hprog, "compute_var_shape"), "R8.varshape")
    ctx.require(nvs >= 2000, "R8.varshape: only %d variable lists evaluated" % nvs)
    from rules import r9eof
    ctx.rule("R9a.eof", "the header chunk reader turns 'nothing read' into an error and broadcasts its status whenever nprocs > 1")
    r9eof.check(ctx, hprog, "R9a.eof")
    ctx.rule("R9.ptrarray", "object pointer arrays are zero-initialised, or ndefined counts only the cells stored")
    check_ptrarray(ctx, ctx.program(groups=["lib"]))
    ctx.rule("R9.gotoinit", "no scalar local is read across a goto taken before its initialisation")
    check_gotoinit(ctx, ctx.program(groups=["lib"]))
    from rules import r10type
    ctx.rule("R10.typerange", "hdr_get_nc_type accepts an external type code exactly when the format version allows it")
    r10type.check(ctx, ctx.need_fn(prog, "hdr_get_nc_type"), "R10.typerange", "ncmpio")
    # ---- no double release / use after release, across function boundaries ----------------------------
    from rules import r3free
    ctx.rule("R3.dfree", "no object is released twice or dereferenced after release on any path (symbolic pointer values, "
             "callee release summaries per return-value class)")
    lib = ctx.program(groups=["lib"])
    n, summaries, skipped = r3free.check(ctx, lib, "R3.dfree", lambda fn: True)
    ctx.require(n >= 800, "R3.dfree: only %d functions analysed" % n)
    ctx.require("ncmpio_free_NC_attr" in summaries and "ncmpio_free_NC_var" in summaries,
                "R3.dfree: release summaries of the metadata destructors are missing")
    new_skips = sorted(set(skipped) - BUDGET_SKIPS)
    ctx.require(not new_skips, "R3.dfree: %s exceed(s) the state budget and would be silently excluded" % ", ".join(new_skips))
    if ctx.tier == "thorough":
        # the burst-buffer driver (not compiled by the baseline build) and the utilities
        for g, known in (("bb", set()), ("util", {"vardata", "do_ncdump"})):
            pg = ctx.program(groups=[g])
            n2, _, sk2 = r3free.check(ctx, pg, "R3.dfree", lambda fn: True)
            ctx.require(n2 >= 20, "R3.dfree(%s): only %d functions analysed" % (g, n2))
            extra = sorted(set(sk2) - known)
            ctx.require(not extra, "R3.dfree(%s): %s exceed(s) the state budget" % (g, ", ".join(extra)))
    from rules import r9msgbuf
    ctx.rule("R9.msgbuf", "library: every sprintf / strcpy / strcat into a character array of constant size produces at most size-1 "
             "characters (format widths by C type, %s by the bound of its argument; unbounded arguments fail)")
    r9msgbuf.check(ctx, ctx.program(groups=["lib"]), "R9.msgbuf", 20)
    from rules import r9intround
    ctx.rule("R9a.intround", "header element counts (bounded only by NC_MAX_INT) are not rounded up / incremented / multiplied in 32-bit "
             "signed arithmetic")
    r9intround.check(ctx, ctx.program(names=["ncmpio_header_get.c"]), "R9a.intround", ("ncmpio_header_get.c",), 3)
