"""R9.divzero — in the diff tools every `x % n` / `x / n` whose divisor is an object count (the number of attributes,
dimensions or variables of a file or variable, i.e. a value taken from an `ndefined` field) is reached only when that count is positive: it sits on the true side of a
dominating test that implies n > 0 (`n > 0`, `n != 0`, `i < n` of the enclosing loop), or in the selected arm of a
conditional expression with such a test.  Two files that differ in "one attribute" include the pair where only one of them
has any attribute at all: a modulo by the other file's count then ends the tool with SIGFPE instead of a verdict."""
from facts import walk, strip, strip_pre, canon, const_value
from frontend import AnalysisBroken
import cfg


def _implies_positive(c, dtxt, truth):
    """does condition c (taken with the given truth) imply divisor > 0?"""
    c = strip_pre(c)
    c = strip(c) if isinstance(c, dict) else c
    if not isinstance(c, dict):
        return False
    if c.get("k") == "bin":
        op, a, b = c.get("op"), canon(c["a"]), canon(c["b"])
        if truth:
            if op in (">", "!=") and a == dtxt and const_value(c["b"]) == 0:
                return True
            if op == "<" and b == dtxt:                       # i < n
                return True
            if op == "<" and const_value(c["a"]) == 0 and b == dtxt:
                return True
            if op == ">=" and a == dtxt and (const_value(c["b"]) or 0) >= 1:
                return True
            if op == "&&":
                return _implies_positive(c["a"], dtxt, True) or _implies_positive(c["b"], dtxt, True)
        else:
            if op in ("==", "<=") and a == dtxt and const_value(c["b"]) == 0:
                return True
            if op == "||":
                return _implies_positive(c["a"], dtxt, False) or _implies_positive(c["b"], dtxt, False)
    if c.get("k") == "ref" and truth and canon(c) == dtxt:
        return True
    return False


def check(ctx, prog, rule, units, min_instances=8):
    n = 0
    for fn in prog.all_functions():
        if fn.unit.name.split("/")[-1] not in units:
            continue
        doms = None
        # object counts: lvalues assigned from an `ndefined` field (number of dimensions / attributes / variables)
        counts = set()
        for b, i, e in fn.elements():
            for x in walk(e):
                if x.get("k") == "asg" and x.get("op") == "=" and canon(x["b"]).endswith("ndefined"):
                    counts.add(canon(x["a"]))
        for b, i, e in fn.elements():
            # conditional expressions guarding their own arm
            guarded_nodes = set()
            for x in walk(e, into_pre=True):
                if x.get("k") == "cond":
                    for arm, truth in ((x.get("a"), True), (x.get("b"), False)):
                        if isinstance(arm, dict):
                            for y in walk(arm, into_pre=True):
                                if y.get("k") == "bin" and y.get("op") in ("%", "/"):
                                    if _implies_positive(x.get("c"), canon(y["b"]), truth):
                                        guarded_nodes.add(id(y))
            for x in walk(e, into_pre=True):
                if not (x.get("k") == "bin" and x.get("op") in ("%", "/")) and not (x.get("k") == "asg" and x.get("op") in ("%=", "/=")):
                    continue
                d = strip(x["b"])
                if const_value(x["b"]) is not None or not isinstance(d, dict) or d.get("k") not in ("ref", "idx", "mem"):
                    continue
                if canon(d) not in counts and not canon(d).endswith("ndefined"):
                    continue        # sizes and process counts are positive for other reasons; object counts may be zero
                n += 1
                ctx.functions_analysed.add((fn.unit.name, fn.name))
                dtxt = canon(d)
                inst = "%s:%s@%s" % (fn.name, x.get("op"), dtxt)
                ok = id(x) in guarded_nodes
                if not ok:
                    if doms is None:
                        doms = cfg.dominators(fn)
                    for db in doms.get(b.id, set()):
                        blk = fn.blocks[db]
                        if blk.cond is None or len(blk.succs) != 2 or db == b.id:
                            continue
                        t, f = blk.succs
                        on_true = t is not None and (t == b.id or t in doms.get(b.id, set()))
                        on_false = f is not None and (f == b.id or f in doms.get(b.id, set()))
                        if on_true and not on_false and _implies_positive(blk.cond, dtxt, True):
                            ok = True
                        if on_false and not on_true and _implies_positive(blk.cond, dtxt, False):
                            ok = True
                if ok:
                    ctx.ok(rule, inst, "reached only with %s > 0" % dtxt, nontrivial=False)
                else:
                    ctx.fail(rule, fn.name, "%s@%s" % (x.get("op"), dtxt), "`%s` is evaluated without a test that `%s` is positive: when that "
                             "count is zero (the other file has no such object at all) the tool dies with SIGFPE instead of reporting "
                             "the difference" % (canon(x)[:50], dtxt), fn=fn, line=x.get("l", 0), inst=inst)
    if n < min_instances:
        raise AnalysisBroken("%s: only %d divisions by run-time counts found (%d confirmed by hand)" % (rule, n, min_instances))
    return n
