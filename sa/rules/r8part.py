"""R8.partition — the "divide len elements among nprocs ranks" idiom.

The slice   count = len / nprocs;  start = count * rank;  if (rank < len % nprocs) {...} else {...}
is located structurally (an assignment whose right-hand side divides by the process count, followed by a
branch on `rank < len % nprocs`) and evaluated for every rank of every small configuration
(nprocs <= 5, len <= 3*nprocs+2).  The per-rank intervals [start, start+count) must tile [0, len) exactly.
This is a BOUNDED enumeration of an arithmetic slice (not exhaustive); it is a necessary condition of
"every element is filled / compared exactly once whatever the process count"."""
import concrete
from facts import walk, strip, strip_pre, canon, show, const_value
import patterns


def find_slices(fn):
    """[(block, idx, count_name, len_expr, nprocs_name, rank_name)]"""
    out = []
    for b, i, e in fn.elements():
        if e.get("k") != "asg" or e.get("op") != "=":
            continue
        r = strip(e["b"])
        if not (isinstance(r, dict) and r.get("k") == "bin" and r.get("op") == "/"):
            continue
        div = canon(r["b"])
        if not div.endswith("nprocs"):
            continue
        out.append((b, i, concrete.lv_name(e["a"]), r["a"], div))
    return out


def names_in(n):
    out = set()
    for x in walk(n, into_pre=True):
        if x.get("k") in ("ref", "mem", "idx") or (x.get("k") == "un" and x.get("op") == "*"):
            if "cv" in x and x.get("k") != "ref":
                continue
            out.add(concrete.lv_name(x))
    # a[b] also yields a and b as separate names: keep only maximal lvalues
    return {m for m in out if not any(m != o and (o.startswith(m + "[") or o.startswith(m + "->") or
                                                  o.startswith(m + ".")) for o in out)}


def run_slice(fn, b, i, env, allowed):
    """evaluate forward from (b, i) while the statements only combine the allowed names; returns the set of
    names assigned"""
    assigned = []
    blk = fn.blocks[b]
    steps = 0
    while True:
        steps += 1
        if steps > 40:
            break
        stop = False
        for j in range(i, len(blk.elems)):
            e = blk.elems[j]
            k = e.get("k")
            if k == "call" or k == "ret" or k == "decl":
                stop = True
                break
            used = names_in(e)
            tgt = None
            if k == "asg":
                tgt = concrete.lv_name(e["a"])
                used = names_in(e["b"]) | ({tgt} if e.get("op") != "=" else set())
                for x in walk(e["a"], into_pre=True):       # index variables of the target
                    if x.get("k") == "idx":
                        used |= names_in(x["i"])
            elif k == "un" and e.get("op") in ("post++", "pre++", "post--", "pre--"):
                tgt = concrete.lv_name(e["e"])
                used = {tgt}
            if not used <= allowed:
                stop = True
                break
            if k in ("asg", "un"):
                concrete.evs(e, env)
                if tgt is not None:
                    allowed.add(tgt)
                    assigned.append(tgt)
        if stop:
            break
        i = 0
        c = blk.cond
        if c is not None and len(blk.succs) == 2:
            if not names_in(c) <= allowed:
                break
            nb = blk.succs[0] if concrete.evs(c, env) else blk.succs[1]
        elif len(blk.succs) == 1:
            nb = blk.succs[0]
        else:
            break
        if nb is None or nb == fn.exit:
            break
        blk = fn.blocks[nb]
    return assigned


def check_fn(ctx, fn, rule="R8.partition", which=None):
    n = 0
    for b, i, cname, lenx, nprocs_name in find_slices(fn):
        len_names = [concrete.lv_name(x) for x in walk(lenx, into_pre=True) if x.get("k") in ("ref", "mem", "idx")]
        if len(len_names) != 1:
            continue
        len_name = len_names[0]
        # the rank variable: the `rank`-named lvalue used in the statements that follow
        rank_name = None
        for rb in patterns.region(fn, b.id, set()):
            for e2 in fn.blocks[rb].elems:
                for x in walk(e2, into_pre=True):
                    if x.get("k") in ("ref", "mem") and canon(x).endswith("rank") and rank_name is None:
                        rank_name = concrete.lv_name(x)
            if rank_name:
                break
        if rank_name is None:
            continue
        idx_names = {concrete.lv_name(x["i"]) for x in walk(b.elems[i]["a"], into_pre=True) if x.get("k") == "idx"}
        n += 1
        bad = None
        cells = 0
        start_name = None
        try:
            deep = getattr(ctx, 'tier', 'quick') == 'thorough'
            for nprocs in range(1, 10 if deep else 6):
                for ln in range(0, (5 if deep else 3) * nprocs + 3):
                    ivs = []
                    for rank in range(nprocs):
                        env = {len_name: ln, nprocs_name: nprocs, rank_name: rank}
                        for ix in idx_names:
                            env[ix] = 0
                        allowed = {len_name, nprocs_name, rank_name} | idx_names
                        assigned = run_slice(fn, b.id, i, env, allowed)
                        cand = [a for a in assigned if a != cname]
                        if not cand:
                            raise concrete.Unsupported("no start offset computed next to `%s`" % cname)
                        start_name = [a for a in cand if "start" in a] [0] if any("start" in a for a in cand) else cand[0]
                        ivs.append((env.get(start_name), env.get(cname)))
                        cells += 1
                    pos = 0
                    ok = True
                    for s0, c0 in sorted(ivs):
                        if c0 is None or s0 is None or c0 < 0 or (c0 > 0 and s0 != pos):
                            ok = False
                            break
                        if c0 > 0:
                            pos = s0 + c0
                    if pos != ln:
                        ok = False
                    if not ok and bad is None:
                        bad = (nprocs, ln, ivs)
        except concrete.Unsupported as u:
            ctx.note("%s: partition slice at line %s not evaluable (%s)" % (fn.name, b.elems[i].get("l"), u))
            n -= 1
            continue
        site = "%s/%s" % (cname, start_name)
        inst = "%s:%s@%d" % (fn.name, site, n)
        ctx.functions_analysed.add((fn.unit.name, fn.name))
        if bad:
            nprocs, ln, ivs = bad
            ctx.fail(rule, fn.name, site, "dividing %d elements among %d processes gives the (start,count) pairs %s: "
                     "they do not tile [0,%d) - some elements are handled twice and others never" %
                     (ln, nprocs, ivs, ln), fn=fn, line=b.elems[i].get("l", fn.line), inst=inst)
        else:
            ctx.ok(rule, inst, "%d (nprocs, len, rank) cells tile [0,len) exactly" % cells)
    return n
