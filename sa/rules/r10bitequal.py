"""R10.bitequal — the parallel diff tool decides "different" for floating-point data only when the two values are not
bit-identical.  `a != b` alone is true for a NaN compared with itself, so two byte-identical files would be reported as
different (the serial tool compares bytes).  Every branch on `b1[pos] != b2[pos]` / `b1[pos] == b2[pos]` over float or
double buffers is a site: on the side that goes on to report a difference the next test must be a memcmp of the two
elements."""
from facts import walk, strip, canon
from frontend import AnalysisBroken


def _has_memcmp(fn, bid, a, b, depth=2):
    seen = set()
    work = [(bid, 0)]
    while work:
        x, d = work.pop()
        if x is None or x in seen or d > depth:
            continue
        seen.add(x)
        blk = fn.blocks[x]
        for e in list(blk.elems) + ([blk.cond] if blk.cond is not None else []):
            for c in walk(e, into_pre=True):
                if isinstance(c, dict) and c.get("k") == "call" and c.get("fn") in ("memcmp", "bcmp"):
                    t = canon(c)
                    if a in t and b in t:
                        return True
        if blk.cond is None and len([s for s in blk.succs if s is not None]) == 1:
            work.append((blk.succs[0], d + 1))
    return False


def check(ctx, prog, rule, unit, min_sites):
    n = 0
    for fn in prog.all_functions():
        if fn.unit.name.split("/")[-1] != unit:
            continue
        for bid, blk in fn.blocks.items():
            c = strip(blk.cond) if blk.cond is not None else None
            if not (isinstance(c, dict) and c.get("k") == "bin" and c.get("op") in ("!=", "==") and len(blk.succs) == 2):
                continue
            a, b = strip(c["a"]), strip(c["b"])
            if not (isinstance(a, dict) and isinstance(b, dict) and a.get("k") == "idx" and b.get("k") == "idx"):
                continue
            ta = fn.type(a.get("t")) if a.get("t") is not None else {}
            if ta.get("k") not in ("float", "real") and "float" not in ta.get("c", "") and "double" not in ta.get("c", ""):
                continue
            ba, bb = canon(strip(a["b"])), canon(strip(b["b"]))
            if ba == bb:
                continue
            n += 1
            site = "%s %s #%d" % (ta.get("c", "?"), canon(c), n)
            inst = "%s:%s" % (fn.name, site)
            ctx.functions_analysed.add((fn.unit.name, fn.name))
            differ_side = blk.succs[0] if c["op"] == "!=" else blk.succs[1]
            if _has_memcmp(fn, differ_side, ba, bb):
                ctx.ok(rule, inst, "the unequal side compares the bit patterns before it counts a difference")
            else:
                ctx.fail(rule, fn.name, site, "%s values are taken as different on `%s` alone: a NaN differs from itself, so "
                         "byte-identical files holding a NaN are reported as different" % (ta.get("c", "floating"), canon(c)),
                         fn=fn, line=blk.tl or fn.line, inst=inst)
    if n < min_sites:
        raise AnalysisBroken("%s: only %d floating-point comparisons of the two files' buffers found in %s" % (rule, n, unit))
    return n
