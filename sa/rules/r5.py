"""R5 — array <-> length pairing of the request queues (shared by C02, C05, C19)."""
from facts import walk, strip, strip_pre, const_value, show, lvalue_key, key_str
import patterns

PAIR = {
    "put_lead_list": "numLeadPutReqs",
    "get_lead_list": "numLeadGetReqs",
    "put_list": "numPutReqs",
    "get_list": "numGetReqs",
}
UNITS = ["ncmpio_wait.c", "ncmpio_bput.c", "ncmpio_i_getput.c", "ncmpio_i_varn.c", "ncmpio_close.c",
         "ncmpio_intra_node.c", "ncmpio_util.c", "ncmpio_file_misc.c"]


def field_of(n):
    """NC field name if n is `<ptr>->field` of struct NC."""
    n = strip(n)
    if isinstance(n, dict) and n.get("k") == "mem" and n.get("rec") == "NC":
        return n["f"]
    return None


def alias_fields(fn, name, want, vid=None):
    """set of NC fields (restricted to `want`) a local variable may have been
    assigned from: x = ncp->f;  x = c ? ncp->f1 : ncp->f2;  also via decl init."""
    out = set()
    other = False

    def rhs_fields(r):
        nonlocal other
        r = strip(r)
        if not isinstance(r, dict):
            other = True
            return
        if r.get("k") == "cond":
            rhs_fields(r["a"])
            rhs_fields(r["b"])
            return
        f = field_of(r)
        if f in want:
            out.add(f)
        else:
            other = True
    for b, i, e in fn.elements():
        if e.get("k") == "asg" and e.get("op") == "=":
            l = strip(e["a"])
            if l.get("k") == "ref" and l.get("n") == name and (vid is None or l.get("id") == vid):
                rhs_fields(e["b"])
        elif e.get("k") == "decl":
            for v in e.get("vars", []):
                if v["n"] == name and v.get("init") is not None and (vid is None or v.get("id") == vid):
                    rhs_fields(v["init"])
    return out, other


def bound_fields(fn, expr):
    """length fields an upper-bound expression denotes (directly or through a local alias)."""
    e = strip(expr)
    f = field_of(e)
    if f is not None:
        return {f}, False
    if isinstance(e, dict) and e.get("k") == "ref" and e.get("dk") in ("local", "param"):
        return alias_fields(fn, e["n"], set(PAIR.values()), e.get("id"))
    return set(), True


def array_fields(fn, base):
    b = strip(base)
    f = field_of(b)
    if f in PAIR:
        return {f}
    if isinstance(b, dict) and b.get("k") == "ref" and b.get("dk") == "local":
        s, other = alias_fields(fn, b["n"], set(PAIR), b.get("id"))
        if s and not other:
            return s
    return set()


def queue_loops(fn):
    """[(loop, {queue fields indexed by the induction variable})]"""
    out = []
    for lp in patterns.loops(fn):
        if lp.var_key is None:
            continue
        arrs = set()
        for x in lp.indexed_by_var():
            arrs |= array_fields(fn, x.get("b"))
        if arrs:
            out.append((lp, arrs))
    return out


def check_loop(fn, lp, arrs):
    """None if the loop's range is the queue's own length, else a message."""
    want = {PAIR[a] for a in arrs}
    if lp.step == "++":
        if lp.op != "<":
            return "ascending loop uses `%s %s %s`" % (lp.var, lp.op, show(lp.bound)[:40])
        got, other = bound_fields(fn, lp.bound)
        if other or got != want:
            return ("loop over %s is bounded by `%s`, not by the queue's own length %s: entries beyond the bound "
                    "are never visited (or the array is overrun)" %
                    ("/".join(sorted(arrs)), show(lp.bound)[:40], "/".join(sorted(want))))
        return None
    if lp.step == "--":
        # descending: must start at len-1
        ini = strip(lp.init) if lp.init is not None else None
        ok = False
        if isinstance(ini, dict) and ini.get("k") == "bin" and ini.get("op") == "-" and const_value(ini["b"]) == 1:
            got, other = bound_fields(fn, ini["a"])
            ok = (not other) and got == want
        if not ok:
            return ("descending loop over %s starts at `%s`, not at %s-1" %
                    ("/".join(sorted(arrs)), show(lp.init)[:40] if lp.init else "?", "/".join(sorted(want))))
        return None
    return "loop over %s has an unrecognised step" % "/".join(sorted(arrs))


def run_r5(ctx, prog, rule="R5.queue"):
    n = 0
    for fn in prog.all_functions():
        ql = queue_loops(fn)
        for lp, arrs in ql:
            n += 1
            ctx.functions_analysed.add((fn.unit.name, fn.name))
            # stable site: k-th loop over that queue in the function
            same = [l for l, a in ql if a == arrs]
            k = [id(l) for l in same].index(id(lp)) + 1
            site = "%s#%d" % ("+".join(sorted(arrs)), k)
            msg = check_loop(fn, lp, arrs)
            inst = "%s:%s" % (fn.name, site)
            if msg:
                ctx.fail(rule, fn.name, site, msg, fn=fn, line=lp.head.tl or fn.line, inst=inst)
            else:
                ctx.ok(rule, inst, "range is [0, %s)" % "/".join(sorted(PAIR[a] for a in arrs)))
    return n
