"""R5.setall — a loop that stores a loop-invariant value into the same member of every element of a header object array
(`A.value[i]->m = v`) is a "set for all": it starts at element 0 and ends at the array's count `A.ndefined`.  A lower
bound taken from somewhere else (the snapshot's count, a saved position) silently leaves the earlier elements with the old
value."""
import patterns
from facts import walk, strip, canon, const_value
from frontend import AnalysisBroken


def check(ctx, prog, rule, min_sites):
    n = 0
    for fn in prog.all_functions():
        for lp in patterns.loops(fn):
            if lp.var is None or lp.body_entry is None:
                continue
            stores = []
            other = 0
            for bid in lp.body:
                for e in fn.blocks[bid].elems:
                    s = strip(e)
                    if not isinstance(s, dict):
                        continue
                    if s.get("k") == "asg" and s.get("op") == "=":
                        l = canon(strip(s["a"]))
                        r = s["b"]
                        if ".value[%s]->" % lp.var in l and not any(isinstance(y, dict) and y.get("k") == "ref" and y.get("n") == lp.var
                                                                      for y in walk(r, into_pre=True)):
                            stores.append((s, l))
                            continue
                    if s.get("k") in ("asg", "call"):
                        other += 1
            if len(stores) != 1 or other:
                continue
            s, l = stores[0]
            arr = l.split(".value[")[0]
            n += 1
            inst = "%s:%s" % (fn.name, l)
            ctx.functions_analysed.add((fn.unit.name, fn.name))
            init_ok = lp.init is not None and const_value(lp.init) == 0
            bound_ok = lp.op == "<" and canon(strip(lp.bound)) == arr + ".ndefined"
            if init_ok and bound_ok:
                ctx.ok(rule, inst, "for (%s = 0; %s < %s.ndefined; ..)" % (lp.var, lp.var, arr))
            else:
                ctx.fail(rule, fn.name, l, "`%s = <loop-invariant>` is stored for %s from %s up to `%s %s %s` only: a set-for-all loop over "
                         "%s.value has to cover [0, %s.ndefined), the elements outside keep the old value" %
                         (l, lp.var, canon(lp.init) if lp.init is not None else "an unknown start", lp.var, lp.op, canon(strip(lp.bound)), arr, arr),
                         fn=fn, line=s.get("l", fn.line), inst=inst)
    if n < min_sites:
        raise AnalysisBroken("%s: only %d set-for-all loops found" % (rule, n))
    return n
