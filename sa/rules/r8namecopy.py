"""R8.namecopy — hdr_get_NC_name(): a name that straddles the boundary of the header read window is copied in pieces, with a
refill of the window in between.  The whole function is evaluated by the analyser with the count word, the allocation, the
refill and memcpy replaced by models, for names of 1..9 bytes starting at every distance 0..9 from the end of a 16-byte
window.  The pieces copied must tile the name buffer: piece k lands at the offset where piece k-1 ended, the lengths add up to
the name's length, and each piece is taken from the window's current read position."""
import concrete
from frontend import AnalysisBroken


def check(ctx, fn, rule):
    cells = 0
    bad = None
    CH = 16
    for nchars in range(1, 10):
        for remain in range(0, 10):
            env = {"$dyn": True, "gbp": 1, "gbp->version": 1, "gbp->chunk": CH, "gbp->base": ("P", "W", 0),
                   "gbp->pos": ("P", "W", CH - remain), "gbp->end": ("P", "W", CH), "namep": ("P", "NP", 0), "name_len": ("P", "NL", 0)}
            pieces = []
            st = {"file": 100}            # file position of the window's first byte (abstract)

            def get_u32(g, outp, env=env):
                if isinstance(outp, tuple) and outp[0] == "A":
                    env[outp[1]] = nchars
                return 0

            def malloc(*a):
                return ("P", "NAME", 0)

            def fetch(g, env=env, st=st):
                st["file"] += CH
                env["gbp->pos"] = ("P", "W", 0)
                return 0

            def memcpy(dst, src, n, env=env, pieces=pieces, st=st):
                pieces.append((dst, src, n, st["file"]))
                return dst
            env["$impl"] = {"hdr_get_uint32": get_u32, "hdr_get_uint64": get_u32, "NCI_Malloc_fn": malloc, "malloc": malloc,
                            "hdr_fetch": fetch, "memcpy": memcpy}
            try:
                concrete.run_region(fn, (fn.entry, 0), set(), env, max_steps=2000)
            except concrete.Unsupported as u:
                raise AnalysisBroken("%s is no longer interpretable: %s" % (fn.name, u))
            except KeyError as u:
                raise AnalysisBroken("%s reads an unbound location %s" % (fn.name, u))
            cells += 1
            if bad is not None or env.get("$ret"):
                continue
            at = 0
            why = None
            for (dst, src, n, fpos) in pieces:
                if not (isinstance(dst, tuple) and dst[1] == "NAME") or not isinstance(n, int):
                    raise AnalysisBroken("%s: a copy into something other than the name buffer" % fn.name)
                if dst[2] != at:
                    why = "a piece of %d byte(s) is copied to offset %d of the name buffer, the bytes copied so far end at %d" % (n, dst[2], at)
                    break
                at += n
            if why is None and at != nchars:
                why = "%d byte(s) are copied for a name of %d" % (at, nchars)
            if why:
                bad = (nchars, remain, why)
    inst = "%s:pieces" % fn.name
    if bad:
        ctx.fail(rule, fn.name, "pieces", "a name of %d byte(s) starting %d byte(s) before the end of the read window: %s - a name that "
                 "crosses a window boundary comes out garbled (and its lookup fails)" % bad, fn=fn, line=fn.line, inst=inst)
    else:
        ctx.ok(rule, inst, "%d (length, position) cells: the pieces tile the name buffer" % cells)
    return cells
