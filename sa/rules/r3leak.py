"""R3.leak — heap objects allocated in a function are released, handed to the caller or stored in a longer-lived
structure on every path, the failure paths included.

Built on r3free's symbolic pointer values.  Per path the analysis keeps
    $A  objects allocated on this path (an allocator call, a callee that returns / hands out a fresh object)
    $F  objects released
    $C  objects captured: stored through a pointer or into a global / parameter-rooted location, returned, or passed to
        a callee that captures that argument *for the return-value class taken*.
At every function exit  $A - $F - $C  must be empty.  Allocation is assumed to succeed (paths that exist only because an
allocator returned NULL are not explored: they cannot be replayed and every function has them).  External functions not
listed as non-capturing are assumed to capture their pointer arguments (no report)."""
from facts import walk, strip, strip_pre, const_value, show, canon, lvalue_key, key_mentions, key_str
from absint import ValueDomain, Explorer, State, AVal, fin, TOP, Budget, ZERO, NONZERO
from frontend import AnalysisBroken
from callgraph import CallGraph
from rules import r3free
from rules.r3free import FREE_FNS, ALLOC_FNS, SYM0, path_str, rel_path

NONCAPTURING_PREFIX = ("mem", "str", "MPI_", "PMPI_", "ncmpix_", "printf", "fprintf", "sprintf", "snprintf", "qsort", "abs",
                       "assert", "__assert", "fwrite", "fread", "pread", "pwrite", "read", "write", "lseek", "open", "close",
                       "unlink", "access", "atoi", "strto", "getenv", "to", "is")
CAPTURING_EXTERNAL = {"MPI_Info_set", "MPI_Type_create_struct", "MPI_Comm_set_attr", "MPI_Buffer_attach", "tsearch", "putenv",
                      "setenv", "MPI_File_open"}


# MPI objects: constructor -> index of the out-parameter that receives the new handle; destructors take &handle
MPI_NEW = {"MPI_Type_contiguous": 2, "MPI_Type_vector": 4, "MPI_Type_create_hvector": 4, "MPI_Type_indexed": 4,
           "MPI_Type_create_hindexed": 4, "MPI_Type_create_struct": 4, "MPI_Type_create_subarray": 6, "MPI_Type_create_resized": 3,
           "MPI_Type_dup": 1, "MPI_Type_create_indexed_block": 4, "MPI_Type_create_hindexed_block": 4, "MPI_Type_hvector": 4,
           "MPI_Type_hindexed": 4, "MPI_Type_struct": 4, "MPI_Comm_dup": 1, "MPI_Comm_split": 3, "MPI_Comm_split_type": 4,
           "MPI_Comm_create": 2, "MPI_Info_create": 0, "MPI_Info_dup": 1, "MPI_File_get_info": 1, "MPI_Group_incl": 3,
           "MPI_Comm_group": 1}
MPI_DEL = {"MPI_Type_free", "MPI_Comm_free", "MPI_Info_free", "MPI_Group_free"}
UNSUMMARISED = set()        # functions over the state budget: their effect on arguments is unknown (assumed capturing)


class LeakDom(r3free.FreeDom):
    MEMO = True

    def __init__(self, fn, summaries, syms, known):
        r3free.FreeDom.__init__(self, fn, {}, syms)
        self.lsumm = summaries
        self.known = known          # names of functions defined in the analysed program
        self.pre_kill = {}
        self.unsummarised = UNSUMMARISED
        self.local_ids = {v["id"] for v in fn.locals} if hasattr(fn, "locals") else set()

    def sset(self, st, k):
        return st.get(k, frozenset())

    def add(self, st, k, s):
        cur = self.sset(st, k)
        return st if s in cur else st.set(k, cur | {s})

    def alloc_sym(self, call, tag=""):
        key = ("call", call.get("l", 0), (call.get("fn") or "fp") + tag, id(call) % 100000)
        return self.sym(key)

    # ---- values ----------------------------------------------------------------
    def call_value(self, call, st):
        rv = st.get("$rv", None)
        f = call.get("fn")
        if f in ALLOC_FNS:
            return fin(self.alloc_sym(call))
        if f and f.startswith(("MPI_", "PMPI_")) and self.fn.type(call.get("t")).get("k") == "int":
            return ZERO             # MPI calls are assumed to succeed (failure paths cannot be replayed without interposition)
        if isinstance(rv, tuple) and rv[0] == id(call):
            o = rv[1]
            su = self.lsumm.get(f, {}).get(o, {})
            if su.get("ret"):
                return fin(self.alloc_sym(call, ":ret"))
            if o == "nz":
                return NONZERO
            if o == "any":
                return TOP
            if isinstance(o, int):
                return fin(o)
        return TOP

    def capture_val(self, st, v):
        s = self.the_sym(v)
        if s is not None:
            st = self.add(st, "$C", s)
        return st

    def assign(self, lhs, val, st, rhs=None, elem=None):
        if lvalue_key(lhs) is None:
            return self.capture_val(st, val)        # a store through an lvalue the key language cannot name
        return r3free.FreeDom.assign(self, lhs, val, st, rhs, elem)

    def on_assign(self, key, lhs, rhs, val, st, elem):
        st = r3free.FreeDom.on_assign(self, key, lhs, rhs, val, st, elem)
        is_local_scalar = key is not None and key[0] == "v" and key[1] not in self.pids and self.fn.vars.get(key[1], {}).get("dk", "local") != "global"
        if not is_local_scalar and key is not None and key[0] == "m" and key[1][0] == "v" and key[1][1] not in self.pids:
            # a member of a structure that is itself a local variable (`getbuf.base = malloc()`): storage that dies with the call
            v = self.fn.vars.get(key[1][1])
            if v is not None and v.get("dk", "local") != "global" and self.fn.type(v["t"]).get("k") == "rec":
                is_local_scalar = True
        if not is_local_scalar:
            st = self.capture_val(st, val)
        return st

    def kill(self, st, key):
        # `&localstruct` handed to a callee: the members may change, but an owned object held in one (`getbuf.base`) is still
        # the function's to release - the callee's own releases / captures arrive through its summary
        keep = []
        if isinstance(key, tuple) and key[0] == "v" and key[1] not in self.pids:
            v = self.fn.vars.get(key[1])
            if v is not None and self.fn.type(v["t"]).get("k") == "rec":
                live = self.sset(st, "$A") - self.sset(st, "$F")
                for k2, v2 in st.items():
                    if isinstance(k2, tuple) and k2[0] == "m" and k2[1] == key and isinstance(v2, AVal) and self.the_sym(v2) in live:
                        keep.append((k2, v2))
        st = r3free.FreeDom.kill(self, st, key)
        for k2, v2 in keep:
            st = st.set(k2, v2)
        return st

    mpi_objects = False

    def keep_addr_arg(self, call, key, st=None):
        # MPI_Type_commit(&t) and the MPI query calls leave the handle as it is
        if call.get("fn") in ("MPI_Type_commit", "MPI_Type_size", "MPI_Type_get_extent", "MPI_Type_get_true_extent"):
            return True
        return r3free.FreeDom.keep_addr_arg(self, call, key, st)

    def on_elem(self, elem, st, blk, idx):
        if self.mpi_objects and elem.get("k") == "call" and elem.get("fn") in MPI_DEL and elem.get("args"):
            a = strip(elem["args"][0])
            if isinstance(a, dict) and a.get("k") == "un" and a.get("op") == "&":
                self.pre_kill[id(elem)] = self.eval(a["e"], st)     # the handle's value before &handle is clobbered
        self.uses(elem, st)
        if elem.get("k") == "ret":
            e = elem.get("e")
            v = self.eval(e, st) if e is not None else None
            st = st.set("$ret", v)
            if v is not None:
                s = self.the_sym(v)
                if s is not None and s in self.sset(st, "$A") and s not in self.sset(st, "$F"):
                    st = self.add(st, "$R", s)      # returned fresh object
                st = self.capture_val(st, v)
            return st
        if elem.get("k") == "call":
            f = elem.get("fn")
            if f in self.lsumm and self.lsumm[f] and f not in FREE_FNS and f not in ALLOC_FNS:
                out = []
                for outcome, su in self.lsumm[f].items():
                    s2 = st.set("$rv", (id(elem), outcome))
                    for p in sorted(su.get("free", ()), key=str):
                        v = self.concretise(p, elem, s2)
                        if v is not None:
                            s2 = self.release(s2, v, elem, "%s() releases %s" % (f, path_str(p, elem)))
                    for p in sorted(su.get("cap", ()), key=str):
                        v = self.concretise(p, elem, s2)
                        if v is not None:
                            s2 = self.capture_val(s2, v)
                    out.append(s2)
                return out
        return st

    def on_call(self, call, st, blk, idx):
        f = call.get("fn")
        rv = st.get("$rv", None)
        if f in ALLOC_FNS:
            s = self.alloc_sym(call)
            F = self.sset(st, "$F")
            if s in F:
                st = st.set("$F", (F - {s}) or None)
            C = self.sset(st, "$C")
            if s in C:
                st = st.set("$C", (C - {s}) or None)
            st = self.add(st, "$A", s)
            if f in ("realloc", "NCI_Realloc_fn") and call.get("args"):
                st = self.release(st, self.eval(call["args"][0], st), call, "realloc")
            return st
        if f in FREE_FNS and call.get("args"):
            return self.release(st, self.eval(call["args"][0], st), call, "%s(%s)" % (f, canon(call["args"][0])))
        if self.mpi_objects and f in MPI_DEL and call.get("args"):
            a = strip(call["args"][0])
            if isinstance(a, dict) and a.get("k") == "un" and a.get("op") == "&":
                v = self.pre_kill.get(id(call))
                if v is not None:
                    st = self.release(st, v, call, "%s(&%s)" % (f, canon(a["e"])))
            return st
        if self.mpi_objects and f in MPI_NEW and MPI_NEW[f] < len(call.get("args", [])):
            a = strip(call["args"][MPI_NEW[f]])
            if isinstance(a, dict) and a.get("k") == "un" and a.get("op") == "&":
                k = lvalue_key(a["e"])
                s = self.alloc_sym(call, ":new")
                F, C = self.sset(st, "$F"), self.sset(st, "$C")
                if s in F:
                    st = st.set("$F", (F - {s}) or None)
                if s in C:
                    st = st.set("$C", (C - {s}) or None)
                st = self.add(st, "$A", s)
                if k is not None and k[0] == "v" and self.tracked(k):
                    st = st.set(k, fin(s))
                else:
                    st = self.add(st, "$C", s)      # stored straight into a structure / array element
            return st
        summarised = isinstance(rv, tuple) and rv[0] == id(call)
        if summarised:
            su = self.lsumm.get(f, {}).get(rv[1], {})
            if su.get("ret"):
                st = self.add(st, "$A", self.alloc_sym(call, ":ret"))
            for p in sorted(su.get("out", ()), key=str):
                # callee hands a fresh object out through *arg
                if p[0] == "d" and p[1][0] == "P" and p[1][1] < len(call.get("args", [])):
                    a = strip(call["args"][p[1][1]])
                    if isinstance(a, dict) and a.get("k") == "un" and a.get("op") == "&":
                        k = lvalue_key(a["e"])
                        if k is not None and k[0] == "v":
                            s = self.alloc_sym(call, ":out%d" % p[1][1])
                            F, C = self.sset(st, "$F"), self.sset(st, "$C")
                            if s in F:
                                st = st.set("$F", (F - {s}) or None)
                            if s in C:
                                st = st.set("$C", (C - {s}) or None)
                            st = st.set(k, fin(s))
                            st = self.add(st, "$A", s)
            return st
        # not summarised: external or without effect summary
        if f in self.known and f not in self.unsummarised:
            return st              # analysed function with an empty summary: neither releases nor captures
        noncap = f is not None and f not in CAPTURING_EXTERNAL and f.startswith(NONCAPTURING_PREFIX)
        if not noncap:
            for a in call.get("args", []):
                st = self.capture_val(st, self.eval(a, st))
        return st


MPI_OBJECTS = False


def analyse(fn, summaries, syms, known, max_states):
    dom = LeakDom(fn, summaries, syms, known)
    dom.mpi_objects = MPI_OBJECTS
    dom.assume_alloc_ok = True
    dom.assume_mpi_ok = True
    ex = Explorer(fn, dom, max_states=max_states)
    ex.run(State())
    summ = {}
    leaks = []
    for st, key in ex.exits:
        A, F, C, R = dom.sset(st, "$A"), dom.sset(st, "$F"), dom.sset(st, "$C"), dom.sset(st, "$R")
        r = st.get("$ret", None)
        if r is None:
            outs = [0]
        elif isinstance(r, AVal) and r.kind == "fin" and all(isinstance(x, int) and abs(x) < SYM0 for x in r.s) and len(r.s) <= 3:
            outs = sorted(r.s)
        elif isinstance(r, AVal) and dom.the_sym(r) is not None:
            outs = ["nz"]
        elif isinstance(r, AVal) and not r.may_be_zero():
            outs = ["nz"]
        else:
            outs = [0, "nz"]
        free_p, cap_p, out_p = set(), set(), set()
        for s in F:
            k = syms["s2k"].get(s)
            if k is not None and k[0] != "call":
                p = rel_path(fn, k, dom.pids)
                if p is not None:
                    free_p.add(p)
        for s in C:
            k = syms["s2k"].get(s)
            if k is not None and k[0] != "call":
                p = rel_path(fn, k, dom.pids)
                if p is not None:
                    cap_p.add(p)
        # fresh objects handed out through *param
        for k, v in st.items():
            if isinstance(k, tuple) and k[0] == "d" and k[1][0] == "v" and k[1][1] in dom.pids:
                s = dom.the_sym(v) if isinstance(v, AVal) else None
                if s is not None and s in A and s not in F:
                    out_p.add(("d", ("P", dom.pids[k[1][1]])))
        for o in outs:
            d = summ.setdefault(o, {"free": set(), "cap": set(), "out": set(), "ret": False, "n": 0})
            d["free"] |= free_p
            d["cap"] |= cap_p
            d["out"] |= out_p
            d["ret"] = d["ret"] or bool(R)
            d["n"] += 1
        lost = A - F - C
        if lost:
            leaks.append((lost, st, key, outs))
    return dom, ex, summ, leaks


def check(ctx, prog, rule, scope, budget=80000, known_skips=frozenset()):
    UNSUMMARISED.clear()
    UNSUMMARISED.update(known_skips)
    cg = CallGraph(prog)
    fns = {}
    for fn in prog.all_functions():
        fns.setdefault(fn.name, fn)
    known = set(fns)
    # every function is summarised (captures matter as much as releases); callees first
    order, seen = [], set()

    def callees(name):
        return sorted({n for _, _, _, names in cg.calls.get(fns[name], []) for n in names if n in fns})

    for root in sorted(fns):
        if root in seen:
            continue
        stack = [(root, iter(callees(root)))]
        seen.add(root)
        while stack:
            cur, it = stack[-1]
            nxt = next(it, None)
            if nxt is None:
                order.append(cur)
                stack.pop()
            elif nxt not in seen:
                seen.add(nxt)
                stack.append((nxt, iter(callees(nxt))))
    syms = {"k2s": {}, "s2k": {}}
    summaries = {}
    results = {}
    skipped = []
    dirty = set(order)
    pos = {n: k for k, n in enumerate(order)}
    for rnd in range(3):
        changed = set()
        for name in order:
            if name not in dirty:
                continue
            fn = fns[name]
            if name in FREE_FNS or name in ALLOC_FNS or fn.relfile().endswith("mem_alloc.c"):
                continue
            try:
                dom, ex, summ, leaks = analyse(fn, summaries, syms, known, budget)
            except Budget:
                if name not in skipped:
                    skipped.append(name)
                    UNSUMMARISED.add(name)
                    # callers analysed earlier in this round may have used an empty summary: redo them
                    for (cfn, b, i, call) in cg.callers.get(name, []):
                        changed.add(name)
                continue
            ctx.states += ex.visited
            results[name] = (dom, ex, leaks)
            nonempty = {o: d for o, d in summ.items()}
            interesting = any(d["free"] or d["cap"] or d["out"] or d["ret"] for d in summ.values())
            new = nonempty if interesting else {}
            if new != summaries.get(name, {}):
                summaries[name] = new
                changed.add(name)
        dirty = set()
        for c in changed:
            for (cfn, b, i, call) in cg.callers.get(c, []):
                if cfn.name in pos and pos[cfn.name] <= pos[c]:
                    dirty.add(cfn.name)
        if not dirty:
            break
    n = 0
    for name in order:
        if name not in results or not scope(fns[name]):
            continue
        fn = fns[name]
        dom, ex, leaks = results[name]
        if not any(c.get("fn") in ALLOC_FNS or summaries.get(c.get("fn")) for b, i, e in fn.elements() for c in walk(e) if c.get("k") == "call"):
            continue
        n += 1
        ctx.functions_analysed.add((fn.unit.name, fn.name))
        if not leaks:
            ctx.ok(rule, name, "every object allocated here is released, returned or stored on every explored path")
            continue
        seen_sites = set()
        for lost, st, key, outs in leaks:
            for s in sorted(lost):
                k = syms["s2k"].get(s)
                what = "%s()" % k[2].split(":")[0] if k and k[0] == "call" else key_str(k)
                # which local holds it
                holder = None
                for kk, v in st.items():
                    if isinstance(kk, tuple) and kk[0] == "v" and isinstance(v, AVal) and dom.the_sym(v) == s:
                        holder = kk[2]
                site = "%s<-%s" % (holder or "?", what)
                cls = "/".join(str(o) for o in outs)
                if (site, cls) in seen_sites:
                    continue
                seen_sites.add((site, cls))
                ctx.fail(rule, name, site, "the object obtained from %s%s is neither released, returned nor stored on a path that "
                         "returns %s: it is lost (memory leak)" % (what, " (held in `%s`)" % holder if holder else "", cls),
                         fn=fn, line=(k[1] if k and k[0] == "call" else fn.line), inst=name,
                         detail={"path": ex.describe_path(key)})
    extra = sorted(set(skipped) - set(known_skips))
    return n, summaries, skipped, extra
