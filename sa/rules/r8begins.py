"""R8.begins — NC_begins(), which lays the variables out at enddef, evaluated whole by the analyser with unbounded
integers for every list of up to 3 variables (fixed-size or record, with lengths 4, 2^31-8, 2^32-8, 2^62, 2^63-8) in the
three formats that the per-variable size rule accepts.  Whenever it returns NC_NOERR, the layout it produced must be representable and consistent: every begin
is a non-negative number below 2^63 (CDF-1: below 2^31), fixed-size variables do not overlap and lie before the record
section, record variables follow each other (the end of the last variable of a kind is not constrained: the formats allow
one over-long variable there).  A sum that wraps in the 64-bit file
offset would be stored as a negative begin: enddef "succeeds" and the file cannot be opened again."""
import itertools
import concrete
from frontend import AnalysisBroken

I63 = 2 ** 63 - 1
LENS = (4, 2 ** 31 - 8, 2 ** 32 - 8, 2 ** 62, 2 ** 63 - 8)


def check(ctx, fn, rule, deep=False):
    cells = 0
    bad = None
    kinds = [(k, l) for k in ("f", "r") for l in LENS]
    maxn = 3
    for fmt in (1, 2, 5):
        for n in range(1, maxn + 1):
            for lst in itertools.product(kinds, repeat=n):
                # only lists the per-variable size rule (ncmpio_NC_check_vlens, decided by R8.vlens) lets through
                vmax = {1: 2 ** 31 - 1 - 3, 2: 2 ** 32 - 1 - 3, 5: 2 ** 63 - 1 - 3}[fmt]
                from rules.r8vlens import model as vl_model
                if not vl_model(fmt, [k + ("L" if l > vmax else "s") for k, l in lst]):
                    continue
                if n == 3 and not deep and sum(1 for k, l in lst if l >= 2 ** 62) == 0 and fmt != 1:
                    continue        # three small variables in a 64-bit format: nothing can wrap
                env = {"$dyn": True, "ncp->format": fmt, "ncp->vars.ndefined": n, "ncp->old": 0, "ncp->h_minfree": 0, "ncp->v_minfree": 0,
                       "ncp->h_align": 512, "ncp->v_align": 4, "ncp->r_align": 4, "ncp->begin_var": 0, "ncp->begin_rec": 0,
                       "ncp->vars.num_rec_vars": sum(1 for k, l in lst if k == "r"), "ncp->safe_mode": 0, "ncp->nprocs": 1,
                       "ncp->recsize": 0, "ncp->flags": 0, "ncp->xsz": 200, "$ret:ncmpio_hdr_len_NC": 200}
                for i, (k, l) in enumerate(lst):
                    env["ncp->vars.value[%d]" % i] = ("P", "V", i)
                    env["V[%d].shape" % i] = ("P", "S%d" % i, 0)
                    env["S%d[0]" % i] = 0 if k == "r" else 7
                    env["V[%d].len" % i] = l
                    env["V[%d].begin" % i] = 0
                    env["V[%d].ndims" % i] = 1
                e = dict(env)
                for attempt in range(8):
                    e = dict(env)
                    try:
                        concrete.run_region(fn, (fn.entry, 0), set(), e, max_steps=3000)
                        break
                    except KeyError as k:
                        env[str(k).strip("'\"")] = 0        # a field this slice only reads (hint / flag): neutral value
                    except concrete.Unsupported as u:
                        t = str(u)
                        if t.startswith("value of "):
                            env[t[len("value of "):]] = 0
                        else:
                            raise AnalysisBroken("%s is no longer interpretable: %s" % (fn.name, u))
                else:
                    raise AnalysisBroken("%s: too many unbound locations" % fn.name)
                cells += 1
                if e.get("$ret") != 0:
                    continue
                why = None
                fixed = [(i, e.get("V[%d].begin" % i), l) for i, (k, l) in enumerate(lst) if k == "f"]
                rec = [(i, e.get("V[%d].begin" % i), l) for i, (k, l) in enumerate(lst) if k == "r"]
                prev_end = None
                for i, b, l in fixed + rec:
                    if b is None or b < 0 or b > I63:
                        why = "variable %d begins at %s, which does not fit a signed 64-bit file offset" % (i, b)
                        break
                    if fmt == 1 and b > 2 ** 31 - 1:
                        why = "variable %d begins at %s in a CDF-1 file" % (i, b)
                        break
                for (i, b, l), (i2, b2, l2) in zip(fixed, fixed[1:]):
                    if why is None and b2 < b + l:
                        why = "fixed-size variables %d and %d overlap (%s + %s > %s)" % (i, i2, b, l, b2)
                if why is None and fixed and rec and rec[0][1] < fixed[-1][1] + fixed[-1][2]:
                    why = "the record section begins at %s, inside the last fixed-size variable" % rec[0][1]
                for (i, b, l), (i2, b2, l2) in zip(rec, rec[1:]):
                    if why is None and b2 < b + l:
                        why = "record variables %d and %d overlap within a record (%s + %s > %s)" % (i, i2, b, l, b2)
                if why and bad is None:
                    bad = (fmt, ["%s variable of %d bytes" % ("record" if k == "r" else "fixed-size", l) for k, l in lst], why)
    inst = "%s:layouts" % fn.name
    if bad:
        ctx.fail(rule, fn.name, "layouts", "CDF-%d, %s: NC_begins returns NC_NOERR although %s" % (bad[0], "; ".join(bad[1]), bad[2]),
                 fn=fn, line=fn.line, inst=inst)
    else:
        ctx.ok(rule, inst, "%d (format, variable list) layouts: every accepted layout is representable and ordered" % cells)
    return cells
