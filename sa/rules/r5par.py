"""R5.parallel — arrays that are maintained in step (written with one index in one basic block somewhere in the
function: offsets[]/lengths[]/bufAddr[], offset[]/count[], blocklens[]/disps[]) stay in step under compaction:
a block that moves an element of one of them (`A[d] = A[s]`) must write the same destination index of every
sibling array that is still read after the enclosing loop.  Dropping one copy leaves a sibling describing a
different segment: wrong bytes are packed / written, only when a compaction actually happens (overlapping or
non-adjacent segments), which no single-process run with disjoint requests produces.

Groups are inferred from co-writes in the function itself and printed; they are not frozen by name."""
from facts import walk, strip, canon
import patterns


def _idx_write(e):
    if e.get("k") != "asg":
        return None
    l = strip(e["a"])
    return l if isinstance(l, dict) and l.get("k") == "idx" else None


def _reads_after(fn, base, start_blocks):
    """is an element of `base` read in a block reachable from start_blocks?"""
    seen = set()
    st = [b for b in start_blocks if b is not None]
    while st:
        b = st.pop()
        if b in seen:
            continue
        seen.add(b)
        blk = fn.blocks[b]
        for e in blk.elems + ([blk.cond] if blk.cond is not None else []):
            lhs = _idx_write(e) if isinstance(e, dict) else None
            for x in walk(e, into_pre=True):
                if x.get("k") == "idx" and canon(x["b"]) == base and x is not lhs:
                    return True
        st.extend(s for s in blk.succs if s is not None)
    return False


def check(ctx, prog, rule, fn_filter=None):
    n = 0
    for fn in prog.all_functions():
        if fn_filter and not fn_filter(fn):
            continue
        per = {}
        for b, i, e in fn.elements():
            l = _idx_write(e)
            if l is not None:
                per.setdefault(b.id, []).append((canon(l["b"]), canon(l["i"]), e))
        par = {}
        for bid, ws in per.items():
            byidx = {}
            for base, idx, e in ws:
                byidx.setdefault(idx, set()).add(base)
            for idx, s in byidx.items():
                if len(s) >= 2:
                    for a in s:
                        par.setdefault(a, set()).update(s - {a})
        if not par:
            continue
        lps = patterns.loops(fn)
        for bid, ws in per.items():
            for base, idx, e in ws:
                r = strip(e["b"])
                if not (e.get("op") == "=" and isinstance(r, dict) and r.get("k") == "idx" and canon(r["b"]) == base
                        and canon(r["i"]) != idx and base in par):
                    continue
                have = {b2 for b2, i2, _ in ws if i2 == idx}
                # innermost loop holding the move
                inner = None
                for lp in lps:
                    if bid in lp.body_ext and (inner is None or len(lp.body_ext) < len(inner.body_ext)):
                        inner = lp
                n += 1
                inst = "%s:%s[%s]<-[%s]" % (fn.name, base, idx, canon(r["i"]))
                missing = []
                for sib in sorted(par[base] - have):
                    after = [inner.exit] if inner is not None else list(fn.blocks[bid].succs)
                    if _reads_after(fn, sib, after):
                        missing.append(sib)
                if missing:
                    ctx.fail(rule, fn.name, "%s[%s]<-[%s] without %s" % (base, idx, canon(r["i"]), ",".join(missing)),
                             "`%s` moves an element of %s but not of its sibling array(s) %s, which are maintained in step "
                             "elsewhere in %s() and are read after this loop: after a compaction the siblings describe "
                             "different segments" % (canon(e), base, ", ".join(missing), fn.name),
                             fn=fn, line=e.get("l", fn.line), inst=inst)
                else:
                    ctx.ok(rule, inst, "siblings %s written at the same index in the same block (or dead after the loop)"
                           % ", ".join(sorted(par[base])))
    return n
