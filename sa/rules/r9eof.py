"""R9a.eof — the header reader notices the end of the file.

The function that reads header chunks (located structurally: it calls MPI_File_read_at[_all] and MPI_Get_count) must
  (a) turn "nothing was read although something was asked for" into an error: the count received from MPI_Get_count is
      tested against zero and the zero side stores an error constant into the status the function returns;  otherwise
      everything past the end of the file is read as zeros and a header that announces N bytes of attribute values is
      allocated and filled whatever the size of the file (C19: "memory and time related to the size of the file");
  (b) tell the other processes: only the reading process knows the status, so the MPI_Bcast / MPI_Allreduce of that
      status must not depend on anything but nprocs > 1 (it used to be made in safe mode only: the others would wait for root in
      the next collective fetch)."""
from facts import walk, strip, strip_pre, canon, const_value, macro_of
from frontend import AnalysisBroken
import cfg
import patterns


def check(ctx, prog, rule):
    cands = []
    for fn in prog.all_functions():
        reads = patterns.call_sites(fn, lambda n: n in ("MPI_File_read_at", "MPI_File_read_at_all"))
        counts = patterns.call_sites(fn, lambda n: n in ("MPI_Get_count", "MPI_Get_count_c"))
        if reads and counts and "hdr" in fn.name:
            cands.append((fn, reads, counts))
    if len(cands) != 1:
        raise AnalysisBroken("%s: expected one header chunk reader, found %s" % (rule, [c[0].name for c in cands]))
    fn, reads, counts = cands[0]
    ctx.functions_analysed.add((fn.unit.name, fn.name))
    # the variable receiving the count
    cnt = None
    for b, i, c in counts:
        a = strip(c["args"][2])
        if a.get("k") == "un" and a.get("op") == "&":
            cnt = canon(a["e"])
    if cnt is None:
        raise AnalysisBroken("%s: the count variable of MPI_Get_count in %s was not found" % (rule, fn.name))
    # returned status variable(s)
    rets = set()
    for b, i, e in fn.elements():
        if e.get("k") == "ret" and e.get("e") is not None:
            rets.add(canon(e["e"]))
    ok_a = False
    for bid, blk in fn.blocks.items():
        c = blk.cond
        if c is None or len(blk.succs) != 2:
            continue
        cc = strip_pre(c)
        if not (isinstance(cc, dict) and cc.get("k") == "bin"):
            continue
        zero_side = None
        if cc.get("op") == "==" and canon(cc["a"]) == cnt and const_value(cc["b"]) == 0:
            zero_side = blk.succs[0]
        elif cc.get("op") in ("!=", ">") and canon(cc["a"]) == cnt and const_value(cc["b"]) == 0:
            zero_side = blk.succs[1]
        elif cc.get("op") == "<=" and canon(cc["a"]) == cnt and const_value(cc["b"]) == 0:
            zero_side = blk.succs[0]
        if zero_side is None:
            continue
        # an error constant stored into a returned variable on the zero side (possibly after further && conditions)
        j = patterns.ipdom(fn, bid)
        for rb in patterns.region(fn, zero_side, {j} if j is not None else set()):
            for e in fn.blocks[rb].elems:
                for x in walk(e):
                    if x.get("k") == "asg" and canon(x["a"]) in rets:
                        v = const_value(x["b"])
                        if v is not None and v < 0:
                            ok_a = True
    inst = "%s:eof" % fn.name
    if ok_a:
        ctx.ok(rule, inst, "`%s == 0` stores an error into the returned status" % cnt)
    else:
        ctx.fail(rule, fn.name, "eof", "the number of bytes actually read (`%s`) is never tested against zero with an error on the zero side: "
                 "beyond the end of the file the header is read as zeros, so a 4 KiB file announcing a 1 GiB attribute is opened "
                 "with 1 GiB allocated and filled" % cnt, fn=fn, line=counts[0][2].get("l", fn.line), inst=inst)
    # (b) the status broadcast
    inst = "%s:eofsync" % fn.name
    bc = []
    for b, i, c in patterns.call_sites(fn, lambda n: n in ("MPI_Bcast", "MPI_Allreduce")):
        a = strip(c["args"][0])
        if a.get("k") == "un" and a.get("op") == "&" and canon(a["e"]) in rets:
            bc.append((b, i, c))
    if not bc:
        ctx.fail(rule, fn.name, "eofsync", "the status of the read is neither broadcast nor reduced over the processes", fn=fn, line=fn.line, inst=inst)
        return
    pd = cfg.postdominators(fn)

    def direct(x):
        out = set()
        for d, blk in fn.blocks.items():
            if blk.cond is None or len(blk.succs) != 2 or d == x or x in pd.get(d, set()):
                continue
            succs = [s_ for s_ in blk.succs if s_ is not None]
            if any(fn.blocks[s_].noreturn for s_ in succs):
                continue
            if any(s_ == x or x in pd.get(s_, set()) for s_ in succs):
                out.add(d)
        return out
    bad = None
    for b, i, c in bc:
        ctrl, todo = set(), [b.id]
        while todo:
            x = todo.pop()
            for d in direct(x):
                if d not in ctrl:
                    ctrl.add(d)
                    todo.append(d)
        for d in ctrl:
            t = canon(fn.blocks[d].cond)
            if "nprocs" in t and "safe" not in t:
                continue
            bad = t
    if bad:
        ctx.fail(rule, fn.name, "eofsync", "the broadcast of the read status depends on `%s`: otherwise only the reading process knows "
                 "that its read failed and the others wait for it in the next collective fetch" % bad[:60], fn=fn,
                 line=bc[0][2].get("l", fn.line), inst=inst)
    else:
        ctx.ok(rule, inst, "the read status is agreed on whenever there is more than one process")
