"""R8.attrsize — every attribute element count the header reader accepts has an external size that fits in 63 bits.

hdr_get_NC_attr() is evaluated by the analyser from its entry to the call that allocates the attribute
(ncmpio_new_NC_attr), with the header-reading callees replaced by "the file supplies this word": for each format
version, each external type valid in it and each word of a dictionary of extremes (powers of two and the exact
thresholds (2^63-4)/size, each -1/+0/+1/+2).  When the count is accepted, x_len_NC_attrV(type, count) - the size that
is then allocated and the bound of the copy loop - is evaluated with unbounded integers: it must be below 2^63 and at
least count * sizeof(type).  Exhaustive over (version, type); bounded over the words."""
import concrete
from facts import strip, canon
from frontend import AnalysisBroken

XSZ = {1: 1, 2: 1, 3: 2, 4: 4, 5: 4, 6: 8, 7: 1, 8: 2, 9: 4, 10: 8, 11: 8}
I63 = 2 ** 63 - 1


class _Stop(Exception):
    pass


def words(version):
    if version < 5:
        return [0, 1, 2, 2 ** 31 - 1, 2 ** 31, 2 ** 32 - 2, 2 ** 32 - 1]
    w = {0, 1, 2, 3, 2 ** 31 - 1, 2 ** 31, 2 ** 32 - 1, 2 ** 32, 2 ** 40, 2 ** 63, 2 ** 63 + 1, 2 ** 64 - 1}
    for k in (60, 61, 62):
        w |= {2 ** k - 1, 2 ** k, 2 ** k + 1}
    w |= set(range(2 ** 63 - 8, 2 ** 63))
    for xs in (1, 2, 4, 8):
        t = (2 ** 63 - 4) // xs
        w |= {t - 1, t, t + 1, t + 2}
    return sorted(w)


def check(ctx, prog, rule):
    fn = ctx.need_fn(prog, "hdr_get_NC_attr")
    xlen = ctx.need_fn(prog, "x_len_NC_attrV")
    cells = 0
    accepted = 0
    bad = None
    for version in (1, 2, 5):
        for xtype in range(1, 12 if version == 5 else 7):
            for w in words(version):
                got = {}

                def hook(e, args, env, w=w, xtype=xtype, got=got):
                    f = e.get("fn")
                    a = e.get("args", [])

                    def out(k):
                        t = canon(a[k])
                        return t[1:] if t.startswith("&") else None
                    if f == "hdr_get_nc_type" and len(a) == 2 and out(1):
                        env[out(1)] = xtype
                    elif f in ("hdr_get_uint32", "hdr_get_uint64") and len(a) == 2 and out(1):
                        env[out(1)] = w & (0xffffffff if f.endswith("32") else 0xffffffffffffffff)
                    elif f == "ncmpii_xlen_nc_type" and len(a) == 2 and out(1):
                        env[out(1)] = XSZ[args[0]] if args[0] in XSZ else 0
                    elif f == "ncmpio_new_NC_attr":
                        got["nelems"] = args[3]
                        got["type"] = args[2]
                        raise _Stop()
                env = {"$dyn": True, "gbp->version": version, "err": 0, "status": 0}
                try:
                    concrete.run_region(fn, (fn.entry, 0), set(), env, events=None, max_steps=400, call_hook=hook)
                except _Stop:
                    pass
                except concrete.Unsupported as u:
                    raise AnalysisBroken("hdr_get_NC_attr is no longer interpretable up to the allocation: %s" % u)
                except KeyError as u:
                    raise AnalysisBroken("hdr_get_NC_attr reads an unbound location %s" % u)
                cells += 1
                if "nelems" not in got:
                    continue
                accepted += 1
                n = got["nelems"]
                if n is None or got["type"] != xtype:
                    raise AnalysisBroken("hdr_get_NC_attr: the count / type handed to ncmpio_new_NC_attr could not be evaluated")
                e2 = {"xtype": xtype, "nelems": n}
                try:
                    concrete.run_region(xlen, (xlen.entry, 0), set(), e2, max_steps=200)
                except (concrete.Unsupported, KeyError) as u:
                    raise AnalysisBroken("x_len_NC_attrV is no longer interpretable: %s" % u)
                size = e2.get("$ret")
                why = None
                if n < 0:
                    why = "the count is negative as a signed 64-bit value"
                elif size is None or size > I63:
                    why = "its external size %s does not fit in 63 bits: the size allocated wraps while the copy loop runs over count * %d bytes" % (size, XSZ[xtype])
                elif size < n * XSZ[xtype]:
                    why = "its external size %s is smaller than count * %d" % (size, XSZ[xtype])
                if why and bad is None:
                    bad = (version, xtype, w, n, why)
    ctx.require(accepted >= 100, "%s: only %d accepted (version, type, count) cells out of %d" % (rule, accepted, cells))
    inst = "hdr_get_NC_attr:nelems"
    if bad:
        ctx.fail(rule, "hdr_get_NC_attr", "nelems", "CDF-%d attribute of type %d with the element count word 0x%x is accepted (count %d): %s"
                 % bad, fn=fn, line=fn.line, inst=inst, detail={"version": bad[0], "type": bad[1], "word": bad[2]})
    else:
        ctx.ok(rule, inst, "%d (version, type, word) cells, %d accepted: every accepted count has an external size below 2^63" % (cells, accepted))
    return cells
