"""R10.typerange — the external type code read from a header is accepted exactly when the format allows it:
1..6 (NC_BYTE..NC_DOUBLE) for CDF-1 and CDF-2, 1..11 (..NC_UINT64) for CDF-5.  The decision function is small and pure,
so it is evaluated by the analyser for every (version, code) cell: exhaustive over the cells that matter (codes 0..13
and the two extreme words)."""
import concrete
from facts import strip, canon
from frontend import AnalysisBroken

CODES = list(range(0, 14)) + [0x7fffffff, 0xffffffff]


def check(ctx, fn, rule, tool):
    bad = None
    n = 0
    for ver in (1, 2, 5):
        for code in CODES:
            env = {"$dyn": True, "gbp->version": ver, "verbose": 0, "$ret:get_uint32": code,
                   "gbp->pos": 1000, "gbp->end": 5000, "gbp->base": 1000}

            def hook(e, args, env, code=code):
                if e.get("fn") == "ncmpix_get_uint32":
                    t = strip(e["args"][1])
                    if t.get("k") == "un" and t.get("op") == "&":
                        env[concrete.lv_name(t["e"])] = code
            try:
                concrete.run_region(fn, (fn.entry, 0), set(), env, events=None, max_steps=500, call_hook=hook)
            except concrete.Unsupported as u:
                raise AnalysisBroken("%s is no longer interpretable: %s" % (fn.name, u))
            n += 1
            accepted = env.get("$ret") == 0
            want = 1 <= code <= (11 if ver == 5 else 6)
            if accepted != want and bad is None:
                bad = (ver, code, accepted)
    inst = "%s:%s" % (tool, fn.name)
    if bad:
        ver, code, acc = bad
        ctx.fail(rule, fn.name, "CDF-%d/type %d" % (ver, code), "%s() %s external type code %d in a CDF-%d header; the format %s it" %
                 (fn.name, "accepts" if acc else "rejects", code, ver, "does not allow" if acc else "allows"), fn=fn, line=fn.line,
                 inst=inst)
    else:
        ctx.ok(rule, inst, "%d (version, type code) cells: accepted exactly for 1..6 (CDF-1/2) and 1..11 (CDF-5)" % n)
    return n
