"""C10 — hints and modes never change results: the hint table only.

 R10.hintdomain  for every PnetCDF hint parsed in ncmpio_set_pnetcdf_hints, the set of values the parser lets
                 through is inside the domain its consumers are total on (table sizes / buffer sizes >= 1,
                 alignments and aggregator counts >= 0).
 R10.reportback  every hint key that is read is reported back in info_used on every path.
"""
from facts import walk, strip, strip_pre, const_value, show, canon, lvalue_key, macro_of
from frontend import AnalysisBroken
import cfg
import patterns
from rules import r5par

SAFE_MIN = {   # hint key -> smallest value its consumers accept, with the reason
    "nc_header_align_size": (0, "0 selects the default alignment"),
    "nc_var_align_size": (0, "0 selects the default alignment"),
    "nc_record_align_size": (0, "0 selects the default alignment"),
    "nc_ibuf_size": (None, "only compared as a threshold (req_size <= ibuf_size): every value is safe"),
    "nc_hash_size_dim": (1, "bucket index is hash & (size-1); table allocated with size buckets"),
    "nc_hash_size_var": (1, "bucket index is hash & (size-1)"),
    "nc_hash_size_gattr": (1, "bucket index is hash & (size-1)"),
    "nc_hash_size_vattr": (1, "bucket index is hash & (size-1)"),
    "nc_num_aggrs_per_node": (0, "0 disables aggregation"),
    "nc_num_subfiles": (0, "0/1 disables subfiling"),
}
PARSERS = ("atoi", "strtoll", "strtol", "atol", "atoll")


def key_of_get(call):
    a = call.get("args", [])
    if len(a) >= 2:
        s = strip(a[1])
        if isinstance(s, dict) and s.get("k") == "str":
            return s.get("s")
    return None


def accepted_min(fn, b, i, e):
    """smallest value that survives the parse + repair at this store (None = unbounded below)"""
    fk = lvalue_key(e["a"])
    lo = None
    # repair-after tests on the stored field
    for bid, blk in fn.blocks.items():
        c = blk.cond
        if c is None or c.get("k") != "bin" or lvalue_key(c["a"]) != fk:
            continue
        if bid != b.id and not cfg.pos_dominates(fn, (b.id, i), (bid, 0)):
            continue
        lim = const_value(c["b"])
        tb = fn.blocks[blk.succs[0]] if blk.succs and blk.succs[0] is not None else None
        repairs = tb is not None and any(x.get("k") == "asg" and lvalue_key(x["a"]) == fk and const_value(x["b"]) is not None
                                         for x in tb.elems)
        if lim is None or not repairs:
            continue
        if c["op"] == "<":
            lo = max(lo, lim) if lo is not None else lim
        elif c["op"] == "<=":
            lo = max(lo, lim + 1) if lo is not None else lim + 1
    return lo


INFORCE = {   # key -> the NC field its consumers read (ncmpio_inq_misc reports these)
    "nc_header_align_size": "ncp->h_align", "nc_var_align_size": "ncp->v_align",
    "nc_record_align_size": "ncp->r_align", "nc_header_read_chunk_size": "ncp->chunk",
    "nc_ibuf_size": "ncp->ibuf_size", "nc_num_subfiles": "ncp->num_subfiles",
}


def reported_exprs(fn, sb, si, call):
    """expressions printed into the buffer that this MPI_Info_set reports (nearest sprintf on each incoming path)"""
    a = call["args"]
    buf = canon(a[2])
    s2 = strip(a[2])
    if isinstance(s2, dict) and s2.get("k") == "str":
        return [("const", s2.get("s"))]
    out = []
    seen = set()
    st = [(sb.id, si)]
    while st:
        bid, upto = st.pop()
        blk = fn.blocks[bid]
        found = False
        for j in range((len(blk.elems) if upto is None else upto) - 1, -1, -1):
            e = blk.elems[j]
            cs = [c for c in walk(e) if c.get("k") == "call" and c.get("fn") in ("sprintf", "snprintf", "strcpy", "MPI_Info_get")]
            cs = [c for c in cs if c.get("args") and (canon(c["args"][0]) == buf or
                                                     (c["fn"] == "MPI_Info_get" and canon(c["args"][3]) == buf))]
            if cs:
                c = cs[-1]
                if c["fn"] == "sprintf":
                    out.append(("expr", c["args"][2]) if len(c["args"]) > 2 else ("const", None))
                elif c["fn"] == "MPI_Info_get":
                    out.append(("user", None))
                else:
                    out.append(("const", None))
                found = True
                break
        if found:
            continue
        for p in blk.preds:
            if p not in seen:
                seen.add(p)
                st.append((p, None))
    return out


def check_reportvalue(ctx, fn, fields_of):
    n = 0
    for b, i, c in patterns.call_sites(fn, lambda nm: nm == "MPI_Info_set"):
        key = key_of_get(c)
        if key is None:
            continue
        inst = "%s:%s" % (fn.name, key)
        allowed = fields_of(key)
        if allowed is None:
            ctx.instance("R10.reportvalue", inst)
            continue
        n += 1
        bad = None
        for kind, x in reported_exprs(fn, b, i, c):
            if kind == "expr" and const_value(x) is None and canon(x) not in allowed:
                bad = canon(x)
        if bad is not None:
            ctx.fail("R10.reportvalue", fn.name, key, "the value reported for hint %s is `%s`, not the value in force (%s)"
                     % (key, bad, " / ".join(sorted(allowed))), fn=fn, line=c.get("l", fn.line), inst=inst)
        else:
            ctx.ok("R10.reportvalue", inst, "reports %s or a constant default" % " / ".join(sorted(allowed)))
    return n


def run(ctx):
    ctx.rule("R10.reportvalue", "the string reported for a numeric hint is printed from the field holding the value in force")
    ctx.rule("R10.hintdomain", "accepted values of each parsed hint lie inside the domain its consumers are total on")
    ctx.rule("R10.reportback", "every hint key read with MPI_Info_get is written back with MPI_Info_set on all paths")
    ctx.assume("identity of results across hint / mode configurations is differential by nature and is not decided; "
               "the collective structure's independence of safe mode and process count is C08's subject")
    prog = ctx.program(names=["ncmpio_util.c"])
    fn = ctx.need_fn(prog, "ncmpio_set_pnetcdf_hints")
    gets = patterns.call_sites(fn, lambda n: n == "MPI_Info_get")
    sets = patterns.call_sites(fn, lambda n: n == "MPI_Info_set")
    ctx.require(len(gets) >= 10, "expected >= 10 hints parsed, found %d" % len(gets))
    # --- domains ----------------------------------------------------------------------------
    nstores = 0
    for b, i, e in fn.elements():
        if e.get("k") != "asg" or e.get("op") != "=":
            continue
        r = strip(e["b"])
        if not (isinstance(r, dict) and r.get("k") == "call" and r.get("fn") in PARSERS) and \
                not any(c.get("fn") in PARSERS for c in walk(e["b"], into_pre=True) if c.get("k") == "call"):
            continue
        # which hint? the dominating MPI_Info_get closest to the store
        key = None
        best = -1
        for gb, gi, gc in gets:
            if cfg.pos_dominates(fn, (gb.id, gi), (b.id, i)) and (gc.get("l") or 0) > best:
                best = gc.get("l") or 0
                key = key_of_get(gc)
        l = strip(e["a"])
        if key is None:
            continue
        if l.get("k") == "ref":
            # parsed into a local: follow it to the field it is stored in (positive-test form)
            tgt = None
            for b2, i2, e2 in fn.elements():
                if e2.get("k") == "asg" and lvalue_key(e2["b"]) == lvalue_key(l) and strip(e2["a"]).get("k") == "mem":
                    # guard on the local
                    lo = None
                    for d in cfg.dominators(fn).get(b2.id, ()):
                        for y in walk(fn.blocks[d].cond or {}, into_pre=True):
                            if y.get("k") == "bin" and lvalue_key(y["a"]) == lvalue_key(l) and const_value(y["b"]) is not None:
                                if y["op"] == ">":
                                    lo = const_value(y["b"]) + 1
                                elif y["op"] == ">=":
                                    lo = const_value(y["b"])
                    tgt = (e2, lo)
            if tgt is None:
                if key in SAFE_MIN:
                    ctx.instance("R10.hintdomain", key)
                    ctx.notes.append("hint %s is parsed into a local that is never stored: the hint is inert" % key)
                continue
            e_store, lo = tgt
        else:
            lo = accepted_min(fn, b, i, e)
        nstores += 1
        if key not in SAFE_MIN:
            ctx.fail("R10.hintdomain", fn.name, key, "hint %s is parsed but has no entry in the safe-domain table" % key,
                     fn=fn, line=e.get("l", 0), inst=key)
            continue
        need, why = SAFE_MIN[key]
        if need is None:
            ctx.ok("R10.hintdomain", key, why)
        elif lo is not None and lo >= need:
            ctx.ok("R10.hintdomain", key, "accepted values >= %d, consumers need >= %d (%s)" % (lo, need, why))
        else:
            ctx.fail("R10.hintdomain", fn.name, key, "hint %s lets through values down to %s but its consumers need >= %d "
                     "(%s)" % (key, lo if lo is not None else "-inf", need, why), fn=fn, line=e.get("l", 0), inst=key)
    ctx.require(nstores >= 8, "expected >= 8 parsed hint values, found %d" % nstores)
    # --- reported value is the stored one ------------------------------------------------------
    stored = {}
    for gb, gi, gc in gets:
        k = key_of_get(gc)
        for b2, i2, e2 in fn.elements():
            if e2.get("k") == "asg" and strip(e2["a"]).get("k") == "mem" and cfg.pos_dominates(fn, (gb.id, gi), (b2.id, i2)):
                # only stores before the next hint's MPI_Info_get
                nxt = [(x.id, j) for x, j, c2 in gets if (c2.get("l") or 0) > (gc.get("l") or 0)]
                if any(cfg.pos_dominates(fn, q, (b2.id, i2)) for q in nxt):
                    continue
                stored.setdefault(k, set()).add(canon(e2["a"]))
    n1 = check_reportvalue(ctx, fn, lambda k: stored.get(k))
    prog2 = ctx.program(names=["ncmpio_file_misc.c"])
    fn2 = ctx.need_fn(prog2, "ncmpio_inq_misc")
    n2 = check_reportvalue(ctx, fn2, lambda k: {INFORCE[k]} if k in INFORCE else None)
    # --- aggregation: parallel arrays stay in step --------------------------------------------
    ctx.rule("R5.parallel", "offset/length/buffer-address arrays of the aggregation layer are compacted and swapped together")
    prog3 = ctx.program(names=["ncmpio_intra_node.c"])
    n3 = r5par.check(ctx, prog3, "R5.parallel")
    from rules import r8merge
    ctx.rule("R8.merge", "the aggregator's overlap merge: sorted, disjoint, same bytes, first request wins (bounded)")
    n4 = r8merge.check(ctx, ctx.need_fn(prog3, "intra_node_aggregation"), "R8.merge",
                       {"off": "offsets[%d]", "len": "lengths[%d]", "addr": "bufAddr[%d]", "n": "npairs"})
    ctx.require(n4 >= 1000, "R8.merge: only %d segment lists evaluated" % n4)
    from rules import r8flat
    ctx.rule("R8.flatten", "the aggregator's subarray flattening addresses exactly the requested elements (bounded)")
    n5 = r8flat.check(ctx, ctx.need_fn(prog3, "flatten_subarray"), "R8.flatten", "arrays")
    ctx.require(n5 >= 200, "R8.flatten: only %d requests evaluated" % n5)
    n6 = r8flat.check_record_loop(ctx, ctx.need_fn(prog3, "flatten_req"), "R8.flatten")
    ctx.require(n6 >= 30, "R8.flatten: only %d record cells evaluated" % n6)
    from rules import r5recskip
    ctx.rule("R5.recskip", "where the record dimension is dropped, every per-dimension array handed on with the reduced count is advanced")
    r5recskip.check(ctx, prog3, "R5.recskip", min_instances=3)
    ctx.require(n3 >= 10, "expected >= 10 element moves over parallel arrays in the aggregation layer, found %d" % n3)
    ctx.require(n1 >= 9 and n2 >= 5, "expected >= 9 + 5 numeric report-back sites, found %d + %d" % (n1, n2))
    # --- report back --------------------------------------------------------------------------
    gkeys = {key_of_get(c) for b, i, c in gets}
    gkeys.discard(None)
    by_key = {}
    for b, i, c in sets:
        a = c["args"]
        if canon(a[0]) != "info_used":
            continue
        by_key.setdefault(key_of_get(c), set()).add(b.id)
    for k in sorted(gkeys):
        if k == "romio_no_indep_rw":
            ctx.instance("R10.reportback", k)     # an MPI-IO hint, passed through in the info object itself
            continue
        blocks = by_key.get(k, set())
        # every path from entry to exit must pass through one of the set blocks
        seen = set()
        st = [fn.entry]
        escaped = False
        while st:
            x = st.pop()
            if x in seen or x in blocks:
                continue
            seen.add(x)
            if fn.blocks[x].noreturn:
                continue                      # assert() failure: the process ends
            if x == fn.exit:
                escaped = True
                break
            st.extend(s for s in fn.blocks[x].succs if s is not None)
        if blocks and not escaped:
            ctx.ok("R10.reportback", k, "MPI_Info_set(info_used, \"%s\") on every path" % k)
        else:
            ctx.fail("R10.reportback", fn.name, k, "hint %s is read but not reported back in info_used on every path" % k,
                     fn=fn, line=fn.line, inst=k)
