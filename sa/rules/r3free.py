"""R3.dfree — no object is released twice, across function boundaries.

Pointer values are symbolic: the initial value of every pointer lvalue (parameter, field, element) and the result of
every pointer-returning call site is a symbol; assignments copy symbols, so aliases made by stores such as
`(*attrp)->name = name` are followed by value.  free-like calls add the symbol to a per-path freed set; freeing a
symbol already in the set is a report.  Callees are summarised bottom-up over the call graph: for each class of return
value (0, a specific constant, other non-zero) the set of access paths rooted at its parameters that it may release.
At a call site the analysis splits the state per class, forces the call's value to that class, and applies the
summary, so that "the constructor failed *and* released the caller's string" is visible to the caller's error branch.

This is a may-analysis over feasible-looking paths: allocation failure branches are explored (that is where the
double releases live).  Symbols rooted at an lvalue are forgotten when a variable it mentions is reassigned (loops over
`value[i]`, cursor pointers)."""
from facts import walk, strip, strip_pre, const_value, show, canon, lvalue_key, key_mentions, key_str
from absint import ValueDomain, Explorer, State, AVal, fin, TOP, Budget, ZERO, NONZERO
from frontend import AnalysisBroken
from callgraph import CallGraph

FREE_FNS = {"free", "NCI_Free_fn", "NCI_Free"}
ALLOC_FNS = {"malloc", "calloc", "realloc", "NCI_Malloc_fn", "NCI_Calloc_fn", "NCI_Realloc_fn", "strdup"}
SYM0 = 1000000


class FreeDom(ValueDomain):
    def __init__(self, fn, summaries, syms):
        ValueDomain.__init__(self, fn)
        self.summ = summaries
        self.syms = syms              # shared: key -> sym, sym -> key
        self.reports = []             # (call node, sym, state)
        self.uaf = []
        self.pids = {p["id"]: k for k, p in enumerate(fn.params)}

    # ---- symbols ---------------------------------------------------------------
    def sym(self, key):
        d = self.syms
        kk = (self.fn.name, key)
        if kk not in d["k2s"]:
            s = SYM0 + len(d["k2s"])
            d["k2s"][kk] = s
            d["s2k"][s] = key
        return d["k2s"][kk]

    def is_ptr(self, n):
        t = self.fn.type(n.get("t")) if isinstance(n, dict) and "t" in n else {}
        return t.get("k") == "ptr"

    def tracked(self, key):
        if isinstance(key, str):
            return True
        if key[0] == "v":
            v = self.fn.vars.get(key[1])
            if v is None:
                return False
            k = self.fn.type(v["t"]).get("k")
            return k in ("ptr", "int", "enum")
        return True

    STATUS = {"err", "status", "mpireturn", "ret", "errs"}

    def assign(self, lhs, val, st, rhs=None, elem=None):
        l = strip(lhs)
        if False:
            val = TOP
        return ValueDomain.assign(self, lhs, val, st, rhs, elem)

    def eval(self, n, st):
        x = strip_pre(n)
        if isinstance(x, dict):
            if x.get("k") in ("ref", "mem", "idx") or (x.get("k") == "un" and x.get("op") == "*"):
                key = lvalue_key(x)
                if key is not None and not st.has(key) and self.is_ptr(x) and "cv" not in x:
                    return fin(self.sym(key))
            if x.get("k") == "cast":
                return self.eval(x["e"], st)
            if x.get("k") == "un" and x.get("op") == "&":
                t = strip(x["e"])
                if isinstance(t, dict) and t.get("k") == "ref" and t.get("dk") == "global":
                    return fin(self.sym(("addr", t["n"])))       # the address of a global object: a constant
        return ValueDomain.eval(self, n, st)

    def refine(self, c, st, truth):
        """an explicit NULL test of a pointer whose value is still its initial symbol has both outcomes: the symbol
        stands for "whatever it held on entry", which may be NULL (aliases made by copying keep one symbol, so comparing
        two copies stays decided)"""
        x = strip_pre(c)
        e, nonnull_if_true = None, None
        if isinstance(x, dict):
            if x.get("k") == "un" and x.get("op") == "!":
                e, nonnull_if_true = x["e"], False
            elif x.get("k") == "bin" and x.get("op") in ("==", "!="):
                if const_value(x["b"]) == 0:
                    e, nonnull_if_true = x["a"], x["op"] == "!="
                elif const_value(x["a"]) == 0:
                    e, nonnull_if_true = x["b"], x["op"] == "!="
            elif x.get("k") in ("ref", "mem", "idx") or (x.get("k") == "un" and x.get("op") == "*"):
                e, nonnull_if_true = x, True
        if e is not None:
            y = strip_pre(e)
            while isinstance(y, dict) and y.get("k") == "cast":
                y = strip_pre(y["e"])
            key = lvalue_key(y) if isinstance(y, dict) else None
            if key is not None and not st.has(key) and self.is_ptr(y) and "cv" not in y and self.tracked(key):
                if truth == nonnull_if_true:
                    return st.set(key, fin(self.sym(key)))
                return st.set(key, ZERO)
        return ValueDomain.refine(self, c, st, truth)

    # ---- memo of branch decisions on values the domain cannot represent (rank > 0, n >= 2, flags & m) -----------
    @staticmethod
    def _pure(c):
        for x in walk(c, into_pre=True):
            k = x.get("k")
            if k in ("call", "asg") or (k == "un" and ("++" in x.get("op", "") or "--" in x.get("op", ""))):
                return False
        return True

    @staticmethod
    def _norm(c):
        """(text, flipped): `a == b`, `a <= b`, `a >= b`, `!a` are stored as the negation of `a != b`, `a > b`, `a < b`, `a`"""
        x = strip_pre(c)
        flip = False
        while isinstance(x, dict) and x.get("k") == "un" and x.get("op") == "!":
            x = strip_pre(x["e"])
            flip = not flip
        if isinstance(x, dict) and x.get("k") == "bin" and x.get("op") in ("==", "<=", ">="):
            op = {"==": "!=", "<=": ">", ">=": "<"}[x["op"]]
            return "%s %s %s" % (canon(x["a"]), op, canon(x["b"])), not flip
        return canon(x), flip

    @staticmethod
    def _keys_of(c):
        out = set()
        addr = set()
        for x in walk(c, into_pre=True):
            if x.get("k") == "un" and x.get("op") == "&":
                for y in walk(x["e"], into_pre=True):
                    addr.add(id(y))         # &object is a constant: the object's value does not matter
        for x in walk(c, into_pre=True):
            if id(x) in addr:
                continue
            if x.get("k") in ("ref", "mem", "idx") or (x.get("k") == "un" and x.get("op") == "*"):
                k = lvalue_key(x)
                if k is not None:
                    out.add(k)
        return tuple(sorted(out, key=str))

    MEMO = False

    def branch(self, blk, st):
        c = blk.cond
        if not self.MEMO or c is None or len(blk.succs) != 2 or blk.term == "switch" or not self._pure(c):
            return ValueDomain.branch(self, blk, st)
        txt, flip = self._norm(c)
        memo = st.get("$P", frozenset())
        known = [t for (cc, t, ks) in memo if cc == txt]
        edges = ValueDomain.branch(self, blk, st)
        # remember the decision only where the value domain learnt nothing from it
        learnt = len(edges) != 2 or any(s2 is not st and s2 != st for _, s2 in edges)
        ks = self._keys_of(c)
        if (learnt and not known) or not ks or any(k[0] != "v" for k in ks):
            return edges
        out = []
        for succ, s2 in edges:
            truth = (succ == blk.succs[0]) if blk.succs[0] != blk.succs[1] else None
            if truth is None:
                out.append((succ, s2))
                continue
            truth = truth != flip
            if known and truth != known[0]:
                continue
            if not known:
                s2 = s2.set("$P", memo | {(txt, truth, self._keys_of(c))})
            out.append((succ, s2))
        return out

    def _drop_memo(self, st, key):
        memo = st.get("$P", None)
        if not memo:
            return st
        keep = frozenset(e for e in memo if not any(key_mentions(k, key) for k in e[2]))
        return st if keep == memo else st.set("$P", keep if keep else None)

    def freed(self, st):
        return st.get("$F", frozenset())

    # ---- effects ---------------------------------------------------------------
    def forget(self, st, key, own):
        """symbols named after an lvalue that mentions `key` no longer denote the same object; the symbol of `key` itself
        is forgotten too when its new value is unknown (it would be handed out again for the new value)"""
        F = self.freed(st)
        if not F:
            return st
        s2k = self.syms["s2k"]
        keep = frozenset(s for s in F if not (s in s2k and isinstance(s2k[s], tuple) and s2k[s][0] != "call"
                                              and key_mentions(s2k[s], key) and (own or s2k[s] != key)))
        return st if keep == F else st.set("$F", keep if keep else None)

    def on_assign(self, key, lhs, rhs, val, st, elem):
        return self._drop_memo(self.forget(st, key, own=not st.has(key)), key)

    def kill(self, st, key):
        return self._drop_memo(self.forget(ValueDomain.kill(self, st, key), key, own=True), key)

    @staticmethod
    def the_sym(v):
        """the one object a value may denote (NULL is allowed beside it: releasing / testing NULL is harmless)"""
        if not isinstance(v, AVal) or v.kind != "fin":
            return None
        objs = [x for x in v.s if isinstance(x, int) and x >= SYM0]
        rest = [x for x in v.s if not (isinstance(x, int) and x >= SYM0) and x != 0]
        return objs[0] if len(objs) == 1 and not rest else None

    def release(self, st, v, call, what):
        s = self.the_sym(v)
        if s is None:
            return st
        F = self.freed(st)
        if s in F:
            self.reports.append((call, s, st, what))
            return st
        return st.set("$F", F | {s})

    def concretise(self, path, call, st):
        """summary path (rooted at ("P", i)) -> abstract value at this call site"""
        def build(p):
            if p[0] == "P":
                a = call["args"][p[1]] if p[1] < len(call.get("args", [])) else None
                return ("expr", a)
            if p[0] == "m":
                b = build(p[1])
                return ("key", ("m", tokey(b), p[2])) if tokey(b) is not None else None
            if p[0] == "d":
                b = build(p[1])
                if b is None:
                    return None
                if b[0] == "expr":
                    sa = strip(b[1])
                    if isinstance(sa, dict) and sa.get("k") == "un" and sa.get("op") == "&":
                        k = lvalue_key(sa["e"])
                        return ("key", k) if k is not None else None
                k = tokey(b)
                return ("key", ("d", k)) if k is not None else None
            if p[0] == "i":
                b = build(p[1])
                return ("key", ("i", tokey(b), p[2])) if tokey(b) is not None else None
            return None

        def tokey(b):
            if b is None:
                return None
            if b[0] == "key":
                return b[1]
            return lvalue_key(b[1])
        b = build(path)
        if b is None:
            return None
        if b[0] == "expr":
            return self.eval(b[1], st) if b[1] is not None else None
        k = b[1]
        if k is None:
            return None
        if st.has(k):
            return st.get(k)
        return fin(self.sym(k))

    def uses(self, elem, st):
        """dereferences through a released pointer"""
        F = self.freed(st)
        if not F:
            return
        for x in walk(elem):
            b = None
            if x.get("k") == "mem" and x.get("arrow"):
                b = x["b"]
            elif x.get("k") == "un" and x.get("op") == "*":
                b = x["e"]
            elif x.get("k") == "idx":
                b = x["b"]
            if b is None:
                continue
            v = self.eval(b, st)
            s = self.the_sym(v)
            if s is not None and s in F:
                self.uaf.append((x, s, st))

    def on_elem(self, elem, st, blk, idx):
        self.uses(elem, st)
        if elem.get("k") == "ret":
            e = elem.get("e")
            return st.set("$ret", self.eval(e, st) if e is not None else None)
        if elem.get("k") == "call":
            f = elem.get("fn")
            if f in self.summ and self.summ[f] and f not in FREE_FNS:
                out = []
                for outcome, paths in self.summ[f].items():
                    s2 = st.set("$rv", (id(elem), outcome))
                    for p in sorted(paths, key=str):
                        v = self.concretise(p, elem, s2)
                        if v is not None:
                            s2 = self.release(s2, v, elem, "%s() releases %s" % (f, path_str(p, elem)))
                    out.append(s2)
                return out
        return st

    def call_value(self, call, st):
        rv = st.get("$rv", None)
        if isinstance(rv, tuple) and rv[0] == id(call):
            o = rv[1]
            if o == "nz":
                return NONZERO
            if o == "any":
                return TOP
            return fin(o)
        f = call.get("fn")
        if f in ALLOC_FNS or (self.fn.type(call.get("t")).get("k") == "ptr" if "t" in call else False):
            key = ("call", call.get("l", 0), f or "fp", id(call) % 100000)
            return AVal("fin", frozenset([0, self.sym(key)])) if f in ALLOC_FNS else fin(self.sym(key))
        return TOP

    def on_call(self, call, st, blk, idx):
        f = call.get("fn")
        # a call site that yields a pointer makes a fresh object each time it runs
        if f in ALLOC_FNS or (self.fn.type(call.get("t")).get("k") == "ptr" if "t" in call else False):
            key = ("call", call.get("l", 0), f or "fp", id(call) % 100000)
            s = self.sym(key)
            F = self.freed(st)
            if s in F:
                st = st.set("$F", (F - {s}) or None)
        if f in FREE_FNS and call.get("args"):
            v = self.eval(call["args"][0], st)
            st = self.release(st, v, call, "%s(%s)" % (f, canon(call["args"][0])))
        return st


def path_str(p, call=None):
    if p[0] == "P":
        if call is not None and p[1] < len(call.get("args", [])):
            return canon(call["args"][p[1]])
        return "arg%d" % p[1]
    if p[0] == "m":
        return path_str(p[1], call) + "->" + p[2]
    if p[0] == "d":
        return "*" + path_str(p[1], call)
    if p[0] == "i":
        return path_str(p[1], call) + "[..]"
    return "?"


def rel_path(fn, key, pids):
    """key rooted at a parameter -> path with ("P", index) root, else None"""
    if key[0] == "v":
        return ("P", pids[key[1]]) if key[1] in pids else None
    if key[0] == "m":
        b = rel_path(fn, key[1], pids)
        return ("m", b, key[2]) if b is not None else None
    if key[0] == "d":
        b = rel_path(fn, key[1], pids)
        return ("d", b) if b is not None else None
    if key[0] == "i":
        b = rel_path(fn, key[1], pids)
        return ("i", b, "*") if b is not None else None
    return None


def analyse(fn, summaries, syms, max_states):
    dom = FreeDom(fn, summaries, syms)
    ex = Explorer(fn, dom, max_states=max_states)
    ex.run(State())
    summ = {}
    for st, key in ex.exits:
        F = dom.freed(st)
        r = st.get("$ret", None)
        if r is None:
            outs = [0]
        elif isinstance(r, AVal) and r.kind == "fin" and all(isinstance(x, int) and abs(x) < SYM0 for x in r.s) and len(r.s) <= 3:
            outs = sorted(r.s)
        elif isinstance(r, AVal) and not r.may_be_zero():
            outs = ["nz"]
        else:
            outs = [0, "nz"]
        paths = set()
        for s in F:
            k = syms["s2k"].get(s)
            if k is None or k[0] == "call":
                continue
            p = rel_path(fn, k, dom.pids)
            if p is not None:
                paths.add(p)
        for o in outs:
            summ.setdefault(o, set()).update(paths)
    return dom, ex, summ


def check(ctx, prog, rule, scope):
    """scope(fn) -> bool selects the functions that are reported on; summaries are computed for every function that can
    reach a free-like call."""
    cg = CallGraph(prog)
    fns = {}
    for fn in prog.all_functions():
        fns.setdefault(fn.name, fn)
    # functions that (transitively) release something
    frees = set()
    changed = True
    direct = {name for name, fn in fns.items() if any(n in FREE_FNS for _, _, _, names in cg.calls.get(fn, []) for n in names)}
    frees |= direct
    while changed:
        changed = False
        for name, fn in fns.items():
            if name in frees:
                continue
            if any(n in frees for _, _, _, names in cg.calls.get(fn, []) for n in names if n in fns):
                frees.add(name)
                changed = True
    syms = {"k2s": {}, "s2k": {}}
    summaries = {}
    # callees first (post-order over the call graph restricted to `frees`)
    order = []
    seen = set()

    def visit(name):
        stack = [(name, iter(sorted({n for _, _, _, names in cg.calls.get(fns[name], []) for n in names if n in frees and n in fns})))]
        seen.add(name)
        while stack:
            cur, it = stack[-1]
            nxt = next(it, None)
            if nxt is None:
                order.append(cur)
                stack.pop()
            elif nxt not in seen:
                seen.add(nxt)
                stack.append((nxt, iter(sorted({n for _, _, _, names in cg.calls.get(fns[nxt], []) for n in names if n in frees and n in fns}))))
    for name in sorted(frees):
        if name not in seen:
            visit(name)
    skipped = []
    doms = {}
    dirty = set(order)
    for rnd in range(3):
        changed_fns = set()
        for name in order:
            if name not in dirty:
                continue
            fn = fns[name]
            if name in FREE_FNS or fn.relfile().endswith("mem_alloc.c"):
                continue
            try:
                dom, ex, summ = analyse(fn, summaries, syms, 80000)
            except Budget:
                if name not in skipped:
                    skipped.append(name)
                continue
            ctx.states += ex.visited
            doms[name] = (dom, ex)
            summ = {o: ps for o, ps in summ.items()} if any(summ.values()) else {}
            if summ != summaries.get(name, {}):
                summaries[name] = summ
                changed_fns.add(name)
        # re-analyse only the callers of functions whose summary changed after they had been analysed (recursion)
        pos = {n: k for k, n in enumerate(order)}
        dirty = set()
        for c in changed_fns:
            for (cfn, b, i, call) in cg.callers.get(c, []):
                if cfn.name in pos and pos[cfn.name] <= pos[c]:
                    dirty.add(cfn.name)
        if not dirty:
            break
    n = 0
    for name in order:
        fn = fns[name]
        if not scope(fn) or name not in doms:
            continue
        dom, ex = doms[name]
        n += 1
        ctx.functions_analysed.add((fn.unit.name, fn.name))
        inst = "%s" % name
        if dom.reports:
            seen = set()
            for call, s, st, what in dom.reports:
                k = syms["s2k"].get(s)
                obj = key_str(k) if isinstance(k, tuple) and k[0] != "call" else "the object returned by %s()" % (k[2] if k else "?")
                site = "%s" % what.split(",")[0][:70]
                if site in seen:
                    continue
                seen.add(site)
                ctx.fail(rule, name, site, "%s, but %s has already been released on this path (double free)" % (what, obj),
                         fn=fn, line=call.get("l", fn.line), inst=inst)
        if dom.uaf:
            seen = set()
            for x, s, st in dom.uaf:
                k = syms["s2k"].get(s)
                obj = key_str(k) if isinstance(k, tuple) and k[0] != "call" else "the object returned by %s()" % (k[2] if k else "?")
                site = "use:%s" % canon(x)[:50]
                if site in seen:
                    continue
                seen.add(site)
                ctx.fail(rule, name, site, "`%s` dereferences `%s` after it has been released on this path (use after free)"
                         % (canon(x)[:80], obj), fn=fn, line=x.get("l", fn.line), inst=inst)
        if not dom.reports and not dom.uaf:
            ctx.ok(rule, inst, "no object released twice or used after release on any explored path")
    for name in skipped:
        ctx.notes.append("R3.dfree: %s() exceeds the state budget and is not summarised (treated as releasing nothing)" % name)
    return n, summaries, skipped
