"""C13 — caller buffers respected; attached-buffer accounting exact (rule families R3/R4).

 R3.swap.pair   blocking puts: every in-place byte swap of the user buffer is undone, with the same
                element count and size, on every path to a return (put_varm, getput_vard).
 R3.swap.flag   nonblocking puts: NC_REQ_BUF_BYTE_SWAP is recorded exactly on the paths that hand the
                user buffer itself to the packer with a byte swap pending.
 R3.swap.retire each place that retires a put request (req_commit, ncmpio_cancel x2) tests the flag and
                swaps back (buf, nelems, varp->xsz) of that same request.
 R10.swapcond   the four functions that decide in-place swapping use the same decision tree.
 R4.abuf        NC_EINSUFFBUF test dominates ncmpio_abuf_malloc; a failed pack releases the slot; every
                path that clears an occupy-table entry reaches abuf_coalesce; size_used has the listed writers.
"""
from absint import ValueDomain, Explorer, State, TOP, ZERO, ONE, NONZERO, AVal, fin, Budget
from facts import walk, strip, strip_pre, const_value, show, canon, lvalue_key, macro_of
from frontend import AnalysisBroken
import cfg
import patterns

REQ_WR, REQ_RD, REQ_NBB = 0x4, 0x8, 0x200


class SwapDom(ValueDomain):
    def __init__(self, fn):
        super().__init__(fn)
        self.bad = []

    def tracked(self, key):
        if isinstance(key, str):
            return True
        if key[0] == "v":
            v = self.fn.vars.get(key[1])
            return v is not None and self.fn.type(v["t"]).get("k") in ("int", "uint", "enum")
        return False

    def call_value(self, call, st):
        f = call.get("fn") or ""
        if f.startswith("MPI_"):
            return ZERO
        if f.startswith(("NCI_Malloc", "NCI_Calloc", "NCI_Realloc")):
            return NONZERO
        return TOP

    def is_buf(self, n, st):
        n = strip(n)
        if isinstance(n, dict) and n.get("k") == "ref":
            if n.get("n") == "buf" and n.get("dk") == "param":
                return True
            return st.has("$al:" + n.get("n", ""))
        return False

    def on_assign(self, key, lhs, rhs, val, st, elem):
        if key is not None and key[0] == "v" and rhs is not None:
            r = strip(rhs)
            isb = isinstance(r, dict) and r.get("k") == "ref" and r.get("n") == "buf" and r.get("dk") == "param"
            st = st.set("$al:" + key[2], ONE if isb else None)
        return st

    def on_call(self, call, st, blk, idx):
        if call.get("fn") == "ncmpii_in_swapn" and len(call.get("args", [])) == 3:
            a = call["args"]
            if self.is_buf(a[0], st):
                sig = (canon(a[1]), canon(a[2]))
                cur = st.get("$sw", None)
                if cur is None:
                    return st.set("$sw", sig).set("$swl", fin(call.get("l", 0)))
                if cur != sig:
                    self.bad.append(("mismatch", call, cur, sig))
                return st.set("$sw", None)
        return st

    def on_elem(self, elem, st, blk, idx):
        if elem.get("k") == "ret":
            return st.set("$ret", ONE)
        return st


def check_pair(ctx, prog):
    for name in ("put_varm", "getput_vard"):
        fn = ctx.need_fn(prog, name)
        ctx.require(len(patterns.call_sites(fn, lambda n: n == "ncmpii_in_swapn")) >= 2,
                    "%s: expected an in-place swap and its undo" % name)
        dom = SwapDom(fn)
        left = None
        nexits = 0
        for k1, k0 in ((REQ_WR, REQ_RD), (REQ_RD, REQ_WR)):
            init = State()
            for p in fn.params:
                if p["n"] == "reqMode":
                    init = init.set(("v", p["id"], "reqMode"), AVal("bits", k1=k1, k0=k0))
            try:
                ex = Explorer(fn, dom, max_states=600000).run(init)
            except Budget as e:
                raise AnalysisBroken(str(e))
            ctx.states += ex.visited
            nexits += len(ex.exits)
            for st, key in ex.exits:
                if st.get("$sw", None) is not None:
                    left = (st, key)
                    break
            if left:
                break
        if dom.bad:
            kind, call, cur, sig = dom.bad[0]
            ctx.fail("R3.swap.pair", name, "extent", "the user buffer is byte-swapped in place over (%s elements of "
                     "size %s) but swapped back over (%s, %s): part of the caller's buffer is left modified"
                     % (cur[0], cur[1], sig[0], sig[1]), fn=fn, line=call.get("l", 0))
        elif left:
            st, key = left
            ctx.fail("R3.swap.pair", name, "undo", "a path returns with the user buffer still byte-swapped (swap at "
                     "line %s is not undone)" % st.get("$swl").single(), fn=fn, line=st.get("$swl").single() or fn.line,
                     detail={"path": ex.describe_path(key)})
        else:
            ctx.ok("R3.swap.pair", name, "every in-place swap of buf is undone with identical (count, size) on all "
                   "%d exit states" % nexits)


class FlagDom(SwapDom):
    """enqueue functions in write mode: is NC_REQ_BUF_BYTE_SWAP recorded iff buf itself is handed on with need_swap?"""
    SWAPBIT = 0x20

    def on_assign(self, key, lhs, rhs, val, st, elem):
        st = super().on_assign(key, lhs, rhs, val, st, elem)
        l = strip(lhs) if lhs is not None else None
        if isinstance(l, dict) and l.get("k") == "mem" and l.get("f") == "flag" and l.get("rec") == "NC_lead_req" \
                and elem is not None and elem.get("op") == "|=" and macro_of(elem.get("b")) == "NC_REQ_BUF_BYTE_SWAP":
            st = st.set("$flag", ONE)
        if key is not None and key[0] == "m" and key[2] in ("numLeadPutReqs",):
            st = st.set("$enq", ONE)
        return st

    def on_elem(self, elem, st, blk, idx):
        for x in walk(elem):
            if x.get("k") == "un" and "++" in x.get("op", ""):
                k = lvalue_key(x["e"])
                if k and k[0] == "m" and k[2] == "numLeadPutReqs":
                    st = st.set("$enq", ONE)
        if elem.get("k") == "ret":
            st = st.set("$retv", self.eval(elem.get("e"), st))
        return st


def check_flag(ctx, prog):
    for name in ("ncmpio_igetput_varm", "igetput_varn"):
        fn = ctx.need_fn(prog, name)
        dom = FlagDom(fn)
        init = State()
        for p in fn.params:
            if p["n"] == "reqMode":
                init = init.set(("v", p["id"], "reqMode"), AVal("bits", k1=REQ_WR, k0=REQ_RD | REQ_NBB))
        try:
            ex = Explorer(fn, dom, max_states=600000).run(init)
        except Budget as e:
            raise AnalysisBroken(str(e))
        ctx.states += ex.visited
        nsk = None
        for v in fn.locals:
            if v["n"] == "need_swap":
                nsk = ("v", v["id"], "need_swap")
        ctx.require(nsk, "%s: local need_swap not found" % name)
        miss = extra = None
        n = 0
        for st, key in ex.exits:
            if not st.has("$enq"):
                continue
            r = st.get("$retv", None)
            if isinstance(r, AVal) and not (r.may_be(0) or r.may_be(-60)):
                continue
            n += 1
            xb = st.has("$al:xbuf")
            ns = st.get(nsk)
            must_swap = xb and not ns.may_be_zero()
            cannot = (not xb) or not ns.may_be_nonzero()
            if must_swap and not st.has("$flag"):
                miss = (st, key)
            if cannot and st.has("$flag"):
                extra = (st, key)
        ctx.require(n > 0, "%s: no successful enqueue path found in write mode" % name)
        if miss:
            ctx.fail("R3.swap.flag", name, "missing", "a put request that uses the user buffer itself with a byte swap "
                     "pending is queued without NC_REQ_BUF_BYTE_SWAP: the buffer is never swapped back", fn=fn,
                     line=fn.line, detail={"path": ex.describe_path(miss[1])})
        elif extra:
            ctx.fail("R3.swap.flag", name, "spurious", "NC_REQ_BUF_BYTE_SWAP is recorded for a request whose user "
                     "buffer was not swapped: wait/cancel will corrupt it", fn=fn, line=fn.line,
                     detail={"path": ex.describe_path(extra[1])})
        else:
            ctx.ok("R3.swap.flag", name, "flag recorded exactly when xbuf == buf and need_swap (%d exit states)" % n)


def check_retire(ctx, prog):
    want = {"req_commit": 1, "ncmpio_cancel": 2}
    for name, nmin in want.items():
        fn = ctx.need_fn(prog, name)
        good = 0
        for b, i, c in patterns.call_sites(fn, lambda n: n == "ncmpii_in_swapn"):
            a = c["args"]
            a0, a1, a2 = strip(a[0]), strip(a[1]), strip(a[2])
            base = lvalue_key(a0.get("b")) if a0.get("k") == "mem" else None
            same = a0.get("k") == "mem" and a0.get("f") == "buf" and a1.get("k") == "mem" and a1.get("f") == "nelems" \
                and lvalue_key(a1.get("b")) == base and a2.get("k") == "mem" and a2.get("f") == "xsz" and \
                strip(a2.get("b")).get("k") == "mem" and strip(a2["b"]).get("f") == "varp" and \
                lvalue_key(strip(a2["b"]).get("b")) == base
            guarded = False
            for p in b.preds:
                pc = fn.blocks[p].cond
                if pc is not None and fn.blocks[p].succs[0] == b.id:
                    for x in walk(pc, into_pre=True):
                        if x.get("k") == "bin" and x.get("op") == "&" and macro_of(x["b"]) == "NC_REQ_BUF_BYTE_SWAP":
                            xa = strip(x["a"])
                            if xa.get("k") == "mem" and xa.get("f") == "flag" and lvalue_key(xa.get("b")) == base:
                                guarded = True
            inst = "%s:swap-back@%d" % (name, good + 1)
            if same and guarded:
                good += 1
                ctx.ok("R3.swap.retire", inst, "flag of the same request tested; (buf, nelems, varp->xsz) of that request")
            else:
                ctx.fail("R3.swap.retire", name, "swap-back", "swap-back `%s` is not (r->buf, r->nelems, r->varp->xsz) "
                         "of one request guarded by r->flag & NC_REQ_BUF_BYTE_SWAP" % show(c)[:70], fn=fn,
                         line=c.get("l", 0), inst=inst)
        if good < nmin:
            ctx.fail("R3.swap.retire", name, "count", "%s retires put requests at %d place(s) but swaps the user "
                     "buffer back at %d" % (name, nmin, good), fn=fn, line=fn.line)


def swap_decision(fn):
    """canonical description of how can_swap_in_place is decided in fn"""
    out = []
    doms = cfg.dominators(fn)
    for b, i, e in fn.elements():
        if e.get("k") == "decl":
            for v in e.get("vars", []):
                if v["n"] == "can_swap_in_place" and v.get("init") is not None:
                    out.append((const_value(v["init"]), ()))
            continue
        if e.get("k") == "asg" and strip(e["a"]).get("n") == "can_swap_in_place":
            conds = []
            for d in sorted(doms.get(b.id, ())):
                blk = fn.blocks[d]
                c = blk.cond
                if c is None or len(blk.succs) != 2 or d == b.id:
                    continue
                t, f = blk.succs
                reg_t = patterns.region(fn, t, {f}) if t is not None else set()
                reg_f = patterns.region(fn, f, {t}) if f is not None else set()
                if b.id in reg_t and b.id not in reg_f:
                    conds.append(canon(c))
                elif b.id in reg_f and b.id not in reg_t:
                    conds.append("!(" + canon(c) + ")")
            import re
            rel = []
            for x in conds:
                if any(w in x for w in ("need_swap", "NC_MODE_SWAP", "NC_BYTE_SWAP_BUFFER_SIZE")):
                    # the request size has a different local name in each function
                    rel.append(re.sub(r"[A-Za-z_][A-Za-z_0-9]* <= NC_BYTE_SWAP_BUFFER_SIZE", "SIZE <= NC_BYTE_SWAP_BUFFER_SIZE", x))
            out.append((const_value(e["b"]), tuple(sorted(rel))))
    return sorted(out, key=str)


def check_siblings(ctx, prog):
    fns = ["put_varm", "getput_vard", "ncmpio_igetput_varm", "igetput_varn"]
    descs = {}
    for n in fns:
        fn = ctx.need_fn(prog, n)
        d = swap_decision(fn)
        ctx.require(d, "%s: can_swap_in_place is not assigned" % n)
        # normalise the size variable name (nbytes in all four today)
        descs[n] = d
    ref = descs[fns[0]]
    for n in fns:
        if descs[n] == ref:
            ctx.ok("R10.swapcond", n, "decision tree: %s" % (ref,))
        else:
            ctx.fail("R10.swapcond", n, "can_swap_in_place", "%s decides in-place swapping with %s, put_varm with %s: "
                     "the threshold / hint is not honoured uniformly" % (n, descs[n], ref), fn=ctx.need_fn(prog, n),
                     line=ctx.need_fn(prog, n).line)


class CoalesceDom(ValueDomain):
    def tracked(self, key):
        return isinstance(key, str) or (key[0] == "m" and key[2] == "abuf")

    def on_assign(self, key, lhs, rhs, val, st, elem):
        l = strip(lhs) if lhs is not None else None
        # a store through ncp->abuf->... proves the attached buffer exists on this path
        for x in walk(lhs) if lhs is not None else ():
            if x.get("k") == "mem" and x.get("f") == "abuf" and x.get("rec") == "NC":
                k = lvalue_key(x)
                if k is not None:
                    st = st.set(k, NONZERO)
        if isinstance(l, dict) and l.get("k") == "mem" and l.get("f") == "is_used" and const_value(rhs) == 0:
            # read requests never own attached-buffer space: a release reached through a pointer into the
            # get queue is the (dead) mirror of the put arm
            from rules.c02 import ptr_into
            owner = None
            for x in walk(lhs):
                if x.get("k") == "mem" and x.get("f") == "abuf_index":
                    b = strip(x.get("b"))
                    if isinstance(b, dict) and b.get("k") == "ref":
                        owner = ptr_into(self.fn, b)
            if owner and owner <= {"get_lead_list"}:
                return st
            st = st.set("$freed", fin(elem.get("l", 0) if elem else 0))
        if isinstance(l, dict) and l.get("k") == "mem" and l.get("f") == "size_used" and const_value(rhs) == 0:
            st = st.set("$freed", None)      # full reset of the pool
        return st

    def on_call(self, call, st, blk, idx):
        if call.get("fn") == "abuf_coalesce":
            st = st.set("$freed", None)
        return st


def check_abuf_reset(ctx, prog):
    """the attached buffer's usage counter and its occupancy-table tail describe the same state: a block that resets one
    to 0 resets the other (stale entries below `tail` are subtracted again by the next coalesce)"""
    n = 0
    for fn in prog.all_functions():
        for bid, blk in fn.blocks.items():
            z = {}
            for e in blk.elems:
                if e.get("k") == "asg" and e.get("op") == "=" and const_value(e["b"]) == 0:
                    t = canon(e["a"])
                    if t.endswith("abuf->size_used") or t.endswith("abuf->tail"):
                        z[t.rsplit("->", 1)[1]] = e
            if not z:
                continue
            n += 1
            inst = "%s:reset@%s" % (fn.name, "+".join(sorted(z)))
            if len(z) == 2:
                ctx.ok("R4.abuf", inst, "size_used and tail reset together")
            else:
                only = list(z)[0]
                other = "tail" if only == "size_used" else "size_used"
                ctx.fail("R4.abuf", fn.name, "reset:%s" % only, "abuf->%s is reset to 0 without abuf->%s: the occupancy table and the "
                         "usage counter disagree afterwards (the next coalesce subtracts the stale entries again, usage goes "
                         "negative and NC_EINSUFFBUF is no longer raised)" % (only, other), fn=fn,
                         line=z[only].get("l", fn.line), inst=inst)
    ctx.require(n >= 2, "R4.abuf: expected >= 2 reset sites of the attached buffer, found %d" % n)


def check_abuf_usage(ctx, prog):
    """the usage reported for the attached buffer is the sum over the slots still in use: the reclaim loop must reach
    every released slot, not stop at the first one still occupied"""
    fn = ctx.need_fn(prog, "abuf_coalesce")
    found = False
    for lp in patterns.loops(fn):
        subtracts = [e for blk, i, e in lp.body_elems() if e.get("k") == "asg" and e.get("op") == "-=" and
                     canon(e["a"]).endswith("abuf->size_used") and "req_size" in canon(e["b"])]
        if not subtracts:
            continue
        found = True
        # an exit from the loop taken because a slot is still in use
        early = None
        for b in lp.body_ext:
            blk = fn.blocks[b]
            if blk.cond is not None and "is_used" in canon(blk.cond):
                for s_ in blk.succs:
                    if s_ is not None and s_ not in lp.body and s_ != lp.head.id:
                        early = blk
                    elif s_ is not None and s_ in lp.body_ext and s_ not in lp.body:
                        early = blk
        if early is not None:
            ctx.fail("R4.abuf", fn.name, "tail-run", "the reclaim loop stops at the first slot that is still in use: slots released "
                     "below it keep counting, so after out-of-order completion ncmpi_inq_buffer_usage reports more than the "
                     "bytes of the pending buffered puts (and NC_EINSUFFBUF is raised although space was released)", fn=fn,
                     line=early.tl or fn.line, inst="abuf_coalesce:usage")
        else:
            ctx.ok("R4.abuf", "abuf_coalesce:usage", "every released slot is subtracted")
    ctx.require(found, "abuf_coalesce: the loop that lowers size_used was not found")


def check_abuf(ctx, prog):
    check_abuf_reset(ctx, prog)
    check_abuf_usage(ctx, prog)
    # EINSUFFBUF test dominates the allocation
    for name in ("ncmpio_igetput_varm", "igetput_varn"):
        fn = ctx.need_fn(prog, name)
        sites = patterns.call_sites(fn, lambda n: n == "ncmpio_abuf_malloc")
        ctx.require(len(sites) == 1, "%s: expected one ncmpio_abuf_malloc call" % name)
        b, i, c = sites[0]
        nb = canon(c["args"][1])
        ok = False
        narrow = None

        def through_local(e):
            """text of e; a local with a single definition stands for that definition - unless it is narrower than
            64 bits, which truncates the free space (returned as (text, narrowing-note))"""
            se = strip(e)
            if isinstance(se, dict) and se.get("k") == "ref" and se.get("dk") == "local":
                defs = []
                for b2, i2, e2 in fn.elements():
                    if e2.get("k") == "decl":
                        defs += [v["init"] for v in e2.get("vars", []) if v.get("id") == se.get("id") and v.get("init") is not None]
                    for y in walk(e2):
                        if y.get("k") == "asg" and strip(y["a"]).get("k") == "ref" and strip(y["a"]).get("id") == se.get("id"):
                            defs.append(y["b"] if y.get("op") == "=" else None)
                if len(defs) == 1 and defs[0] is not None:
                    bits = fn.type(se.get("t")).get("bits", 0)
                    return canon(defs[0]), ("`%s` is a %d-bit variable" % (se["n"], bits) if bits < 64 else None)
            return canon(e), None

        for d in cfg.dominators(fn).get(b.id, ()):
            cond = fn.blocks[d].cond
            if cond is None or cond.get("k") != "bin" or cond.get("op") not in ("<", ">") or fn.blocks[d].succs[1] is None:
                continue
            if not (fn.blocks[d].succs[1] == b.id or fn.blocks[d].succs[1] in cfg.dominators(fn).get(b.id, ())):
                continue
            tb = fn.blocks[fn.blocks[d].succs[0]]
            if not any(macro_of(e.get("b")) == "NC_EINSUFFBUF" for e in tb.elems if e.get("k") == "asg"):
                continue
            small, big = (cond["a"], cond["b"]) if cond["op"] == "<" else (cond["b"], cond["a"])
            (ts, n1), (tb_, n2) = through_local(small), through_local(big)
            # free < nbytes   or   allocated < used + nbytes
            if canon(big) == nb:
                tb_, n2 = nb, None
            form1 = "size_allocated" in ts and "size_used" in ts and " - " in ts and tb_ == nb
            form2 = "size_allocated" in ts and "size_used" not in ts and "size_used" in tb_ and nb in tb_ and " + " in tb_
            if form1 or form2:
                if n1 or n2:
                    narrow = n1 or n2
                else:
                    ok = True
        if ok:
            ctx.ok("R4.abuf", name + ":EINSUFFBUF", "size_allocated - size_used < %s rejects before the allocation" % nb)
        elif narrow:
            ctx.fail("R4.abuf", name, "EINSUFFBUF", "the free space of the attached buffer is compared through a narrower variable (%s): with "
                     "2 GiB or more free the difference wraps and a bput that fits is refused with NC_EINSUFFBUF" % narrow,
                     fn=fn, line=c.get("l", 0))
        else:
            ctx.fail("R4.abuf", name, "EINSUFFBUF", "ncmpio_abuf_malloc(%s) is not dominated by the test "
                     "`size_allocated - size_used < %s` -> NC_EINSUFFBUF" % (nb, nb), fn=fn, line=c.get("l", 0))
        # failed pack releases the slot
        dsites = patterns.call_sites(fn, lambda n: n == "ncmpio_abuf_dealloc")
        if dsites:
            ctx.ok("R4.abuf", name + ":dealloc", "failed pack path calls ncmpio_abuf_dealloc", nontrivial=False)
        else:
            ctx.fail("R4.abuf", name, "dealloc", "no ncmpio_abuf_dealloc on the failed-pack path: the slot stays "
                     "accounted as used", fn=fn, line=fn.line)
    # coalesce typestate
    for name in ("req_commit", "ncmpio_cancel"):
        fn = ctx.need_fn(prog, name)
        ex = Explorer(fn, CoalesceDom(fn), max_states=600000).run(State())
        ctx.states += ex.visited
        bad = None
        for st, key in ex.exits:
            if st.has("$freed"):
                bad = (st, key)
                break
        if bad:
            st, key = bad
            ctx.fail("R4.abuf", name, "coalesce", "an occupy-table entry is released (line %s) on a path that returns "
                     "without abuf_coalesce: the space stays counted in size_used and the next bput is refused"
                     % st.get("$freed").single(), fn=fn, line=st.get("$freed").single() or fn.line,
                     detail={"path": ex.describe_path(key)})
        else:
            ctx.ok("R4.abuf", name + ":coalesce", "every path that clears is_used reaches abuf_coalesce (or the full reset)")
    # writers of size_used
    allowed = {"ncmpio_abuf_malloc", "ncmpio_abuf_dealloc", "abuf_coalesce", "ncmpio_cancel", "ncmpio_buffer_attach"}
    for fn in prog.all_functions():
        for b, i, e in fn.elements():
            for x in walk(e):
                if x.get("k") == "asg":
                    l = strip(x["a"])
                    if l.get("k") == "mem" and l.get("f") == "size_used" and l.get("rec") == "NC_buf":
                        inst = "%s:size_used%s" % (fn.name, x.get("op"))
                        if fn.name in allowed:
                            ctx.ok("R4.abuf", inst, "listed writer", nontrivial=False)
                        else:
                            ctx.fail("R4.abuf", fn.name, "size_used", "%s() writes NC_buf.size_used outside the "
                                     "allocator" % fn.name, fn=fn, line=x.get("l", 0), inst=inst)


GAPPED = ["MPI_COMBINER_VECTOR", "MPI_COMBINER_HVECTOR", "MPI_COMBINER_INDEXED", "MPI_COMBINER_HINDEXED",
          "MPI_COMBINER_INDEXED_BLOCK", "MPI_COMBINER_STRUCT", "MPI_COMBINER_SUBARRAY", "MPI_COMBINER_DARRAY", "MPI_COMBINER_RESIZED"]


def check_combiners(ctx):
    """ncmpii_dtype_decode: every MPI type constructor that can leave gaps between the elements clears
    *iscontig_of_ptypes on its case (otherwise put/get skip MPI_Pack/MPI_Unpack and touch the gaps of the caller's buffer)"""
    from facts import canon
    import patterns as _p
    prog = ctx.program(names=["dtype_decode.c"])
    fn = ctx.need_fn(prog, "ncmpii_dtype_decode")
    vals = ctx.fe.constants(GAPPED)
    byval = {v: k for k, v in vals.items() if v is not None}
    ctx.require(len(byval) == len(GAPPED), "values of the MPI combiner constants could not be evaluated (%s)" % vals)
    cleared = {}
    for bid, blk in fn.blocks.items():
        if blk.term != "switch":
            continue
        # blocks of each case until its break: reachable from the case label without passing another case label / the join
        labels = {}
        for s_ in blk.succs:
            if s_ is None:
                continue
            lab = fn.blocks[s_].label or {}
            name = byval.get(lab.get("lo")) if lab.get("k") == "case" else None
            if name:
                labels.setdefault(s_, []).append(name)
        # fall-through chains: consecutive labels share the first block with statements
        for s_, names in labels.items():
            reg = _p.arm_region(fn, blk, s_) | {s_}
            clr = False
            for r in reg:
                for e in fn.blocks[r].elems:
                    for x in walk(e):
                        if x.get("k") == "asg" and canon(x["a"]) == "*iscontig_of_ptypes" and const_value(x["b"]) == 0:
                            clr = True
            for nm in names:
                cleared[nm] = cleared.get(nm, False) or clr
    seen = [c for c in GAPPED if c in cleared]
    ctx.require(len(seen) >= 7, "ncmpii_dtype_decode: only %d of the gapped combiners have a case (%s)" % (len(seen), seen))
    for c in GAPPED:
        if c not in cleared:
            continue
        inst = "combiner:%s" % c
        if cleared[c]:
            ctx.ok("R10.combiner", inst, "clears *iscontig_of_ptypes")
        else:
            ctx.fail("R10.combiner", fn.name, c, "a buffer type built with %s can leave gaps between its elements, but its case does "
                     "not clear *iscontig_of_ptypes: the type is treated as a contiguous run, MPI_Pack/MPI_Unpack are skipped and "
                     "the gaps of the caller's buffer are read / overwritten" % c, fn=fn, line=fn.line, inst=inst)


def run(ctx):
    ctx.rule("R10.combiner", "every gapped MPI type constructor is decoded as non-contiguous")
    ctx.rule("R3.swap.pair", "blocking puts undo every in-place swap of buf with identical extent on all exits")
    ctx.rule("R3.swap.flag", "nonblocking puts record NC_REQ_BUF_BYTE_SWAP iff xbuf == buf and need_swap")
    ctx.rule("R3.swap.retire", "req_commit / ncmpio_cancel swap back (buf, nelems, varp->xsz) of the flagged request")
    ctx.rule("R10.swapcond", "can_swap_in_place is decided by the same tree in the four put paths")
    ctx.rule("R4.abuf", "attached-buffer accounting: EINSUFFBUF dominance, dealloc on failed pack, coalesce typestate, "
             "size_used writers")
    ctx.assume("MPI calls and allocations succeed; that a read touches exactly the selected bytes is not decided")
    prog = ctx.program(names=["ncmpio_getput.c", "ncmpio_vard.c", "ncmpio_i_getput.c", "ncmpio_i_varn.c",
                              "ncmpio_wait.c", "ncmpio_bput.c", "ncmpio_util.c"])
    check_pair(ctx, prog)
    check_flag(ctx, prog)
    check_retire(ctx, prog)
    check_siblings(ctx, prog)
    check_abuf(ctx, prog)
    check_combiners(ctx)
    from rules import r10sentinel
    ctx.rule("R10.sentinel", "index fields that use -1 for \"none\" (the attached-buffer slot of a request among them) are compared "
             "with constants only in ways that tell -1 from the valid index 0")
    r10sentinel.check(ctx, ctx.program(groups=["lib"]), "R10.sentinel", 4)
