"""R10.sentinel — an index field that uses -1 for "none" is tested in a way that tells -1 from every valid index.

A structure field is an *index with sentinel* when somewhere in the library it is assigned the constant -1 and somewhere
it (or a value stored into it) subscripts an array.  Valid indexes start at 0, so every comparison of such a field with a
constant has to give different answers for -1 and for 0 (`>= 0`, `> -1`, `!= -1`, `< 0`, `== -1` do; `> 0`, `>= 1`, `!= 0`
put slot 0 on the sentinel's side: the first slot of the table is treated as "none")."""
from facts import walk, strip, canon, const_value
from frontend import AnalysisBroken

OPS = {"<": lambda a, b: a < b, "<=": lambda a, b: a <= b, ">": lambda a, b: a > b, ">=": lambda a, b: a >= b,
       "==": lambda a, b: a == b, "!=": lambda a, b: a != b}


def check(ctx, prog, rule, min_sites):
    sentinel = set()        # (record, field) assigned -1
    indexish = set()        # (record, field) used as a subscript, or assigned from / to something that is
    for fn in prog.all_functions():
        for b, i, e in fn.elements():
            for x in walk(e, into_pre=False):
                if not isinstance(x, dict):
                    continue
                if x.get("k") == "asg" and x.get("op") == "=":
                    l = strip(x["a"])
                    if isinstance(l, dict) and l.get("k") == "mem" and l.get("rec") and const_value(x["b"]) == -1:
                        sentinel.add((l["rec"], l["f"]))
                if x.get("k") == "idx":
                    s = strip(x["i"])
                    if isinstance(s, dict) and s.get("k") == "mem" and s.get("rec"):
                        indexish.add((s["rec"], s["f"]))
                    if isinstance(s, dict) and s.get("k") == "ref":
                        # a local that subscripts an array: fields it is copied from / to are indexes as well
                        nm = s["n"]
                        for b2, i2, e2 in fn.elements():
                            a2 = strip(e2)
                            if isinstance(a2, dict) and a2.get("k") == "asg" and a2.get("op") == "=":
                                l2, r2 = strip(a2["a"]), strip(a2["b"])
                                if isinstance(l2, dict) and l2.get("k") == "mem" and l2.get("rec") and canon(r2) == nm:
                                    indexish.add((l2["rec"], l2["f"]))
                                if isinstance(r2, dict) and r2.get("k") == "mem" and r2.get("rec") and canon(l2) == nm:
                                    indexish.add((r2["rec"], r2["f"]))
    fields = sentinel & indexish
    n = 0
    for fn in prog.all_functions():
        seen = set()
        for bid, blk in fn.blocks.items():
            for e in list(blk.elems) + ([blk.cond] if blk.cond is not None else []):
                for x in walk(e, into_pre=True):
                    if not (isinstance(x, dict) and x.get("k") == "bin" and x.get("op") in OPS):
                        continue
                    for fa, fb, flip in ((x["a"], x["b"], False), (x["b"], x["a"], True)):
                        m = strip(fa)
                        c = const_value(fb)
                        if not (isinstance(m, dict) and m.get("k") == "mem" and (m.get("rec"), m.get("f")) in fields and c is not None):
                            continue
                        key = (canon(x), x.get("l"))
                        if key in seen:
                            continue
                        seen.add(key)
                        n += 1
                        op = OPS[x["op"]]
                        f = (lambda v: op(c, v)) if flip else (lambda v: op(v, c))
                        inst = "%s:%s@%s" % (fn.name, canon(x), x.get("l", blk.tl))
                        ctx.functions_analysed.add((fn.unit.name, fn.name))
                        if f(-1) != f(0):
                            ctx.ok(rule, inst, "tells the sentinel -1 from index 0")
                        else:
                            ctx.fail(rule, fn.name, canon(x), "`%s`: %s.%s is an index that uses -1 for \"none\" (assigned -1 and used as a "
                                     "subscript elsewhere); this test answers the same for -1 and for the valid index 0, so the first "
                                     "slot is treated like \"none\"" % (canon(x), m.get("rec"), m.get("f")), fn=fn,
                                     line=x.get("l", blk.tl or fn.line), inst=inst)
    if n < min_sites:
        raise AnalysisBroken("%s: only %d comparisons of sentinel index fields found (fields: %s)" % (rule, n, sorted(fields)))
    return n
