"""C09 — numeric conversion and range checking (rule families R8, R10).

R8.prim  every generated conversion primitive ncmpix_{put,get}_NC_<X>_<I> (and the
         inlined element step of the NC_BYTE/NC_UBYTE loops) is decided for ALL
         values of its source type: the primitive touches the value only through
         comparisons with compile-time constants (evaluated by clang) and one cast,
         so its behaviour is constant on the finitely many cells cut out by the
         comparison flip points.  The flip points are located exactly (bisection on
         the monotone pieces of the source domain under C conversion semantics) and
         each cell is compared with an independent model of "representable".
R8.loop  the N-element loops call the matching primitive, have no exit other than
         the count, and keep the first error.
R10.chain the itype dispatch in ncmpii_putn_NC_<X>/getn_NC_<X> calls the primitive
         whose name matches the tested MPI type and external type.
"""
import math
import re
import struct

from facts import walk, strip, strip_pre, const_value, show, macro_of, lvalue_key
from frontend import AnalysisBroken

NC_NOERR, NC_ERANGE = 0, -60

XTYPES = {   # external type -> (kind, bits)
    "BYTE": ("int", 8), "UBYTE": ("uint", 8), "SHORT": ("int", 16), "USHORT": ("uint", 16),
    "INT": ("int", 32), "UINT": ("uint", 32), "INT64": ("int", 64), "UINT64": ("uint", 64),
    "FLOAT": ("float", 32), "DOUBLE": ("float", 64),
}
ITYPES = {
    "schar": ("int", 8), "uchar": ("uint", 8), "short": ("int", 16), "ushort": ("uint", 16),
    "int": ("int", 32), "uint": ("uint", 32), "long": ("int", 64), "float": ("float", 32),
    "double": ("float", 64), "longlong": ("int", 64), "ulonglong": ("uint", 64),
}
FILL_OF_ITYPE = {
    "schar": ("NC_FILL_BYTE",), "uchar": ("NC_FILL_UBYTE",), "short": ("NC_FILL_SHORT",),
    "ushort": ("NC_FILL_USHORT",), "int": ("NC_FILL_INT",), "uint": ("NC_FILL_UINT",),
    "long": ("NC_FILL_INT", "NC_FILL_INT64"),   # no netCDF type is 'long'; either is accepted
    "float": ("NC_FILL_FLOAT",), "double": ("NC_FILL_DOUBLE",),
    "longlong": ("NC_FILL_INT64",), "ulonglong": ("NC_FILL_UINT64",),
}
FLT_MAX = struct.unpack(">f", bytes.fromhex("7f7fffff"))[0]


class Unsupported(Exception):
    pass


# ---------------------------------------------------------------------------
# C conversion semantics on (kind, bits) types
# ---------------------------------------------------------------------------

def tkind(t):
    k = t.get("k")
    if k == "enum":
        return ("uint", t.get("bits", 32))
    if k in ("int", "uint", "float"):
        return (k, t.get("bits", 0))
    return (k, t.get("bits", 0))


def int_range(ty):
    k, b = ty
    if k == "int":
        return -(1 << (b - 1)), (1 << (b - 1)) - 1
    return 0, (1 << b) - 1


def round_int_to_float(v, mant):
    """exact round-to-nearest-even of a Python int to a binary float with `mant`
    significant bits (24 or 53); result returned as Python float (exactly
    representable in a double for mant <= 53)."""
    if v == 0:
        return 0.0
    s = -1 if v < 0 else 1
    a = abs(v)
    n = a.bit_length()
    if n <= mant:
        return float(s * a)
    sh = n - mant
    q, r = a >> sh, a & ((1 << sh) - 1)
    half = 1 << (sh - 1)
    if r > half or (r == half and (q & 1)):
        q += 1
    return float(s * (q << sh))


def to_f32(x):
    if isinstance(x, float) and (math.isnan(x) or math.isinf(x)):
        return x
    try:
        return struct.unpack("f", struct.pack("f", x))[0]
    except OverflowError:
        return math.inf if x > 0 else -math.inf


class UB(Exception):
    pass


def conv(v, fr, to):
    """value v of type fr converted to type `to` (C semantics).  Raises UB for a
    float->int conversion whose truncated value is out of range."""
    fk, tk = fr[0], to[0]
    if tk in ("int", "uint"):
        if fk == "float":
            if math.isnan(v) or math.isinf(v):
                raise UB("float->int of NaN/Inf")
            t = int(v)  # truncation toward zero
            lo, hi = int_range(to)
            if t < lo or t > hi:
                raise UB("float->int out of range")
            return t
        lo, hi = int_range(to)
        if lo <= v <= hi:
            return v
        m = 1 << to[1]
        w = v % m
        if tk == "int" and w > hi:
            w -= m
        return w
    if tk == "float":
        if fk == "float":
            if to[1] == 32 and fr[1] == 64:
                return to_f32(v)
            return v
        return round_int_to_float(v, 24 if to[1] == 32 else 53)
    raise Unsupported("conversion to %s" % (to,))


# ordinal maps for bisection over floating-point domains
def f_ord(x, bits):
    if bits == 32:
        u = struct.unpack(">I", struct.pack(">f", x))[0]
        return u - 0 if u < 0x80000000 else -(u - 0x80000000)
    u = struct.unpack(">Q", struct.pack(">d", x))[0]
    return u if u < (1 << 63) else -(u - (1 << 63))


def f_unord(o, bits):
    if bits == 32:
        u = o if o >= 0 else (-o) + 0x80000000
        return struct.unpack(">f", struct.pack(">I", u))[0]
    u = o if o >= 0 else (-o) + (1 << 63)
    return struct.unpack(">d", struct.pack(">Q", u))[0]


# ---------------------------------------------------------------------------
# interpreter of one primitive / loop body for a concrete input value
# ---------------------------------------------------------------------------

INPUT = object()


class Prim:
    """one conversion step: a single-element primitive function, or the body of
    an NC_BYTE/NC_UBYTE loop."""

    def __init__(self, fn, direction, X, I, start_block, stop_blocks, in_ptr, out_ptr):
        self.fn = fn
        self.dir = direction
        self.X, self.I = X, I
        self.start = start_block
        self.stop = stop_blocks
        self.in_ptr = in_ptr      # name of the pointer whose deref is the input (or None: via get_ix)
        self.out_ptr = out_ptr    # name of the pointer whose deref is the output (or None: via put_ix)
        self.src = XTYPES[X] if direction == "get" else ITYPES[I]
        self.dst = ITYPES[I] if direction == "get" else XTYPES[X]

    # --- expression evaluation ----------------------------------------------------
    def ty(self, n):
        return tkind(self.fn.type(n.get("t")))

    def is_deref_of(self, n, name):
        n = strip_pre(n)
        if not isinstance(n, dict) or n.get("k") != "un" or n.get("op") != "*":
            return False
        e = strip_pre(n["e"])
        while isinstance(e, dict) and e.get("k") in ("un", "cast") and (e.get("k") == "cast" or e.get("op") in ("post++", "pre++")):
            e = strip_pre(e["e"])
        return isinstance(e, dict) and e.get("k") == "ref" and e.get("n") == name

    def ev(self, n, env):
        n = strip_pre(n)
        if not isinstance(n, dict):
            raise Unsupported("empty expression")
        k = n.get("k")
        t = self.ty(n) if "t" in n else None
        if "cv" in n and k != "ref":
            return n["cv"], t
        if "fv" in n and k != "ref":
            v = float(n["fv"])
            if t and t[1] == 32:
                v = to_f32(v)
            return v, t
        if k == "ref":
            nm = n["n"]
            if nm in env:
                v = env[nm]
                if v is INPUT:
                    return env["$in"], self.src
                if isinstance(v, tuple) and v and v[0] == "val":
                    return v[1], v[2]
                raise Unsupported("use of non-numeric variable %s" % nm)
            if "cv" in n:
                return n["cv"], t
            raise Unsupported("use of variable %s" % nm)
        if k == "un":
            if n["op"] == "*":
                if self.in_ptr and self.is_deref_of(n, self.in_ptr):
                    return env["$in"], self.src
                raise Unsupported("dereference %s" % show(n))
            if n["op"] == "-":
                v, vt = self.ev(n["e"], env)
                return conv(-v, vt, t) if vt[0] != "float" else -v, t
            if n["op"] == "!":
                v, vt = self.ev(n["e"], env)
                return (0 if v else 1), ("int", 32)
            raise Unsupported("unary %s" % n["op"])
        if k == "cast":
            ck = n.get("ck")
            v, vt = self.ev(n["e"], env)
            if ck in ("IntegralCast", "IntegralToFloating", "FloatingToIntegral", "FloatingCast"):
                return conv(v, vt, t), t
            if ck in ("NoOp", "LValueToRValue"):
                return v, vt
            raise Unsupported("cast kind %s" % ck)
        if k == "bin":
            op = n["op"]
            if op in ("<", ">", "<=", ">=", "==", "!="):
                a, b = strip(n["a"]), strip(n["b"])
                for x, y in ((a, b), (b, a)):
                    if isinstance(x, dict) and x.get("k") == "ref" and x.get("n") == "fillp":
                        if const_value(y) == 0:
                            nn = env["$fillp"]
                            return (1 if (nn if op == "!=" else not nn) else 0), ("int", 32)
                va, ta = self.ev(n["a"], env)
                vb, tb = self.ev(n["b"], env)
                if ta != tb:
                    raise Unsupported("comparison of different types %s %s" % (ta, tb))
                if isinstance(va, float) and math.isnan(va) or isinstance(vb, float) and math.isnan(vb):
                    r = (op == "!=")
                else:
                    r = {"<": va < vb, ">": va > vb, "<=": va <= vb, ">=": va >= vb,
                         "==": va == vb, "!=": va != vb}[op]
                return (1 if r else 0), ("int", 32)
            if op == "&" and self.src[0] in ("int", "uint") and self.src[1] <= 8:
                va, ta = self.ev(n["a"], env)
                vb, tb = self.ev(n["b"], env)
                return conv(va & vb, ("int", 64), t), t
            raise Unsupported("operator %s on the converted value" % op)
        raise Unsupported("expression kind %s" % k)

    def mentions_input(self, n):
        for x in walk(n, into_pre=True):
            if x.get("k") == "un" and x.get("op") == "*" and self.in_ptr and self.is_deref_of(x, self.in_ptr):
                return True
            if x.get("k") == "ref" and x.get("n") == "xx" and self.dir == "get" and self.in_ptr is None:
                return True
        return False

    # --- statements ---------------------------------------------------------------
    def run(self, v, fillp_nonnull):
        """(err, out) for input value v; out is ('val', x) | ('fillp', nbytes) |
        ('const', value, macro) | ('ub', why) | None."""
        fn = self.fn
        env = {"$in": v, "$fillp": fillp_nonnull}
        if self.dir == "get" and self.in_ptr is None:
            pass
        res = {"err": NC_NOERR, "out": None, "ret": None}
        errvars = ("err", "status")
        b = self.start
        steps = 0
        first = True
        while True:
            steps += 1
            if steps > 200:
                raise Unsupported("no progress (loop) in %s" % fn.name)
            if not first and b in self.stop:
                break
            first = False
            if b == fn.exit:
                break
            blk = fn.blocks[b]
            for e in blk.elems:
                self.exec(e, env, res, errvars)
            if res["ret"] is not None:
                break
            c = blk.cond
            if c is not None and len(blk.succs) == 2:
                cv, _ = self.ev(c, env)
                b = blk.succs[0] if cv else blk.succs[1]
            elif len(blk.succs) >= 1:
                b = blk.succs[0]
            else:
                break
            if b is None:
                raise Unsupported("pruned edge taken")
        err = res["ret"] if res["ret"] is not None else res["err"]
        if res["out"] is not None and res["out"][0] == "fillp":
            return err, ("fillp", res["out"][1], res.get("fill_in"))
        return err, res["out"]

    def exec(self, e, env, res, errvars):
        k = e.get("k")
        if k == "decl":
            for var in e.get("vars", []):
                nm = var["n"]
                if var.get("init") is not None:
                    init = var["init"]
                    if nm in errvars:
                        res["err"] = self.ev(init, env)[0]
                        env[nm] = ("val", res["err"], ("int", 32))
                    elif nm == "xx":
                        val, vt = self.ev(init, env)
                        env[nm] = ("val", val, vt)
                        res["out"] = ("const", val, macro_of(strip_pre(init)))
                    elif nm == "lstatus":
                        raise Unsupported("nested primitive call")
                    else:
                        try:
                            val, vt = self.ev(init, env)
                            env[nm] = ("val", val, vt)
                        except (Unsupported, TypeError):
                            env[nm] = ("sym",)
                else:
                    env[nm] = ("uninit",)
            return
        if k == "asg":
            lhs = strip(e["a"])
            if e["op"] != "=":
                if lhs.get("k") == "ref" and lhs.get("n") in ("xp", "tp"):
                    return
                raise Unsupported("compound assignment %s" % show(e))
            if lhs.get("k") == "ref":
                nm = lhs["n"]
                if nm in errvars:
                    res["err"] = self.ev(e["b"], env)[0]
                    env[nm] = ("val", res["err"], ("int", 32))
                    return
                if nm == "xx" and self.dir == "put":
                    res["out"] = self.store(e["b"], env, self.fn.type(lhs.get("t")))
                    if res["out"][0] == "val":
                        env[nm] = ("val", res["out"][1], tkind(self.fn.type(lhs.get("t"))))
                    return
                if nm == "cp":
                    return   # byte cursor of the hand-written big-endian writer
                raise Unsupported("assignment to %s" % nm)
            if self.out_ptr and self.is_deref_of(lhs, self.out_ptr):
                res["out"] = self.store(e["b"], env, self.fn.type(lhs.get("t")))
                return
            if self.is_deref_of(lhs, "cp") and self.dir == "put":
                # hand-written big-endian byte writer
                o = self.store(e["b"], env, self.fn.type(lhs.get("t")))
                if o[0] not in ("val", "const"):
                    raise Unsupported("byte store %s" % show(e))
                res.setdefault("bytes", []).append(o[1] & 0xFF)
                nb = self.dst[1] // 8
                if len(res["bytes"]) == nb:
                    u = int.from_bytes(bytes(res["bytes"]), "big", signed=(self.dst[0] == "int"))
                    res["out"] = ("val", u)
                return
            raise Unsupported("store %s" % show(e))
        if k == "call":
            f = e.get("fn")
            a = e.get("args", [])
            if f and f.startswith("get_ix_"):
                d = strip(a[1])
                if isinstance(d, dict) and d.get("k") == "ref" and d.get("n") == self.out_ptr:
                    if self.src != self.dst:
                        raise Unsupported("direct get_ix into a differently typed destination")
                    res["out"] = ("val", env["$in"])
                    return
                env["xx"] = INPUT
                return
            if f and f.startswith("put_ix_"):
                d = strip(a[1])
                if isinstance(d, dict) and d.get("k") == "ref" and d.get("n") == self.in_ptr:
                    if self.src != self.dst:
                        raise Unsupported("direct put_ix from a differently typed source")
                    res["out"] = ("val", env["$in"])
                elif isinstance(d, dict) and d.get("k") == "un" and d.get("op") == "&" and strip(d["e"]).get("n") == "xx" \
                        and res.get("fill_in") == "xx":
                    res["fill_in"] = "external"
                return
            if f == "memcpy":
                d, s = strip(a[0]), strip(a[1])
                n = const_value(a[2])
                s_is_fillp = isinstance(s, dict) and s.get("k") == "ref" and s.get("n") == "fillp"
                d_ok = (d.get("k") == "un" and d.get("op") == "&" and strip(d["e"]).get("n") == "xx") or \
                       (d.get("k") == "ref" and d.get("n") == self.out_ptr) or \
                       (d.get("k") == "ref" and d.get("n") == "xp" and self.dir == "put")
                if s_is_fillp and d_ok:
                    # the user's fill value is in memory (native) byte order: copied into the staging word `xx` it still has to
                    # go through put_ix_*; copied straight into the external buffer it has to be byte-swapped in place
                    res["out"] = ("fillp", n)
                    res["fill_in"] = "xx" if d.get("k") == "un" else "xp"
                    return
            if f in ("swapn2b", "swapn4b", "swapn8b") and len(a) == 3 and const_value(a[2]) == 1 \
                    and all(strip(x).get("n") == "xp" for x in a[:2]):
                # in-place byte swap of the copied fill value to external order
                if res.get("fill_in") == "xp" and res["out"] and res["out"][0] == "fillp" and str(res["out"][1]) == f[5]:
                    res["fill_in"] = "external"
                return
            raise Unsupported("call %s" % show(e)[:60])
        if k == "ret":
            v, _ = self.ev(e["e"], env)
            res["ret"] = v
            return
        if k in ("bin", "un", "ref", "int", "cast", "pre"):
            return   # conditions / pointer bumps / pre-evaluated values
        raise Unsupported("statement kind %s" % k)

    def store(self, rhs, env, lty):
        m = macro_of(strip_pre(rhs))
        r = strip_pre(rhs)
        if not self.mentions_input(r):
            v, vt = self.ev(r, env)
            return ("const", v, m)
        try:
            v, vt = self.ev(r, env)
        except UB as u:
            return ("ub", str(u))
        return ("val", conv(v, vt, tkind(lty)) if vt != tkind(lty) else v)

    # --- comparison atoms and their flip points ----------------------------------------
    def atoms(self):
        out = []
        seen = set()
        fn = self.fn
        st = [self.start]
        visited = set()
        while st:
            b = st.pop()
            if b in visited or b == fn.exit:
                continue
            visited.add(b)
            blk = fn.blocks[b]
            for e in blk.elems:
                for x in walk(e, into_pre=True):
                    if x.get("k") == "bin" and x.get("op") in ("<", ">", "<=", ">=", "==", "!=") \
                            and id(x) not in seen and self.mentions_input(x):
                        seen.add(id(x))
                        out.append(x)
            for s in blk.succs:
                if s is not None and s not in self.stop:
                    st.append(s)
        return out

    def atom_truth(self, atom, v, variant=None):
        env = {"$in": v, "$fillp": False, "xx": INPUT}
        if variant is None:
            return self.ev(atom, env)[0]
        a2 = dict(atom)
        a2["op"] = variant
        return self.ev(a2, env)[0]


def model(v, src, dst):
    """independent type-range model: (representable?, expected stored value)."""
    if dst[0] in ("int", "uint"):
        if isinstance(v, float):
            if math.isnan(v) or math.isinf(v):
                return False, None
        lo, hi = int_range(dst)
        if v < lo or v > hi:
            return False, None
        return True, int(v)
    if dst[1] == 64:
        if isinstance(v, float):
            return True, v
        return True, round_int_to_float(v, 53)
    # float32 destination
    if isinstance(v, float):
        if math.isnan(v) or math.isinf(v):
            return True, v
        if abs(v) > FLT_MAX:
            return False, None
        return True, to_f32(v)
    return True, round_int_to_float(v, 24)


def witnesses(p):
    """finite witness set containing both sides of every flip point of every
    comparison atom and of the model's own bounds, plus one interior point of
    every cell."""
    src, dst = p.src, p.dst
    atoms = p.atoms()
    preds = []
    for a in atoms:
        if a["op"] in ("==", "!="):
            preds.append(lambda v, a=a: p.atom_truth(a, v, ">="))
            preds.append(lambda v, a=a: p.atom_truth(a, v, "<="))
        else:
            preds.append(lambda v, a=a: p.atom_truth(a, v))
    # model bounds as predicates
    if dst[0] in ("int", "uint"):
        lo, hi = int_range(dst)
        preds.append(lambda v: 1 if v >= lo else 0)
        preds.append(lambda v: 1 if v <= hi else 0)
    elif dst[1] == 32:
        preds.append(lambda v: 1 if v >= -FLT_MAX else 0)
        preds.append(lambda v: 1 if v <= FLT_MAX else 0)
    W = set()
    nflips = 0
    if src[0] in ("int", "uint") and src[1] <= 8:
        lo, hi = int_range(src)
        return list(range(lo, hi + 1)), len(atoms), 0
    if src[0] in ("int", "uint"):
        lo, hi = int_range(src)
        pieces = [(lo, -1), (0, hi)] if lo < 0 else [(0, hi)]
        for (a, b) in pieces:
            for x in (a, a + 1, b - 1, b):
                if a <= x <= b:
                    W.add(x)
            for pr in preds:
                l, h = a, b
                pl, ph = pr(l), pr(h)
                if pl == ph:
                    continue
                while h - l > 1:
                    m = (l + h) // 2
                    if pr(m) == pl:
                        l = m
                    else:
                        h = m
                nflips += 1
                for x in (l - 1, l, h, h + 1):
                    if a <= x <= b:
                        W.add(x)
        W.update(x for x in (-1, 0, 1) if lo <= x <= hi)
        ws = sorted(W)
        for x, y in zip(ws, ws[1:]):
            if y - x > 1:
                W.add((x + y) // 2)
        return sorted(W), len(atoms), nflips
    bits = src[1]
    big = f_unord(f_ord(math.inf, bits) - 1, bits)     # largest finite
    tiny = f_unord(1, bits)                              # smallest subnormal
    pieces = [(f_ord(-big, bits), f_ord(-tiny, bits)), (f_ord(tiny, bits), f_ord(big, bits))]
    O = set()
    for (a, b) in pieces:
        a, b = min(a, b), max(a, b)
        for o in (a, a + 1, b - 1, b):
            O.add(o)
        for pr in preds:
            l, h = a, b
            pl, ph = pr(f_unord(l, bits)), pr(f_unord(h, bits))
            if pl == ph:
                continue
            while h - l > 1:
                m = (l + h) // 2
                if pr(f_unord(m, bits)) == pl:
                    l = m
                else:
                    h = m
            nflips += 1
            for o in (l - 1, l, h, h + 1):
                if a <= o <= b:
                    O.add(o)
    os_ = sorted(O)
    for x, y in zip(os_, os_[1:]):
        if y - x > 1:
            O.add((x + y) // 2)
    vals = [f_unord(o, bits) for o in sorted(O)]
    vals += [0.0, -0.0, math.inf, -math.inf, math.nan, 1.0, -1.0, 0.5, -0.5, 127.5, -128.5]
    return vals, len(atoms), nflips


def cell_class(v, src, dst):
    """stable name of the cell a witness lies in (used as the finding site)."""
    if isinstance(v, float):
        if math.isnan(v):
            return "NaN"
        if math.isinf(v):
            return "+Inf" if v > 0 else "-Inf"
    if dst[0] in ("int", "uint"):
        lo, hi = int_range(dst)
        if v > hi:
            return "above-max" if v >= hi + 1 else "fraction-above-max"
        if v < lo:
            return "below-min" if v <= lo - 1 else "fraction-below-min"
        return "in-range"
    if dst == ("float", 32) and not isinstance(v, int):
        if abs(v) > FLT_MAX:
            return "above-FLT_MAX" if v > 0 else "below-FLT_MAX"
    return "in-range"


def check_prim(ctx, p, name):
    try:
        W, natoms, nflips = witnesses(p)
    except Unsupported as u:
        raise AnalysisBroken("%s: construct outside the conversion-primitive form: %s" % (name, u))
    bad = {}
    ncell = 0
    little_endian = "WORDS_BIGENDIAN" not in p.fn.unit.macros
    for v in W:
        rep, exp = model(v, p.src, p.dst)
        for fillp in ((False, True) if p.dir == "put" else (False,)):
            ncell += 1
            try:
                err, out = p.run(v, fillp)
            except Unsupported as u:
                raise AnalysisBroken("%s: construct outside the conversion-primitive form: %s" % (name, u))
            why = None
            if rep:
                if err != NC_NOERR:
                    why = "representable value rejected with %s" % err
                elif out is not None and out[0] == "const" and out[1] == exp and not isinstance(exp, float):
                    pass   # explicit clamp branch storing exactly the converted value
                elif out is None or out[0] != "val":
                    why = "representable value not stored through the conversion (%s)" % (out,)
                else:
                    got = out[1]
                    same = (got == exp) or (isinstance(got, float) and isinstance(exp, float)
                                             and math.isnan(got) and math.isnan(exp))
                    if not same:
                        why = "stored value %r differs from the C conversion %r" % (got, exp)
            else:
                if err != NC_ERANGE:
                    why = "value not representable in the destination returns %s instead of NC_ERANGE" % err
                    if out is not None and out[0] == "ub":
                        why += " and executes an undefined float->integer cast"
                    elif out is not None and out[0] == "const":
                        why += " (stores the clamp constant %s)" % (out[2] or out[1])
                elif out is not None and out[0] in ("val", "ub"):
                    why = "NC_ERANGE path still stores the cast value (no fill substitution)"
                elif out is None and (p.dir == "get" or fillp):
                    why = "NC_ERANGE path stores nothing in place of the value"
                elif out is None:
                    pass   # put without a fill pointer (attribute path): slot untouched, whole put is rejected
                elif p.dir == "put":
                    if fillp and out[0] != "fillp":
                        why = "NC_ERANGE with a user fill value does not store it"
                    elif fillp and out[1] != p.dst[1] // 8:
                        why = "fill value copied with %s bytes, external type has %d" % (out[1], p.dst[1] // 8)
                    elif fillp and out[1] > 1 and little_endian and out[2] != "external":
                        why = ("the user's fill value is copied %s in memory byte order and never converted to the external "
                               "(big-endian) order: the element is stored as the byte-reversed fill value" %
                               ("into the external buffer" if out[2] == "xp" else "into the staging word"))
                    elif not fillp and (out[0] != "const" or out[2] != "NC_FILL_" + p.X):
                        why = "NC_ERANGE without user fill stores %s, expected NC_FILL_%s" % (out[2] or out[0], p.X)
                else:
                    if out[0] != "const" or out[2] not in FILL_OF_ITYPE[p.I]:
                        why = "NC_ERANGE on read stores %s, expected %s" % (out[2] or out[0], "/".join(FILL_OF_ITYPE[p.I]))
            if why:
                cls = cell_class(v, p.src, p.dst)
                bad.setdefault((cls, why.split(" (")[0] if "clamp" in why else why), []).append(v)
    ctx.functions_analysed.add((p.fn.unit.name, name))
    if not bad:
        ctx.ok("R8.prim", name, "%d cells (%d comparison atoms, %d flip points) agree with the type-range model"
               % (ncell, natoms, nflips), nontrivial=natoms > 0)
    else:
        grouped = {}
        for (cls, why), vs in bad.items():
            grouped.setdefault(cls, []).append((why, vs))
        for cls, lst in sorted(grouped.items()):
            why, vs = lst[0]
            allv = set(repr(x) for _, v2 in lst for x in v2)
            if cls not in ("NaN", "+Inf", "-Inf"):
                # a single failing point is named; a failing range is a different finding
                cls = "%s[=%s]" % (cls, next(iter(allv))) if len(allv) == 1 else "%s[range]" % cls
            ctx.fail("R8.prim", name, cls, why, fn=p.fn, line=p.fn.line, inst=name,
                     detail={"cell": cls, "witness_values": [repr(x) for x in vs[:6]],
                             "source_type": p.src, "destination_type": p.dst,
                             "all": [w for w, _ in lst]})
    return ncell


PRIM_RE = re.compile(r"^ncmpix_(put|get)_NC_([A-Z0-9]+)_([a-z]+)$")
LOOP_RE = re.compile(r"^ncmpix_(pad_)?(put|get)n_NC_([A-Z0-9]+)_([a-z]+)$")


def loop_head(fn):
    for bid, b in fn.blocks.items():
        if b.term in ("while", "for") and b.cond is not None:
            return b
    return None


def run(ctx):
    ctx.rule("R8.prim", "each ncmpix_{put,get}_NC_<X>_<I> step decided on every cell of its source domain "
             "(comparison flip points found by bisection under C conversion semantics) against an independent "
             "type-range model: representable => NC_NOERR + C conversion; else NC_ERANGE + fill, no cast")
    ctx.rule("R8.loop", "N-element loops: body calls the primitive matching the loop's name, the only loop exit "
             "is the element count, the first non-NC_NOERR status is kept")
    ctx.rule("R10.chain", "ncmpii_{put,get}n_NC_<X> type dispatch is total and calls the name-matched primitive")
    ctx.assume("analysed build: LP64, little endian, ERANGE_FILL enabled (flags read from the Makefiles)")
    ctx.assume("'representable' is fixed by the checker: integer destination = real value in [Tmin,Tmax] and not "
               "NaN; float destination = NaN, +-Inf or |x| <= FLT_MAX; double destination = always")
    prog = ctx.program(names=["ncx.c", "convert_swap.c"])
    ux = prog.unit("ncx.c")
    ctx.require(ux is not None, "ncx.c not generated")
    cells = 0
    nprim = 0
    for name, fn in sorted(ux.functions.items()):
        m = PRIM_RE.match(name)
        if m:
            d, X, I = m.groups()
            if X not in XTYPES or I not in ITYPES:
                continue
            ipname = "ip"
            p = Prim(fn, d, X, I, fn.entry, set(), ipname if d == "put" else None, "ip" if d == "get" else None)
            cells += check_prim(ctx, p, name)
            nprim += 1
            continue
        m = LOOP_RE.match(name)
        if not m:
            continue
        pad, d, X, I = m.groups()
        if X not in XTYPES or I not in ITYPES:
            continue
        head = loop_head(fn)
        ctx.functions_analysed.add((fn.unit.name, name))
        if head is None:
            # same-type fast paths (memcpy / swap) have no per-element conversion
            ctx.instance("R8.loop", name)
            continue
        calls = [c for b, i, e in fn.elements() for c in walk(e) if c.get("k") == "call"]
        prim_calls = [c for c in calls if PRIM_RE.match(c.get("fn") or "")]
        if prim_calls:
            want = "ncmpix_%s_NC_%s_%s" % (d, X, I)
            names = {c["fn"] for c in prim_calls}
            if names != {want}:
                ctx.fail("R8.loop", name, "callee", "loop calls %s, expected %s" % (sorted(names), want), fn=fn,
                         line=fn.line)
            else:
                ok = check_loop_shape(ctx, fn, head, name)
                if ok:
                    ctx.ok("R8.loop", name, "calls %s; single exit on the count; first error kept" % want)
        else:
            # inlined element step (NC_BYTE / NC_UBYTE): analyse the loop body as a primitive
            body = head.succs[0]
            in_ptr = "tp" if d == "put" else "xp"
            out_ptr = "xp" if d == "put" else "tp"
            has_cmp_or_cast = any(x.get("k") == "cast" and x.get("ck") in
                                  ("IntegralCast", "IntegralToFloating", "FloatingToIntegral", "FloatingCast")
                                  for b, i, e in fn.elements() for x in walk(e))
            if not has_cmp_or_cast and XTYPES[X] == ITYPES[I]:
                ctx.instance("R8.loop", name)
                continue
            p = Prim(fn, d, X, I, body, {head.id}, in_ptr, out_ptr)
            cells += check_prim(ctx, p, name)
            nprim += 1
            check_loop_shape(ctx, fn, head, name, inline=True)
    ctx.min_instances("R8.prim", 200)
    ctx.min_instances("R8.loop", 150)
    ctx.note("conversion steps decided: %d, cells evaluated: %d" % (nprim, cells))
    check_chains(ctx, prog)
    check_switches(ctx)
    # "all other elements of the same call are still transferred": NC_ERANGE must not change what the callers do next
    from rules import r10erange
    ctx.rule("R10.erange", "after a pack / post that reports NC_ERANGE every caller goes on exactly as after NC_NOERR "
             "(the sets of possible next calls / exits are equal)")
    lprog = ctx.program(groups=["lib"])
    er = None
    for u in lprog.units.values():
        if "NC_ERANGE" in u.macros:
            try:
                er = int(u.macros["NC_ERANGE"].strip("() "), 0)
            except ValueError:
                continue
            break
    ctx.require(er is not None and er < 0, "NC_ERANGE not found")
    r10erange.check(ctx, lprog, "R10.erange", er, min_sites=200)
    from rules import r10echar
    ctx.rule("R10.echar", "flexible APIs: after a user buffer type is decoded, its element type reaches the conversion layer (or a queued "
             "request) only behind the text/numeric test (NC_ECHAR); the converters assert that it was made")
    r10echar.check(ctx, lprog, "R10.echar", 5)


def check_loop_shape(ctx, fn, head, name, inline=False):
    """the loop's only exit edge is the head's false edge; status keeps the first error."""
    import cfg
    body = set()
    st = [head.succs[0]]
    while st:
        b = st.pop()
        if b in body or b == head.id or b is None:
            continue
        body.add(b)
        st.extend(s for s in fn.blocks[b].succs if s is not None)
    ok = True
    for b in body:
        for s in fn.blocks[b].succs:
            if s is not None and s not in body and s != head.id:
                ctx.fail("R8.loop", name, "early-exit", "an edge leaves the element loop before all elements are "
                         "converted (block at line %s)" % fn.blocks[b].tl, fn=fn, line=fn.blocks[b].tl or fn.line)
                ok = False
    if not inline:
        # status = lstatus must be guarded by status == NC_NOERR
        found = False
        for b in body:
            blk = fn.blocks[b]
            for e in blk.elems:
                if e.get("k") == "asg" and strip(e["a"]).get("n") == "status":
                    found = True
                    guard_ok = False
                    for pb in blk.preds:
                        c = fn.blocks[pb].cond
                        if c is not None and c.get("k") == "bin" and c.get("op") == "==" and \
                                strip(c["a"]).get("n") == "status" and const_value(c["b"]) == 0 and \
                                fn.blocks[pb].succs[0] == b:
                            guard_ok = True
                    if not guard_ok:
                        ctx.fail("R8.loop", name, "first-error", "status is overwritten without the "
                                 "`status == NC_NOERR` guard: a later element hides an earlier NC_ERANGE", fn=fn,
                                 line=e.get("l", fn.line))
                        ok = False
        if not found:
            ctx.fail("R8.loop", name, "first-error", "the element status is never stored into the loop status",
                     fn=fn, line=fn.line)
            ok = False
    return ok


MPI2I = {"MPI_CHAR": "text", "MPI_SIGNED_CHAR": "schar", "MPI_UNSIGNED_CHAR": "uchar", "MPI_SHORT": "short",
         "MPI_UNSIGNED_SHORT": "ushort", "MPI_INT": "int", "MPI_UNSIGNED": "uint", "MPI_LONG": "long",
         "MPI_FLOAT": "float", "MPI_DOUBLE": "double", "MPI_LONG_LONG_INT": "longlong",
         "MPI_UNSIGNED_LONG_LONG": "ulonglong", "MPI_LONG_LONG": "longlong"}


def check_chains(ctx, prog):
    """ncmpii_putn_NC_<X> / ncmpii_getn_NC_<X>: each `itype == MPI_T` arm calls
    ncmpix_{put,get}n_NC_<X>_<T>."""
    uc = prog.unit("convert_swap.c")
    ctx.require(uc is not None, "convert_swap.c not generated")
    n = 0
    for name, fn in sorted(uc.functions.items()):
        m = re.match(r"^ncmpii_(put|get)n_NC_([A-Z0-9]+)$", name)
        if not m:
            continue
        d, X = m.groups()
        ctx.functions_analysed.add((fn.unit.name, name))
        arms = {}
        arm_blocks = {}
        # walk blocks: condition `itype == MPI_X` true-successor contains the call
        for bid, blk in fn.blocks.items():
            c = blk.cond
            if c is None or c.get("k") != "bin" or c.get("op") != "==":
                continue
            a, b = strip(c["a"]), strip(c["b"])
            if not (isinstance(a, dict) and a.get("k") == "ref" and a.get("n") == "itype"):
                continue
            mt = mpi_type_name(c["b"])
            tb = fn.blocks[blk.succs[0]] if blk.succs[0] is not None else None
            called = [cc.get("fn") for e in (tb.elems if tb else []) for cc in walk(e) if cc.get("k") == "call"]
            arms[mt] = called
            arm_blocks[mt] = tb
        want_types = [t for t in ITYPES]
        for mt, called in sorted(arms.items(), key=lambda kv: str(kv[0])):
            it = MPI2I.get(mt)
            inst = "%s:%s" % (name, mt)
            if it is None or it == "text":
                ctx.fail("R10.chain", name, str(mt), "unknown MPI type arm", fn=fn, line=fn.line, inst=inst)
                continue
            want = "ncmpix_%sn_NC_%s_%s" % (d, X, it)
            if X == "BYTE" and it == "uchar":
                # NC_BYTE <-> unsigned char exemption: no range check exactly when format < 5
                tb = arm_blocks[mt]
                c2 = tb.cond if tb is not None else None
                good = False
                if c2 is not None and c2.get("k") == "bin" and c2.get("op") == "<" and \
                        strip(c2["a"]).get("n") == "cdf_ver" and const_value(c2["b"]) == 5 and len(tb.succs) == 2:
                    def cl(bid):
                        return [cc.get("fn") for e in fn.blocks[bid].elems for cc in walk(e) if cc.get("k") == "call"]
                    if cl(tb.succs[0]) == ["ncmpix_%sn_NC_UBYTE_uchar" % d] and cl(tb.succs[1]) == [want]:
                        good = True
                if good:
                    ctx.ok("R10.chain", inst, "uchar exemption taken exactly when cdf_ver < 5")
                    n += 1
                else:
                    ctx.fail("R10.chain", name, mt, "NC_BYTE/unsigned-char exemption is not `cdf_ver < 5 ? "
                             "UBYTE_uchar : BYTE_uchar`", fn=fn, line=fn.line, inst=inst)
                continue
            if called != [want]:
                ctx.fail("R10.chain", name, mt, "arm for %s calls %s, expected %s" % (mt, called, want), fn=fn,
                         line=fn.line, inst=inst)
            else:
                ctx.ok("R10.chain", inst, "calls " + want, nontrivial=False)
                n += 1
        have = {MPI2I.get(mt) for mt in arms}
        missing = [t for t in want_types if t not in have]
        if missing:
            ctx.fail("R10.chain", name, "totality", "no arm for internal type(s) %s" % ",".join(missing), fn=fn,
                     line=fn.line)
    ctx.min_instances("R10.chain", 150)


def mpi_type_name(n):
    """MPI_INT etc. from OpenMPI's ((MPI_Datatype)&ompi_mpi_int) expansion."""
    for x in walk(n, into_pre=True):
        for mm in x.get("m", ()):
            if mm.startswith("MPI_") and mm != "MPI_Datatype":
                return mm
    return None


NUMERIC = ["NC_BYTE", "NC_UBYTE", "NC_SHORT", "NC_USHORT", "NC_INT", "NC_UINT", "NC_FLOAT", "NC_DOUBLE",
           "NC_INT64", "NC_UINT64"]


def check_switches(ctx):
    """R10.switch: every switch over an external nc_type in the library is total
    over the 10 numeric types, each arm only calls converters named after its own
    label, and a switch never mixes put and get converters.  R10.fillp: the fill
    pointer handed to the put converters in ncmpio_pack_xbuf is the variable's own
    fill value (ncmpio_inq_var_fill), on every path."""
    import patterns
    import cfg
    ctx.rule("R10.switch", "every switch over an external type with NC_<X>-named converter calls: total over "
             "the 10 numeric types (or error default), arm label == converter's type token, one direction per switch")
    ctx.rule("R10.fillp", "ncmpio_pack_xbuf: each ncmpii_putn_NC_* call is dominated by ncmpio_inq_var_fill(varp, p) "
             "with p the fill pointer it passes")
    prog = ctx.program(names=["ncmpio_util.c", "ncmpio_attr.c", "ncmpio_fill.c", "utils.c"])
    for fn in prog.all_functions():
        for blk, cond, arms, default in patterns.switches(fn):
            labs = [a for a in arms if isinstance(a, str) and patterns.NC_TOKEN.fullmatch(a.replace("NC_", "NC_", 1))]
            labs = [a for a in arms if isinstance(a, str) and a in NUMERIC + ["NC_CHAR"]]
            if len(labs) < 5:
                continue
            inst = "%s:switch(%s)" % (fn.name, show(cond)[:30])
            ctx.functions_analysed.add((fn.unit.name, fn.name))
            missing = [t for t in NUMERIC if t not in arms]
            bad = False
            if missing:
                ctx.fail("R10.switch", fn.name, "totality", "switch over %s has no case for %s" %
                         (show(cond)[:30], ",".join(missing)), fn=fn, line=blk.tl or fn.line, inst=inst)
                bad = True
            dirs = set()
            with_conv = 0
            for lab in labs:
                reg = patterns.arm_region(fn, blk, arms[lab])
                # stop at the next case label: fall-through arms are not used for converters
                names = [c.get("fn") for c in patterns.calls_in_blocks(fn, reg) if c.get("fn")]
                conv_names = [n for n in names if patterns.nc_tokens(n) and ("putn" in n or "getn" in n)]
                if conv_names:
                    with_conv += 1
                for n in conv_names:
                    toks = set("NC_" + t for t in patterns.nc_tokens(n))
                    if toks != {lab}:
                        ctx.fail("R10.switch", fn.name, lab, "case %s calls %s (converter of another external type)"
                                 % (lab, n), fn=fn, line=blk.tl or fn.line, inst=inst)
                        bad = True
                    dirs.add("put" if "putn" in n else "get")
            if len(dirs) > 1:
                ctx.fail("R10.switch", fn.name, "direction", "switch mixes put and get converters", fn=fn,
                         line=blk.tl or fn.line, inst=inst)
                bad = True
            if with_conv and with_conv < len([l for l in labs if l != "NC_CHAR"]):
                ctx.fail("R10.switch", fn.name, "arms", "only %d of %d numeric arms call a converter" %
                         (with_conv, len(labs)), fn=fn, line=blk.tl or fn.line, inst=inst)
                bad = True
            if not bad:
                ctx.ok("R10.switch", inst, "%d arms, labels match converters" % len(labs), nontrivial=with_conv > 0)
    ctx.min_instances("R10.switch", 28)
    # R10.fillp
    fn = ctx.need_fn(prog, "ncmpio_pack_xbuf")
    sites = patterns.call_sites(fn, lambda n: n.startswith("ncmpii_putn_NC_"))
    ctx.require(len(sites) >= 10, "ncmpio_pack_xbuf: expected >= 10 ncmpii_putn_NC_* calls, found %d" % len(sites))
    for b, i, c in sites:
        fp = patterns.arg_var_name(c["args"][-1])
        dom = None
        for b2, i2, c2 in patterns.call_sites(fn, lambda n: n == "ncmpio_inq_var_fill"):
            if cfg.pos_dominates(fn, (b2.id, i2), (b.id, i)) and patterns.arg_var_name(c2["args"][1]) == fp \
                    and patterns.arg_var_name(c2["args"][0]) == "varp":
                dom = c2
        inst = "ncmpio_pack_xbuf:%s" % c["fn"]
        if dom is None or fp is None:
            ctx.fail("R10.fillp", fn.name, c["fn"], "fill pointer `%s` passed to %s is not set by a dominating "
                     "ncmpio_inq_var_fill(varp, %s): an out-of-range element would not be replaced by the "
                     "variable's fill value" % (fp, c["fn"], fp), fn=fn, line=c.get("l", 0), inst=inst)
        else:
            ctx.ok("R10.fillp", inst, "dominated by ncmpio_inq_var_fill(varp, %s) at line %s" % (fp, dom.get("l")))
