"""C07 — metadata operations behave like a sequential model: paired-update clauses.

 R4.sametable  every lookup-table call passes the bucket array and the bucket count of the SAME object.
 R4.pair       a function that changes an object array (dims / vars / attrs: element added, removed, renamed)
               updates the matching name lookup table on every successful path, and vice versa.
 R5.shiftlen   bucket compaction in ncmpio_hash_delete shifts over [i, num-1) of the CURRENT length: the
               length is decremented only after the shift.
 R4.mirror     the dispatcher's copies (ndims, nvars, nrec_vars, unlimdimid, vars[]) change only after the
               driver call returned NC_NOERR.
 R4.norm       user-supplied names reach lookups / inserts only after ncmpii_utf8_normalize.
 R4.whichfile  ncmpio_copy_att tests the mode of, and rewrites the header of, the file it modifies.
 R4.persist    data-mode metadata writers pass through ncmpio_write_header on every successful path that
               changed something.
"""
from absint import ValueDomain, Explorer, State, TOP, ZERO, ONE, NONZERO, AVal, fin, Budget
from callgraph import slot_of_call
from facts import walk, strip, strip_pre, const_value, show, canon, lvalue_key, macro_of
from frontend import AnalysisBroken
import cfg
import patterns

TABLE_FUNCS = {"ncmpio_hash_insert", "ncmpio_hash_delete", "ncmpio_hash_replace", "ncmpio_update_name_lookup_table",
               "ncmpio_hash_table_free", "ncmpio_hash_table_copy"}
POPULATE = {"ncmpio_hash_table_populate_NC_dim", "ncmpio_hash_table_populate_NC_var"}
KIND_OF_REC = {"NC_dimarray": "dim", "NC_vararray": "var", "NC_attrarray": "attr", "NC_dim": "dim", "NC_var": "var",
               "NC_attr": "attr"}


def base_text(n):
    """text of the object owning a `X.nameT` / `X->hash_size` expression"""
    n = strip(n)
    if isinstance(n, dict) and n.get("k") == "un" and n.get("op") == "&":
        return canon(n["e"])
    if isinstance(n, dict) and n.get("k") == "mem":
        return canon(n["b"])
    return None


def check_sametable(ctx, prog):
    n = 0
    for fn in prog.all_functions():
        for b, i, c in patterns.call_sites(fn, lambda nm: nm in TABLE_FUNCS or nm in POPULATE):
            a = c["args"]
            f = c["fn"]
            n += 1
            if f == "ncmpio_hash_table_copy":
                t0, t1 = base_text(a[0]), base_text(a[2])
                f0 = strip(a[0]).get("f")
                f1 = strip(a[2]).get("f")
            else:
                t0, t1 = base_text(a[0]), base_text(a[1])
                f0 = strip(a[0]).get("f") if strip(a[0]).get("k") == "mem" else "&"
                f1 = strip(a[1]).get("f")
            inst = "%s:%s(%s)" % (fn.name, f, canon(a[0])[:30])
            # per-variable attribute tables take their size from ncp->hash_size_attr
            ok = t0 is not None and t0 == t1 and f1 in ("hash_size",)
            if ok:
                ctx.ok("R4.sametable", inst, "bucket array and count both from `%s`" % t0, nontrivial=False)
            else:
                ctx.fail("R4.sametable", fn.name, f, "`%s` is called with the buckets of `%s` but the bucket count `%s`: "
                         "names are stored under one table size and looked up under another" % (f, canon(a[0]), canon(
                             a[2] if f == "ncmpio_hash_table_copy" else a[1])), fn=fn, line=c.get("l", 0), inst=inst)
    ctx.min_instances("R4.sametable", 15)


class PairDom(ValueDomain):
    def tracked(self, key):
        if isinstance(key, str):
            return True
        if key[0] == "v":
            v = self.fn.vars.get(key[1])
            return v is not None and self.fn.type(v["t"]).get("k") in ("int", "uint")
        return False

    def call_value(self, call, st):
        f = call.get("fn") or ""
        if f.startswith("MPI_"):
            return ZERO
        if f.startswith(("NCI_Malloc", "NCI_Calloc", "NCI_Realloc")):
            return NONZERO
        return TOP

    def on_call(self, call, st, blk, idx):
        f = call.get("fn") or ""
        a = call.get("args", [])
        if f in TABLE_FUNCS and a:
            rec = strip(a[0]).get("rec")
            kind = KIND_OF_REC.get(rec)
            if kind:
                st = st.set("$tab:" + kind, ONE)
        m = {"incr_NC_dimarray": "dim", "incr_NC_vararray": "var", "incr_NC_attrarray": "attr"}.get(f)
        if m:
            st = st.set("$mut:" + m, ONE)
        return st

    def on_assign(self, key, lhs, rhs, val, st, elem):
        l = strip(lhs) if lhs is not None else None
        if isinstance(l, dict) and l.get("k") == "mem" and l.get("f") == "name" and l.get("rec") in ("NC_dim", "NC_var", "NC_attr"):
            # renaming an element that is already in an array (not the constructor filling a fresh object)
            b = strip(l.get("b"))
            st = st.set("$mut:" + KIND_OF_REC[l["rec"]], ONE)
        if isinstance(l, dict) and l.get("k") == "mem" and l.get("f") == "ndefined" and l.get("rec") in KIND_OF_REC:
            st = st.set("$mut:" + KIND_OF_REC[l["rec"]], ONE)
        return st

    def on_elem(self, elem, st, blk, idx):
        for x in walk(elem):
            if x.get("k") == "un" and ("--" in x.get("op", "") or "++" in x.get("op", "")):
                l = strip(x["e"])
                if isinstance(l, dict) and l.get("k") == "mem" and l.get("f") == "ndefined" and l.get("rec") in KIND_OF_REC:
                    st = st.set("$mut:" + KIND_OF_REC[l["rec"]], ONE)
        if elem.get("k") == "ret":
            st = st.set("$ret", self.eval(elem.get("e"), st) if elem.get("e") is not None else None)
        return st


MUTATORS = ["ncmpio_def_dim", "ncmpio_rename_dim", "ncmpio_def_var", "ncmpio_rename_var", "ncmpio_rename_att",
            "ncmpio_del_att", "ncmpio_put_att", "ncmpio_copy_att"]


def check_pair(ctx, prog):
    for name in MUTATORS:
        fn = ctx.need_fn(prog, name)
        try:
            ex = Explorer(fn, PairDom(fn), max_states=400000).run(State())
        except Budget as e:
            raise AnalysisBroken(str(e))
        ctx.states += ex.visited
        bad = None
        both = 0
        for st, key in ex.exits:
            r = st.get("$ret")
            if isinstance(r, AVal) and not r.may_be_zero():
                continue
            for kind in ("dim", "var", "attr"):
                m, t = st.has("$mut:" + kind), st.has("$tab:" + kind)
                if m and t:
                    both += 1
                if m != t:
                    bad = bad or (kind, m, t, key)
        if bad:
            kind, m, t, key = bad
            ctx.fail("R4.pair", name, kind, "a successful path %s the %s array but %s its name lookup table: lookup by "
                     "name and lookup by id disagree afterwards" % ("changes" if m else "does not change", kind,
                                                                   "does not update" if m else "updates"),
                     fn=fn, line=fn.line, detail={"path": ex.describe_path(key)})
        elif both == 0:
            ctx.fail("R4.pair", name, "none", "%s() no longer changes an object array together with its lookup table"
                     % name, fn=fn, line=fn.line)
        else:
            ctx.ok("R4.pair", name, "array change and lookup-table update paired on all successful paths")


def check_shiftlen(ctx, prog):
    fn = ctx.need_fn(prog, "ncmpio_hash_delete")
    shift = None
    for lp in patterns.loops(fn):
        for blk, i, e in lp.body_elems(ext=False):
            if e.get("k") == "asg":
                l, r = strip(e["a"]), strip(e["b"])
                if l.get("k") == "idx" and r.get("k") == "idx" and canon(l["b"]) == canon(r["b"]) and \
                        "list" in canon(l["b"]) and "+ 1" in canon(r["i"]):
                    shift = lp
    ctx.require(shift is not None, "ncmpio_hash_delete: bucket compaction loop not found")
    bt = canon(shift.bound)
    ok_bound = bt.endswith(".num - 1") or bt.endswith("->num - 1")
    # every decrement of that bucket's length must come after the loop
    early = None
    for b, i, e in fn.elements():
        for x in walk(e):
            if x.get("k") == "un" and "--" in x.get("op", "") and canon(x["e"]).endswith("num"):
                if b.id in cfg.dominators(fn).get(shift.head.id, ()) and b.id != shift.head.id:
                    early = x
            if x.get("k") == "asg" and canon(x["a"]).endswith("num") and x.get("op") in ("-=", "="):
                if b.id in cfg.dominators(fn).get(shift.head.id, ()):
                    early = x
    if ok_bound and early is None:
        ctx.ok("R5.shiftlen", "ncmpio_hash_delete", "shift over [i, num-1), length decremented after the loop")
    elif not ok_bound:
        ctx.fail("R5.shiftlen", fn.name, "bound", "compaction loop bounded by `%s`, expected the bucket's `num - 1`" % bt,
                 fn=fn, line=shift.head.tl or fn.line)
    else:
        ctx.fail("R5.shiftlen", fn.name, "order", "the bucket length is decremented (line %s) before the compaction loop "
                 "that still uses `num - 1`: the last id of the bucket drops out of the table" % early.get("l"), fn=fn,
                 line=early.get("l", fn.line))


class MirrorDom(ValueDomain):
    FIELDS = ("ndims", "nvars", "nrec_vars", "unlimdimid", "vars")

    def __init__(self, fn):
        super().__init__(fn)
        self.bad = []

    def tracked(self, key):
        if isinstance(key, str):
            return True
        if key[0] == "v":
            v = self.fn.vars.get(key[1])
            return v is not None and self.fn.type(v["t"]).get("k") in ("int", "uint")
        return False

    def on_assign(self, key, lhs, rhs, val, st, elem):
        r = strip_pre(rhs) if rhs is not None else None
        if isinstance(r, dict) and r.get("k") == "call" and slot_of_call(r):
            st = st.set("$drv", key)
        l = strip(lhs) if lhs is not None else None
        if isinstance(l, dict):
            root = l
            while isinstance(root, dict) and root.get("k") in ("mem", "idx"):
                if root.get("k") == "mem" and root.get("rec") == "PNC" and root.get("f") in self.FIELDS:
                    dv = st.get("$drv", None)
                    if not (dv is not None and st.has(dv) and st.get(dv).must_be(0)):
                        self.bad.append((elem, root.get("f")))
                    break
                root = strip(root.get("b"))
        return st

    def on_elem(self, elem, st, blk, idx):
        for x in walk(elem):
            if x.get("k") == "un" and ("++" in x.get("op", "") or "--" in x.get("op", "")):
                l = strip(x["e"])
                if isinstance(l, dict) and l.get("k") == "mem" and l.get("rec") == "PNC" and l.get("f") in self.FIELDS:
                    dv = st.get("$drv", None)
                    if not (dv is not None and st.has(dv) and st.get(dv).must_be(0)):
                        self.bad.append((elem, l.get("f")))
        return st


def check_mirror(ctx, prog):
    for name in ("ncmpi_def_dim", "ncmpi_def_var"):
        fn = ctx.need_fn(prog, name)
        dom = MirrorDom(fn)
        ex = Explorer(fn, dom, max_states=400000).run(State())
        ctx.states += ex.visited
        if dom.bad:
            elem, f = dom.bad[0]
            ctx.fail("R4.mirror", name, f, "pncp->%s is changed on a path where the driver call has not been tested "
                     "equal to NC_NOERR" % f, fn=fn, line=elem.get("l", fn.line))
        else:
            ctx.ok("R4.mirror", name, "dispatcher copies updated only after the driver succeeded")


LOOKUP_SINKS = TABLE_FUNCS | {"ncmpio_NC_findattr", "NC_finddim", "NC_findvar", "ncmpio_new_NC_dim", "ncmpio_new_NC_var",
                              "ncmpio_new_NC_attr", "ncmpio_NC_finddim", "ncmpio_NC_findvar"}
NAMED_ENTRIES = ["ncmpio_def_dim", "ncmpio_inq_dimid", "ncmpio_rename_dim", "ncmpio_def_var", "ncmpio_inq_varid",
                 "ncmpio_rename_var", "ncmpio_inq_attid", "ncmpio_inq_att", "ncmpio_rename_att", "ncmpio_copy_att",
                 "ncmpio_del_att", "ncmpio_get_att", "ncmpio_put_att"]


def check_norm(ctx, prog):
    for name in NAMED_ENTRIES:
        fn = ctx.need_fn(prog, name)
        pnames = {p["n"] for p in fn.params if p["n"] in ("name", "newname")}
        if not pnames:
            continue
        norm = {canon(c["args"][0]) for b, i, c in patterns.call_sites(fn, lambda n: n == "ncmpii_utf8_normalize")}
        raw = None
        for b, i, e in fn.elements():
            for c in walk(e):
                if c.get("k") == "call" and c.get("fn") in LOOKUP_SINKS:
                    for a in c.get("args", []):
                        sa = strip(a)
                        if isinstance(sa, dict) and sa.get("k") == "ref" and sa.get("dk") == "param" and sa.get("n") in pnames:
                            raw = (c, sa["n"])
        miss = [p for p in pnames if p not in norm]
        if raw:
            c, p = raw
            ctx.fail("R4.norm", name, p, "the user-supplied `%s` is passed to %s without UTF-8 normalisation: the same "
                     "name typed in another normal form is a different object" % (p, c["fn"]), fn=fn, line=c.get("l", 0))
        elif miss:
            ctx.fail("R4.norm", name, miss[0], "parameter `%s` is never normalised (ncmpii_utf8_normalize)" % miss[0],
                     fn=fn, line=fn.line)
        else:
            ctx.ok("R4.norm", name, "names normalised before lookup/insert: %s" % sorted(pnames), nontrivial=False)


def check_whichfile(ctx, prog):
    fn = ctx.need_fn(prog, "ncmpio_copy_att")
    bad = []
    ntest = nwrite = 0
    for bid, blk in fn.blocks.items():
        c = blk.cond
        if c is None:
            continue
        for x in walk(c, into_pre=True):
            if x.get("k") == "bin" and x.get("op") == "&" and macro_of(x["b"]) == "NC_MODE_DEF":
                ntest += 1
                base = canon(strip(x["a"]).get("b")) if strip(x["a"]).get("k") == "mem" else "?"
                if base != "ncp_out":
                    bad.append(("define-mode test on `%s`" % base, blk.tl))
    for b, i, c in patterns.call_sites(fn, lambda n: n == "ncmpio_write_header"):
        nwrite += 1
        if canon(c["args"][0]) != "ncp_out":
            bad.append(("header of `%s` rewritten" % canon(c["args"][0]), c.get("l")))
    ctx.require(ntest >= 2 and nwrite >= 1, "ncmpio_copy_att: expected mode tests and a header write (%d, %d)" % (ntest, nwrite))
    if bad:
        what, line = bad[0]
        ctx.fail("R4.whichfile", fn.name, "ncp_out", "%s, but the file being modified is ncp_out: with the two files in "
                 "different modes the destination is changed without the define-mode check / without its header being "
                 "rewritten" % what, fn=fn, line=line or fn.line)
    else:
        ctx.ok("R4.whichfile", "ncmpio_copy_att", "%d mode tests and %d header write(s) all on ncp_out" % (ntest, nwrite))


class PersistDom(PairDom):
    DEF = 0x2000
    pname = "ncp"

    def tracked(self, key):
        if isinstance(key, tuple) and key[0] == "m" and key[2] == "flags":
            return True
        return super().tracked(key)

    def on_call(self, call, st, blk, idx):
        st = super().on_call(call, st, blk, idx)
        if call.get("fn") == "ncmpio_write_header":
            st = st.set("$wh", ONE)
        return st

    def on_assign(self, key, lhs, rhs, val, st, elem):
        st = super().on_assign(key, lhs, rhs, val, st, elem)
        # NC *ncp = (NC*)ncdp : inject data mode on the object being modified
        if key is not None and key[0] == "v" and key[2] == self.pname and not st.has("$inj"):
            st = st.set(("m", key, "flags"), AVal("bits", k1=0, k0=self.DEF)).set("$inj", ONE)
        l = strip(lhs) if lhs is not None else None
        if isinstance(l, dict) and l.get("k") == "mem" and l.get("rec") in ("NC_attr",) and l.get("f") in ("xvalue", "nelems", "xtype"):
            st = st.set("$mut:attr", ONE)
        return st


def check_persist(ctx, prog, defbit):
    for name, pn in (("ncmpio_rename_dim", "ncp"), ("ncmpio_rename_var", "ncp"), ("ncmpio_rename_att", "ncp"),
                     ("ncmpio_put_att", "ncp"), ("ncmpio_copy_att", "ncp_out")):
        fn = ctx.need_fn(prog, name)
        dom = PersistDom(fn)
        dom.DEF = defbit
        dom.pname = pn
        try:
            ex = Explorer(fn, dom, max_states=400000).run(State())
        except Budget as e:
            raise AnalysisBroken(str(e))
        ctx.states += ex.visited
        bad = None
        changed = 0
        for st, key in ex.exits:
            r = st.get("$ret")
            if isinstance(r, AVal) and not r.may_be_zero():
                continue
            if not st.has("$inj"):
                continue
            mut = any(st.has("$mut:" + k) for k in ("dim", "var", "attr"))
            if mut:
                changed += 1
                if not st.has("$wh"):
                    bad = bad or key
        if bad:
            ctx.fail("R4.persist", name, "ncmpio_write_header", "in data mode a successful path changes the header in "
                     "memory without rewriting it in the file: the change is lost at close/reopen", fn=fn, line=fn.line,
                     detail={"path": ex.describe_path(bad)})
        elif changed == 0:
            raise AnalysisBroken("%s: no data-mode path that changes the header was found" % name)
        else:
            ctx.ok("R4.persist", name, "%d data-mode exit state(s) with a change, all through ncmpio_write_header" % changed)


def run(ctx):
    ctx.rule("R4.sametable", "lookup-table calls take buckets and bucket count from the same object")
    ctx.rule("R4.pair", "object-array change <=> lookup-table update on every successful path of the 8 mutators")
    ctx.rule("R5.shiftlen", "ncmpio_hash_delete compacts over the current length, decrementing it afterwards")
    ctx.rule("R4.mirror", "dispatcher mirrors change only after driver success")
    ctx.rule("R4.norm", "user names are UTF-8 normalised before lookup/insert")
    ctx.rule("R4.whichfile", "ncmpio_copy_att: mode tests and header rewrite on the destination file")
    ctx.rule("R4.persist", "data-mode metadata changes pass through ncmpio_write_header")
    ctx.assume("hash-list arithmetic, attribute value conversion and id renumbering after deletion are not decided")
    prog = ctx.program(groups=["lib"])
    defbit = None
    for u in prog.units.values():
        if "NC_MODE_DEF" in u.macros:
            defbit = int(u.macros["NC_MODE_DEF"].strip("() "), 0)
            break
    ctx.require(defbit, "NC_MODE_DEF not found")
    check_sametable(ctx, prog)
    check_pair(ctx, prog)
    check_shiftlen(ctx, prog)
    check_mirror(ctx, prog)
    check_norm(ctx, prog)
    check_whichfile(ctx, prog)
    check_persist(ctx, prog, defbit)
    from rules import r4inplace
    ctx.rule("R4.namelen", "every cached name_len is the length of the string stored as the object's name")
    ctx.rule("R4.growguard", "data-mode in-place updates are refused by comparing a field the header size function reads with the "
             "value that replaces it")
    r4inplace.check_namelen(ctx, prog, "R4.namelen")
    nid = None
    for u in prog.units.values():
        if "NC_ENOTINDEFINE" in u.macros:
            nid = int(u.macros["NC_ENOTINDEFINE"].strip("() "), 0)
            break
    ctx.require(nid is not None, "NC_ENOTINDEFINE not found")
    r4inplace.check_growguard(ctx, prog, "R4.growguard", nid)
    from rules import r10nameeq
    ctx.rule("R10.nameeq", "every comparison of a stored object name with a looked-up string is a whole-string comparison (strcmp, or "
             "a bounded comparison under an equal-length test on the same object)")
    r10nameeq.check(ctx, prog, "R10.nameeq", 4)
    from rules import r8normlen
    ctx.rule("R8.normlen", "NC_MAX_NAME holds for the NFC-normalised name: ncmpii_check_name evaluated with normalised lengths around the "
             "limit refuses those above it, and every dispatcher path that hands a user-supplied name to a name-storing driver slot has "
             "passed ncmpii_check_name")
    mx = None
    for u in prog.units.values():
        if "NC_MAX_NAME" in u.macros:
            try:
                mx = int(u.macros["NC_MAX_NAME"].strip("() "), 0)
            except ValueError:
                pass
            break
    ctx.require(mx, "macro NC_MAX_NAME not found / not a constant")
    r8normlen.check(ctx, prog, "R8.normlen", mx)
