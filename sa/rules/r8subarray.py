"""R8.subarray — type_create_subarray64(), the hand-built replacement of MPI_Type_create_subarray for dimensions beyond
2^31-1, produces the type map MPI_Type_create_subarray is defined to produce.

The function is interpreted by the analyser with the MPI type constructors it calls (hvector, hindexed, resized,
get_extent) replaced by their definitions over explicit type maps; the resulting map, lower bound and extent are compared
with the subarray definition: element (k_0..k_{n-1}) of the sub-block at (start_d + k_d) in C order, lb 0, extent = whole
array.  Sizes beyond 2^31 are used so that the manual path is the one taken.  Bounded: 1-3 dimensions, sub-sizes 1..3."""
import itertools
import concrete
from facts import strip, canon
from frontend import AnalysisBroken

BIG = (1 << 31) + 64


class T:
    def __init__(self, blocks, lb, extent):
        self.blocks, self.lb, self.extent = blocks, lb, extent      # blocks: sorted tuple of byte offsets of elements


def replicate(old, disp_list):
    blocks = []
    lbs, ubs = [], []
    for d in disp_list:
        blocks.extend(b + d for b in old.blocks)
        lbs.append(old.lb + d)
        ubs.append(old.lb + d + old.extent)
    return T(tuple(blocks), min(lbs), max(ubs) - min(lbs))


def array_arg(node, env):
    """(name, first index) of an array argument: `a`, `&a[k]`"""
    n = strip(node)
    if isinstance(n, dict) and n.get("k") == "un" and n.get("op") == "&":
        t = strip(n["e"])
        if t.get("k") == "idx":
            return canon(t["b"]), concrete.evs(t["i"], env, None)
        return canon(t), 0
    return canon(n), 0


def out_name(node):
    n = strip(node)
    if isinstance(n, dict) and n.get("k") == "un" and n.get("op") == "&":
        return concrete.lv_name(n["e"])
    return "*" + concrete.lv_name(n)


def run_one(fn, el, sizes, subsizes, starts):
    nd = len(sizes)
    types = {1: T((0,), 0, el)}        # handle 1: oldtype, one element of el bytes (offset of its first byte)
    env = {"$dyn": True, "ndims": nd, "order": 0, "oldtype": 1, "$ret:malloc": 9000}
    for d in range(nd):
        env["array_of_sizes[%d]" % d] = sizes[d]
        env["array_of_subsizes[%d]" % d] = subsizes[d]
        env["array_of_starts[%d]" % d] = starts[d]
    state = {"next": 2, "manual": False}

    def new(t):
        h = state["next"]
        state["next"] += 1
        types[h] = t
        return h

    def hook(e, args, env):
        f = e.get("fn")
        a = e.get("args", [])
        if f == "MPI_Type_get_extent":
            old = types[args[0]]
            env[out_name(a[1])] = old.lb
            env[out_name(a[2])] = old.extent
        elif f == "MPI_Type_create_hvector":
            state["manual"] = True
            count, bl, stride, old = args[0], args[1], args[2], types[args[3]]
            env[out_name(a[4])] = new(replicate(old, [c * stride + b * old.extent for c in range(count) for b in range(bl)]))
        elif f == "MPI_Type_create_hindexed":
            state["manual"] = True
            n_ = args[0]
            bn, bi = array_arg(a[1], env)
            dn, di = array_arg(a[2], env)
            old = types[args[3]]
            disps = []
            for q in range(n_):
                bl = env["%s[%d]" % (bn, bi + q)]
                dp = env["%s[%d]" % (dn, di + q)]
                disps.extend(dp + b * old.extent for b in range(bl))
            env[out_name(a[4])] = new(replicate(old, disps))
        elif f == "MPI_Type_create_resized":
            old = types[args[0]]
            env[out_name(a[3])] = new(T(old.blocks, args[1], args[2]))
        elif f == "MPI_Type_create_subarray":
            state["manual"] = False
            env[out_name(a[6])] = -1
    concrete.run_region(fn, (fn.entry, 0), set(), env, events=None, max_steps=20000, call_hook=hook)
    h = env.get("*newtype")
    return env.get("$ret"), types.get(h), state["manual"]


def model(el, sizes, subsizes, starts):
    nd = len(sizes)
    blocks = []
    for ks in itertools.product(*[range(c) for c in subsizes]):
        off = 0
        for d in range(nd):
            mult = 1
            for e in range(d + 1, nd):
                mult *= sizes[e]
            off += (starts[d] + ks[d]) * mult
        blocks.append(off * el)
    total = el
    for s_ in sizes:
        total *= s_
    return sorted(blocks), 0, total


def check(ctx, fn, rule):
    n = 0
    bad = None
    deep = getattr(ctx, "tier", "quick") == "thorough"
    for nd in (1, 2, 3):
        for bigpos in range(nd):
            small = [(4, 5, 6)[d] for d in range(nd)]
            sizes = list(small)
            sizes[bigpos] = BIG
            for subs in itertools.product((1, 2, 3), repeat=nd):
                for st_kind in itertools.product((0, 1), repeat=nd):
                    starts = [(BIG - 10 if d == bigpos else 1) if st_kind[d] else 0 for d in range(nd)]
                    if any(starts[d] + subs[d] > sizes[d] for d in range(nd)):
                        continue
                    for el in ((1, 4) if deep else (4,)):
                        try:
                            ret, t, manual = run_one(fn, el, sizes, subs, starts)
                        except concrete.Unsupported as u:
                            raise AnalysisBroken("%s is no longer interpretable: %s" % (fn.name, u))
                        except KeyError as u:
                            raise AnalysisBroken("%s reads an unbound location %s" % (fn.name, u))
                        n += 1
                        why = None
                        if ret not in (0, None):
                            why = "returns %s" % ret
                        elif not manual:
                            why = "does not take the hand-built path although a dimension exceeds 2^31-1"
                        elif t is None:
                            why = "no datatype is handed out"
                        else:
                            wb, wl, we = model(el, sizes, subs, starts)
                            if sorted(t.blocks) != wb:
                                diff = [x for x in sorted(t.blocks) if x not in set(wb)][:3]
                                why = "elements at byte displacements %s are selected, the subarray selects %s ..." % (diff or sorted(t.blocks)[:3], wb[:3])
                            elif (t.lb, t.extent) != (wl, we):
                                why = "lower bound / extent are (%d, %d), a subarray type has (0, %d)" % (t.lb, t.extent, we)
                        if why and bad is None:
                            bad = (sizes, subs, starts, el, why)
    inst = "%s:typemap" % fn.name
    if bad:
        sizes, subs, starts, el, why = bad
        ctx.fail(rule, fn.name, "typemap", "array of %s elements (%d bytes each), sub-array %s at %s: %s" %
                 (sizes, el, list(subs), starts, why), fn=fn, line=fn.line, inst=inst)
    else:
        ctx.ok(rule, inst, "%d sub-array requests with one dimension of 2^31+64: type map, lower bound and extent as MPI_Type_create_subarray defines" % n)
    return n
