"""R10.echar — text and numeric types never convert into each other, also when the buffer's element type only becomes
known by decoding a user-supplied MPI datatype (the flexible APIs).

The dispatcher can test NC_ECHAR only for the typed APIs; for a flexible call it hands MPI_DATATYPE_NULL-typed checking to
the driver.  The conversion layer *assumes* the test has been made (`assert(itype == MPI_CHAR)` for an NC_CHAR variable,
`assert(itype != MPI_CHAR)` in every numeric converter): a contradiction rule - whoever produces the element type has to
make the test.  Every call ncmpii_dtype_decode(buftype, &T, ...) on the `buftype` parameter of a library function is a
site; from the call, along the paths on which the decode succeeded, no use of T (and, when T is an out-parameter of the
function itself, no return) may be reached before a comparison that mentions T, NC_CHAR and MPI_CHAR.  A use is: T passed
to the conversion layer (ncmpii_need_convert, the ncmpii_putn/getn_NC_* converters, ncmpio_pack/unpack_xbuf, the burst
buffer's log append) or stored into a structure member (a queued request that is converted later).  A function that hands
T out through a pointer parameter untested is followed into its callers, where the obligation continues after the call."""
import cfg
from facts import walk, strip, canon
from frontend import AnalysisBroken

DECODERS = {"ncmpii_dtype_decode"}


def _mentions(e, name):
    return any(isinstance(x, dict) and x.get("k") == "ref" and x.get("n") == name for x in walk(e, into_pre=True))


def _is_test(e, t):
    c = canon(e)
    return "NC_CHAR" in c and ("ompi_mpi_char" in c or "MPI_CHAR" in c) and _mentions(e, t) and ("==" in c or "!=" in c)


CONSUMERS = ("ncmpii_need_convert", "ncmpii_putn_NC_", "ncmpii_getn_NC_", "ncmpio_pack_xbuf", "ncmpio_unpack_xbuf",
             "ncbbio_log_put_var")


def _consumes(el, t):
    """does the element hand the element type to the conversion layer, or store it where a later conversion reads it?"""
    for x in walk(el, into_pre=False):
        if not isinstance(x, dict):
            continue
        if x.get("k") == "call" and (x.get("fn") or "").startswith(CONSUMERS):
            if any(canon(strip(a)) == t for a in x.get("args", [])):
                return True
        if x.get("k") == "asg" and canon(strip(x["b"])) == t and strip(x["a"]).get("k") == "mem":
            return True
    return False


def _has_decode(e, names):
    return any(isinstance(x, dict) and x.get("k") == "call" and x.get("fn") in names for x in walk(e, into_pre=True))


def _walk_site(fn, b, i, t, out_names, skip_calls):
    """first thing reached after (b, i) on the decode's success paths: None when every path meets the text/numeric test
    first, ("use", elem, text) for a use of t, ("out", elem) when the function hands t to its caller untested"""
    seen = set()
    work = [(b.id, i + 1)]
    while work:
        bid, start = work.pop()
        if (bid, start) in seen:
            continue
        seen.add((bid, start))
        blk = fn.blocks[bid]
        stop = False
        for j in range(start, len(blk.elems)):
            el = blk.elems[j]
            if _is_test(el, t):
                stop = True
                break
            if _has_decode(el, skip_calls):
                continue          # the decode itself / the assignment of its status
            s_ = strip(el)
            if isinstance(s_, dict) and s_.get("k") == "ret" and t in out_names:
                return ("out", el)
            if isinstance(s_, dict) and s_.get("k") == "asg" and canon(strip(s_["b"])) == t:
                l = canon(strip(s_["a"]))
                if l.startswith("*") and l[1:] in out_names:
                    return ("out", el)
            if _consumes(el, t):
                return ("use", el, canon(el)[:70])
        if stop:
            continue
        cond = blk.cond
        if cond is not None and _is_test(cond, t):
            continue
        succs = [s for s in blk.succs if s is not None]
        if cond is not None and len(blk.succs) == 2 and canon(strip(cond)) in ("err != NC_NOERR", "status != NC_NOERR"):
            succs = [blk.succs[1]] if blk.succs[1] is not None else []     # the decode failed: not a path of interest
        for s in succs:
            if s == fn.exit:
                if t in out_names:
                    return ("out", None)
                continue
            work.append((s, 0))
    return None


def check(ctx, prog, rule, min_sites):
    n = 0
    producers = {}          # function -> index of the pointer parameter through which the untested element type leaves
    done = set()
    for rnd in range(4):
        names = DECODERS | set(producers)
        new_prod = {}
        for fn in prog.all_functions():
            pn = [p["n"] for p in fn.params]
            for b, i, e in fn.elements():
                c = strip(e)
                if not (isinstance(c, dict) and c.get("k") == "call" and len(c.get("args", [])) >= 2):
                    continue
                f = c.get("fn")
                if f in DECODERS:
                    if canon(strip(c["args"][0])) != "buftype" or "buftype" not in pn:
                        continue
                    targ = canon(strip(c["args"][1]))
                elif f in producers and len(c["args"]) > producers[f]:
                    targ = canon(strip(c["args"][producers[f]]))
                else:
                    continue
                t = targ[1:] if targ.startswith("&") else targ
                key = (fn.name, f, c.get("l"), t)
                if not t.isidentifier() or key in done:
                    continue
                done.add(key)
                n += 1
                inst = "%s:%s->%s" % (fn.name, f, t)
                ctx.functions_analysed.add((fn.unit.name, fn.name))
                # pointer parameters through which t can leave: t itself when it is a parameter, or p in `*p = t`
                outs = set(pn)
                r = _walk_site(fn, b, i, t, outs, names)
                if r is None:
                    ctx.ok(rule, inst, "every use of %s after the decode follows the text/numeric test" % t)
                elif r[0] == "out":
                    el = r[1]
                    if t in pn:
                        idx = pn.index(t)
                    else:
                        l = canon(strip(strip(el)["a"]))
                        idx = pn.index(l[1:])
                    new_prod[fn.name] = idx
                    ctx.ok(rule, inst, "the element type is handed to the caller untested: the obligation continues at the call sites",
                           nontrivial=False)
                else:
                    el = r[1]
                    ctx.fail(rule, fn.name, "%s->%s" % (f, t), "after %s(buftype, ...) delivered the element type `%s`, it is used (%s) before "
                             "any test of %s against MPI_CHAR / the variable's type against NC_CHAR: a numeric buffer for an NC_CHAR "
                             "variable (or text for a numeric one) reaches the converters, which assume NC_ECHAR was ruled out (assert)" %
                             (f, t, r[2], t), fn=fn, line=el.get("l", fn.line), inst=inst)
        fresh = {k: v for k, v in new_prod.items() if k not in producers}
        if not fresh:
            break
        producers.update(fresh)
    if n < min_sites:
        raise AnalysisBroken("%s: only %d decode sites of a user buffer type found (expected >= %d)" % (rule, n, min_sites))
    return n
