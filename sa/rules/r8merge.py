"""R8.merge — the "merge sorted, possibly overlapping (file offset, length, buffer address) segments" loops.

Two sibling implementations exist: merge_requests() (nonblocking request aggregation, ncmpio_wait.c) and the
aggregator's merge in intra_node_aggregation() (ncmpio_intra_node.c).  Each loop is located structurally (a loop whose
body computes `gap = off[i] + len[i] - off[j]`), evaluated by the analyser's interpreter for every small sorted
segment list of a bounded family, and its output compared with an independent model: the output segments are sorted
and disjoint, cover exactly the bytes the inputs cover, and take every byte from the lowest-indexed input segment
that covers it.  Bounded (not exhaustive): up to 4 segments, offsets < 7, lengths 1..4, two buffer layouts.

Read semantics (`check(..., reads=True)`, merge_requests only): the same loop serves the get requests.  There every
input segment has its own buffer and each of them must receive its file bytes: after the read through the merged
segments and after the copies the function records for its caller (the list of (source, destination, length) entries
written inside the loop, located structurally; none on a tree that has no such list) every byte of every input segment
must sit at that segment's own buffer address."""
import itertools
import concrete
from facts import walk, strip, strip_pre, canon, const_value
from frontend import AnalysisBroken
import patterns


def find_merge_loop(fn):
    for lp in patterns.loops(fn):
        gap = None
        for blk, i, e in lp.body_elems(ext=False):
            for x in ([e] if e.get("k") != "decl" else []):
                pass
            if e.get("k") == "decl":
                for v in e.get("vars", []):
                    if v.get("n") == "gap" and v.get("init") is not None:
                        gap = v["init"]
            if e.get("k") == "asg" and canon(e["a"]) == "gap":
                gap = e["b"]
        if gap is not None:
            return lp, gap
    return None, None


def start_point(fn, lp):
    """(block, idx) of the first of the loop-variable initialisations in front of the loop"""
    names = set()
    for x in walk(lp.cond, into_pre=True):
        if x.get("k") == "ref":
            names.add(x["n"])
    for p in lp.head.preds:
        if p in lp.body:
            continue
        blk = fn.blocks[p]
        first = None
        for k, e in enumerate(blk.elems):
            if e.get("k") == "asg" and const_value(e["b"]) in (0, 1) and strip(e["a"]).get("k") == "ref":
                if first is None:
                    first = k
            elif first is not None and e.get("k") not in ("asg", "bin"):
                first = None
        if first is not None:
            return p, first
    return None


def inputs(deep=False):
    """sorted segment lists (off, len) with their input order as identity"""
    out = []
    lens_set = (1, 2, 3, 4, 6) if deep else (1, 2, 4)
    top = 9 if deep else 7
    for n in (1, 2, 3, 4):
        for offs in itertools.combinations_with_replacement(range(0, top), n):
            if n == 4 and deep and offs[0] != 0:
                continue
            for lens in itertools.product(lens_set if n < 4 else (1, 2, 4), repeat=n):
                if n == 4 and not deep and (offs[0] != 0 or lens[0] == 4 and lens[1] == 4):
                    continue
                out.append(list(zip(offs, lens)))
    return out


def model(segs, addrs):
    want = {}
    for k, ((o, l), a) in enumerate(zip(segs, addrs)):
        for p in range(o, o + l):
            if p not in want:
                want[p] = a + (p - o)
    return want


def find_copy_list(fn, lp, layout):
    """the (array, count, src-field, dst-field, len-field) of the copy records the loop writes, or None.
    A record store has the shape (*X)[*N].F = ... with X a parameter other than the segment array; the field whose
    value mentions segment j's buffer address only is the destination, the one mentioning segment i's the source."""
    seg_arr = layout["off"].split("[")[0]
    stores = {}
    for blk, i, e in lp.body_elems(ext=False):
        if e.get("k") != "asg" or e.get("op") != "=":
            continue
        l = strip(e["a"])
        if l.get("k") != "mem":
            continue
        b = strip(l.get("b") or l.get("e") or {})
        if not isinstance(b, dict) or b.get("k") != "idx":
            continue
        arr, cnt = canon(b["b"]), canon(b["i"])
        if arr.replace("(", "").replace(")", "") == seg_arr.replace("(", "").replace(")", ""):
            continue
        stores.setdefault((arr, cnt), {}).setdefault(l.get("f"), []).append(canon(e["b"]))
    for (arr, cnt), fields in stores.items():
        src = dst = ln = None
        for f, rhss in fields.items():
            t = rhss[0]
            has_i, has_j = "[i].buf_addr" in t, "[j].buf_addr" in t
            if has_i and not has_j:
                src = f
            elif has_j and not has_i:
                dst = f
            elif not has_i and not has_j:
                ln = f
        if src and dst and ln:
            return arr, cnt, src, dst, ln
    return None


def check(ctx, fn, rule, layout, reads=False):
    """layout: dict with the env names of the three arrays and the count, e.g.
       {"off": "*segs[%d].off", "len": "*segs[%d].len", "addr": "*segs[%d].buf_addr", "n": "*nsegs"}"""
    lp, gap = find_merge_loop(fn)
    if lp is None:
        raise AnalysisBroken("%s: the overlap-merge loop (gap = off[i] + len[i] - off[j]) was not found" % fn.name)
    sp = start_point(fn, lp)
    if sp is None:
        raise AnalysisBroken("%s: initialisation of the merge loop not found" % fn.name)
    cells = 0
    bad = None
    copy = find_copy_list(fn, lp, layout) if reads else None
    ptr_params = [p["n"] for p in fn.params if fn.type(p["t"]).get("k") == "ptr"]
    for segs in inputs(getattr(ctx, 'tier', 'quick') == 'thorough'):
        for mode in ("contig", "scattered"):
            if mode == "contig":
                addrs, a = [], 100
                for o, l in segs:
                    addrs.append(a)
                    a += l
            else:
                addrs = [100 + 10 * (len(segs) - k) for k in range(len(segs))]
            env = {"$dyn": True, layout["n"]: len(segs), "$impl": {"MPI_Aint_add": lambda x, y: x + y,
                                                                   "MPI_Aint_diff": lambda x, y: x - y}}
            # pointer parameters other than the segment array: NULL for the write form, present for the read form;
            # the I/O buffer base is address 0, so that buffer addresses are the segment-relative ones
            for pn in ptr_params:
                env.setdefault(pn, 1 if reads else 0)
                env.setdefault("*" + pn, 0)
            for k, ((o, l), a) in enumerate(zip(segs, addrs)):
                env[layout["off"] % k] = o
                env[layout["len"] % k] = l
                env[layout["addr"] % k] = a
            try:
                concrete.run_region(fn, sp, {lp.exit}, env, events=None, max_steps=4000)
                # the statement(s) right after the loop that store the new count
                if lp.exit is not None:
                    blk = fn.blocks[lp.exit]
                    for e in blk.elems:
                        if e.get("k") == "asg" and concrete.lv_slot(e["a"], env) == layout["n"]:
                            concrete.evs(e, env)
                            break
            except concrete.Unsupported as u:
                raise AnalysisBroken("%s: the merge loop is no longer interpretable: %s" % (fn.name, u))
            except KeyError as u:
                raise AnalysisBroken("%s: the merge loop reads an unbound location %s" % (fn.name, u))
            cells += 1
            n = env.get(layout["n"])
            got = {}
            why = None
            prev_end = None
            for k in range(n):
                o, l, a = env.get(layout["off"] % k), env.get(layout["len"] % k), env.get(layout["addr"] % k)
                if o is None or l is None or a is None or l <= 0:
                    why = "output segment %d is (%s, %s, %s)" % (k, o, l, a)
                    break
                if prev_end is not None and o < prev_end:
                    why = "output segments overlap / are unsorted at index %d (offset %d < previous end %d)" % (k, o, prev_end)
                    break
                prev_end = o + l
                for p in range(o, o + l):
                    got[p] = a + (p - o)
            if why is None:
                want = model(segs, addrs)
                if set(got) != set(want):
                    extra, miss = sorted(set(got) - set(want)), sorted(set(want) - set(got))
                    why = "file bytes %s are written although no request addresses them" % extra if extra else \
                        "file bytes %s addressed by the requests are not written" % miss
                elif not reads:
                    for p in sorted(want):
                        if got[p] != want[p]:
                            why = "file byte %d is taken from buffer address %d, the first request covering it supplies %d" % (p, got[p], want[p])
                            break
                else:
                    # memory after the read through the merged segments, then after the recorded copies in order
                    mem = {a: p for p, a in got.items()}
                    if copy is not None:
                        arr, cnt, fs, fd, fl = copy
                        base = arr.replace("(", "").replace(")", "")
                        nd = env.get(cnt.replace("(", "").replace(")", ""), 0)
                        for q in range(nd):
                            src, dst, ln = (env.get("%s[%d].%s" % (base, q, f)) for f in (fs, fd, fl))
                            if src is None or dst is None or ln is None or ln < 0:
                                why = "copy record %d is (%s, %s, %s)" % (q, src, dst, ln)
                                break
                            vals = [mem.get(src + t) for t in range(ln)]
                            for t in range(ln):
                                mem[dst + t] = vals[t]
                    if why is None:
                        for k2, ((o, l), a) in enumerate(zip(segs, addrs)):
                            for t in range(l):
                                if mem.get(a + t) != o + t:
                                    why = "read request segment %d (file bytes %d..%d, buffer address %d): its byte for file offset %d %s" % (
                                        k2, o, o + l - 1, a, o + t,
                                        "is never delivered (the overlapped region is read into another request's buffer only)"
                                        if mem.get(a + t) is None else "receives file byte %s" % mem.get(a + t))
                                    break
                            if why:
                                break
            if why and bad is None:
                bad = (segs, addrs, why)
    inst = "%s:%s" % (fn.name, "readmerge" if reads else "merge")
    if bad and reads:
        segs, addrs, why = bad
        ctx.fail(rule, fn.name, "readmerge", "get requests with the sorted segments %s (buffer addresses %s): %s" % (segs, addrs, why),
                 fn=fn, line=lp.head.tl or fn.line, inst=inst, detail={"segments": segs, "addresses": addrs,
                                                                       "copy_list": list(copy) if copy else None})
    elif reads:
        ctx.ok(rule, inst, "%d segment lists: every input segment's buffer holds its file bytes after the read and the %s" % (
            cells, "recorded copies" if copy else "(absent) copies"))
    elif bad:
        segs, addrs, why = bad
        ctx.fail(rule, fn.name, "merge", "merging the sorted segments %s (buffer addresses %s): %s" % (segs, addrs, why),
                 fn=fn, line=lp.head.tl or fn.line, inst=inst, detail={"segments": segs, "addresses": addrs})
    else:
        ctx.ok(rule, inst, "%d segment lists: output sorted, disjoint, same bytes, each from the first covering request" % cells)
    return cells
